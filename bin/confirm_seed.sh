#!/bin/bash
# usage: bin/confirm_seed.sh <seed-src-dir> <seed-id>
# Confirms a sub-agent's change in a scratch worktree: builds, demo fails with the change and
# passes without it, existing test-suite unchanged.  Writes /verif/seeded/<id>/{patch.diff,demo*,meta.json,confirm.log}
set -u
SRC=$1; ID=$2
WT=/tmp/wt/confirm
OUT=/verif/seeded/$ID
mkdir -p $OUT
LOG=$OUT/confirm.log
: > $LOG
if [ ! -d $WT ]; then git -C /repo worktree add -q --detach $WT HEAD >>$LOG 2>&1; fi
cd $WT || exit 2
git checkout -q --detach $(git -C /repo rev-parse HEAD) >>$LOG 2>&1
git checkout -q -- . ; git clean -fdq -e target
echo "base: $(git rev-parse --short HEAD)" >>$LOG
cp $SRC/patch.diff $OUT/patch.diff
cp $SRC/demo* $OUT/ 2>/dev/null
cp -r $SRC/*.fzn $SRC/*.cnf $SRC/*.wcnf $SRC/inputs $OUT/ 2>/dev/null
install_demo() {
  if [ -f $SRC/demo.rs ]; then
    crate=pumpkin-solver
    grep -q "drcp_format" $SRC/demo.rs && ! grep -q "pumpkin_solver" $SRC/demo.rs && crate=drcp-format
    mkdir -p $WT/$crate/tests; cp $SRC/demo.rs $WT/$crate/tests/demo.rs; echo $crate
  fi
}
run_demo() {
  if [ -f $SRC/demo.rs ]; then
    crate=$(install_demo)
    (cd $WT && timeout 900 cargo test --offline -p $crate --test demo > /tmp/confirm_demo.out 2>&1); rc=$?
    grep -E "^test |test result|panicked" /tmp/confirm_demo.out | head -30
    return $rc
  elif [ -f $SRC/demo.sh ]; then
    (cd $WT && cargo build --offline -q 2>&1 | tail -3; ARG=$WT; grep -qE 'BIN="?[$][{]1' $SRC/demo.sh && ARG=$WT/target/debug/pumpkin-solver; cd $SRC && WT=$WT timeout 900 bash ./demo.sh $ARG > /tmp/confirm_demo.out 2>&1); rc=$?
    tail -15 /tmp/confirm_demo.out
    return $rc
  fi
  return 99
}
echo "== clean demo" >>$LOG
run_demo >>$LOG 2>&1; CLEAN=$?
echo "clean demo exit=$CLEAN" >>$LOG
if ! git apply --check $OUT/patch.diff 2>>$LOG; then echo "RESULT patch-does-not-apply" | tee -a $LOG; exit 1; fi
git apply $OUT/patch.diff
echo "== mutated build" >>$LOG
cargo build --offline --workspace 2>&1 | tail -3 >>$LOG; BUILD=${PIPESTATUS[0]}
echo "== mutated demo" >>$LOG
run_demo >>$LOG 2>&1; MUT=$?
echo "mutated demo exit=$MUT" >>$LOG
rm -f $WT/pumpkin-solver/tests/demo.rs $WT/drcp-format/tests/demo.rs
echo "== mutated test-suite" >>$LOG
timeout 1500 cargo test --workspace --no-fail-fast --offline > /tmp/confirm_suite.out 2>&1
grep -E "^test result|^test .* FAILED" /tmp/confirm_suite.out | head -40 >>$LOG
FAILS=$(grep -E "^test result" /tmp/confirm_suite.out | awk '{f+=$6} END{print f+0}')
PASSES=$(grep -E "^test result" /tmp/confirm_suite.out | awk '{p+=$4} END{print p+0}')
FAILED_NAMES=$(grep -E "^test .* FAILED" /tmp/confirm_suite.out | awk '{print $2}' | sort -u | tr '\n' ',')
git checkout -q -- . ; git clean -fdq -e target
echo "RESULT build=$BUILD clean_demo_exit=$CLEAN mutated_demo_exit=$MUT suite_passed=$PASSES suite_failed=$FAILS failed_tests=$FAILED_NAMES (baseline: 690 passed, 1 failed: prime4294967297)" | tee -a $LOG

#!/usr/bin/env python3
"""Prompt for a sub-agent that produces behaviour-PRESERVING refactorings of the code a property is
anchored in (used to test the checks for false alarms).  Usage: <Cxx> <worktree> <outdir> [n]"""
import json, sys
pid, wt, out = sys.argv[1], sys.argv[2], sys.argv[3]
n = sys.argv[4] if len(sys.argv) > 4 else "4"
rec = None
for l in open('/verif/properties.jsonl'):
    r = json.loads(l)
    if r['id'] == pid:
        rec = r
mech = "\n".join("  - %s (%s)" % (m.get('name'), m.get('where')) for m in rec['anchors'].get('mechanism', []))
print(f"""You are helping to evaluate a verification tool for the Rust project ConSol-Lab/Pumpkin (a lazy-clause-generation constraint programming solver). Your job is to play the role of a careful maintainer who REFACTORS code WITHOUT changing its behaviour. The tool under evaluation must stay silent on such changes; your patches are used to find out whether it does.

Your working copy is a git worktree at {wt} (a full checkout of the repository; build with `cargo build --offline`, test with `cargo test --workspace --no-fail-fast --offline`; there is NO network). Work ONLY inside {wt} (NEVER use `git stash` — the stash is shared with other checkouts of this repository; to get back to the clean tree save your change with `git diff > file`, run `git checkout -- .`, and re-apply with `git apply file`) and write results ONLY to {out}.

The property the refactored code is responsible for (it must KEEP holding):

  id: {rec['id']} — {rec['title']}
  statement: {rec['statement']}
  must hold: {rec['quantifier']['text']}
  where the code that is meant to make it hold lives: {', '.join(rec['anchors']['files'])}
{mech}

TASK. Produce {n} DIFFERENT, independent refactorings (each a separate patch against the clean worktree, touching non-test code only, 10-80 changed lines each) of the code listed above or of the helpers it relies on, such that for each:
  1. the project compiles (`cargo build --offline --workspace`) without new warnings;
  2. the whole existing test-suite passes exactly as before (one test, prime4294967297-related, may already fail on the clean tree — check the baseline first);
  3. the observable behaviour is EXACTLY the same for every input: same results, same order of side effects, same files written, same statistics. You must be able to argue this in two or three sentences per patch. If in doubt, choose a more conservative refactoring.
  4. it is the kind of change maintainers really make: extract a helper function from one or two call sites; inline a small helper; turn an iterator chain into a `for` loop or vice versa; replace `if let … else` by `match` (or `let … else`); introduce a local variable for a repeated sub-expression; reorder two independent statements; move a block into a method of the struct it works on; rename parameters and locals; split a long function in two; replace a hand-written loop by `any`/`all`/`find`; change `&Vec<T>` parameters to `&[T]`; hoist a common tail out of the arms of a `match`.
  Use a different kind of refactoring for each patch, and put them in different functions/files where possible. Prefer the functions that matter most for the property above.

For each refactoring k = 1..{n} write into {out}/r<k>/ :
  - patch.diff  : `git diff` of the change against the clean worktree (must apply with `git apply` on a clean checkout);
  - meta.json : {{"property": "{rec['id']}", "kind": "...which kind of refactoring...", "summary": "...what was changed...", "why_equivalent": "...argument that behaviour is unchanged...", "files": [...], "tests": "...result of the full test-suite with the change..."}}

Process: first build and run the test-suite once on the clean worktree to get the baseline. Then, for each refactoring: edit, build, run the full test-suite, save the files, and restore the clean tree (`git checkout -- .`). The machine is shared: use `-j4`.

Finish with a short report listing, per patch, the kind of refactoring and the one-line equivalence argument.""")

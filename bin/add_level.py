#!/usr/bin/env python3
"""bin/add_level.py <Cxx> '<anchor text>' '<text to insert before the anchor>' — edits a property's LEVEL string"""
import re, sys, importlib, textwrap
sys.path.insert(0, '/verif')
p, anchor, text = sys.argv[1:4]
m = importlib.import_module('lint.props.' + p)
L = m.LEVEL
assert anchor in L, "anchor not in LEVEL"
L = L.replace(anchor, text + anchor)
path = '/verif/lint/props/%s.py' % p
s = open(path).read()
mm = re.search(r'^LEVEL = \(.*?\)\n(?=TECHNIQUE)', s, re.S | re.M)
assert mm
chunks = textwrap.wrap(L, 92, drop_whitespace=False)
s = s[:mm.start()] + "LEVEL = (" + "\n         ".join(repr(c) for c in chunks) + ")\n" + s[mm.end():]
open(path, 'w').write(s)

#!/usr/bin/env python3
"""Run every stored mutant (mutants/<prop>/*.patch, or the given props) through its property's
check; a mutant is KILLED when the expected rule reports a new violation."""
import glob, os, sys
VERIF = os.path.dirname(os.path.dirname(os.path.abspath(__file__)))
sys.path.insert(0, VERIF)
sys.path.insert(0, os.path.join(VERIF, "bin"))
import importlib.util
spec = importlib.util.spec_from_file_location("try_patch", os.path.join(VERIF, "bin", "try_patch.py"))
tp = importlib.util.module_from_spec(spec); spec.loader.exec_module(tp)
props = sys.argv[1:]
pats = []
for p in (props or sorted(os.listdir(os.path.join(VERIF, "mutants")))):
    pats += sorted(glob.glob(os.path.join(VERIF, "mutants", p, "*.patch")))
ok = True
for patch in pats:
    prop = rule = None
    for l in open(patch):
        if l.startswith("# expect:"):
            _, _, prop, rule = l.split()[:4]
    try:
        out = tp.run(patch, [prop], quiet=True)
    except Exception as e:
        print("ERROR  %s: %s" % (os.path.relpath(patch, VERIF), str(e)[-300:]))
        ok = False
        continue
    new = out.get(prop, [])
    fired = sorted({o["rule"] for o in new})
    killed = any(o["rule"] == rule or rule == "*" for o in new)
    print("%s %s expect %s fired %s" % ("KILLED " if killed else "MISSED ", os.path.relpath(patch, VERIF), rule, fired))
    if not killed:
        ok = False
sys.exit(0 if ok else 1)

#!/bin/bash
# Sequential worker: processes lines "<agent-out-dir> <PROP>" appended to /tmp/confirm_queue.txt
Q=/tmp/confirm_queue.txt; D=/tmp/confirm_queue.done; touch $Q $D
while true; do
  next=$(grep -vxFf $D $Q | head -1)
  if [ -z "$next" ]; then sleep 15; continue; fi
  set -- $next
  /verif/bin/confirm_batch.sh $1 $2 >> /tmp/confirm_queue.log 2>&1
  echo "$next" >> $D
done

#!/usr/bin/env python3
"""Create a stored mutant patch: bin/mkmutant.py <prop> <name> <expect-rule> <file> <<< 'OLD\n=====\nNEW'
The patch replaces the first occurrence of OLD by NEW in <file> (path relative to /repo)."""
import difflib, os, sys
prop, name, expect, rel = sys.argv[1:5]
spec = sys.stdin.read()
old, new = spec.split("\n=====\n")
old = old.strip("\n"); new = new.rstrip("\n")
if new.startswith("\n"): new = new[1:]
src = open(os.path.join("/repo", rel)).read()
if src.count(old) < 1:
    sys.exit("OLD text not found in " + rel)
if src.count(old) > 1 and "--first" not in sys.argv:
    sys.exit("OLD text occurs %d times in %s" % (src.count(old), rel))
dst = src.replace(old, new, 1)
diff = "".join(difflib.unified_diff(src.splitlines(True), dst.splitlines(True), "a/" + rel, "b/" + rel))
d = os.path.join("/verif/mutants", prop)
os.makedirs(d, exist_ok=True)
p = os.path.join(d, name + ".patch")
with open(p, "w") as fh:
    fh.write("# expect: %s %s\n" % (prop, expect))
    fh.write(diff)
print(p)

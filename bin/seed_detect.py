#!/usr/bin/env python3
"""For every confirmed seeded change under /verif/seeded/, run its property's check on a scratch
copy with the change applied and record which rules report it (meta.json: detected_by)."""
import glob, json, os, sys
VERIF = os.path.dirname(os.path.dirname(os.path.abspath(__file__)))
sys.path.insert(0, VERIF)
import importlib.util
spec = importlib.util.spec_from_file_location("try_patch", os.path.join(VERIF, "bin", "try_patch.py"))
tp = importlib.util.module_from_spec(spec); spec.loader.exec_module(tp)
only = sys.argv[1:]
for d in sorted(glob.glob(os.path.join(VERIF, "seeded", "*"))):
    name = os.path.basename(d)
    if only and not any(name.startswith(o) for o in only):
        continue
    mp = os.path.join(d, "meta.json")
    if not os.path.exists(mp):
        continue
    meta = json.load(open(mp))
    if meta.get("detected_by") and not only:
        continue
    prop = meta.get("property") or name.split("-")[0]
    try:
        out = tp.run(os.path.join(d, "patch.diff"), [prop], quiet=True)
        new = out.get(prop, [])
        meta["detected_by"] = sorted({"%s-%s" % (prop, o["rule"]) for o in new})
        meta["detection_sample"] = [{"rule": o["rule"], "instance": o["instance"], "site": o["site"]} for o in new[:3]]
    except Exception as e:
        meta["detected_by"] = []
        meta["detection_error"] = str(e)[-300:]
    json.dump(meta, open(mp, "w"), indent=1)
    print(name, meta["detected_by"])

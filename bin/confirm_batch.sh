#!/bin/bash
# usage: bin/confirm_batch.sh <agent-out-dir> <PROP>  → seeds <PROP>-<agent>-m<k>
A=$1; P=$2; N=$(basename $A)
for d in $A/m*; do
  [ -f $d/patch.diff ] || continue
  id=$P-$N-$(basename $d)
  /verif/bin/confirm_seed.sh $d $id
  python3 - "$d" "$id" "$P" <<'PY'
import json,sys,os
d,id_,p=sys.argv[1:4]
try: m=json.load(open(os.path.join(d,'meta.json')))
except Exception as e: m={'summary':'(meta.json unreadable: %s)'%e}
log=open('/verif/seeded/%s/confirm.log'%id_).read()
res=[l for l in log.splitlines() if l.startswith('RESULT')]
out={'id':id_,'property':p,'breaks':m.get('summary'),'mechanism':m.get('mechanism'),'needs':m.get('needs'),
     'files':m.get('files'),'agent_demo_cmd':m.get('demo_cmd'),
     'confirmed':res[-1] if res else None,
     'what_was_run':'bin/confirm_seed.sh: scratch worktree of /repo HEAD; demo on clean tree, git apply patch.diff, cargo build --offline --workspace, demo on mutated tree, cargo test --workspace --no-fail-fast --offline on the mutated tree, revert'}
json.dump(out,open('/verif/seeded/%s/meta.json'%id_,'w'),indent=1)
PY
done

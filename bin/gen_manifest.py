#!/usr/bin/env python3
"""Regenerate MANIFEST.json from the property modules (lint/props/Cxx.py) present."""
import importlib
import json
import os
import sys

VERIF = os.path.dirname(os.path.dirname(os.path.abspath(__file__)))
sys.path.insert(0, VERIF)

ALL = ["C%02d" % i for i in range(1, 21)]
NA_REASON = {}

checks = []
na = []
for pid in ALL:
    path = os.path.join(VERIF, "lint", "props", pid + ".py")
    if not os.path.exists(path):
        na.append({"property_id": pid, "reason": NA_REASON.get(
            pid, "no static rule implemented for this property yet; its behaviour quantifies over "
                 "runtime values and is not claimed until an exact structural clause is checked")})
        continue
    mod = importlib.import_module("lint.props." + pid)
    checks.append({
        "property_id": pid,
        "quick_cmd": "bin/check %s --tier quick" % pid,
        "thorough_cmd": "bin/check %s --tier thorough" % pid,
        "evidence_file": "evidence/%s.json" % pid,
        "replay_cmd_template": "bin/check %s --tier quick --replay {path}" % pid,
        "engine": "pumpkinlint",
        "level_claimed": {
            "category": "other",
            "text": mod.LEVEL,
            "design_ref": "DESIGN.md §4-%s" % pid,
        },
        "level_note": getattr(mod, "NOTE", "trusted: rustc MIR and type resolution; cargo check sees the "
                              "code cargo build compiles; the rule decides the named structural clause, "
                              "not the behaviour"),
        "technique": getattr(mod, "TECHNIQUE", "static analysis: custom rules over rustc MIR facts"),
    })

manifest = {
    "version": 1,
    "setup_cmd": "bin/setup",
    "hooks": {
        "guard": "pumpkin_verif",
        "enable": "none needed: the checks analyse /repo's sources with a rustc_private driver; no "
                  "instrumentation is compiled into the repository",
        "baseline_off_cmd": "cd /repo && cargo test --workspace --no-fail-fast --offline",
        "source_commits": [],
        "add_only": True,
    },
    "engines": [
        {"name": "mirfacts", "path": "mirfacts/", "serves_properties": [c["property_id"] for c in checks],
         "kind_free_text": "rustc_private driver (RUSTC_WORKSPACE_WRAPPER under cargo +nightly check) "
                           "dumping resolved MIR, types, impls and constants of /repo's current tree as JSON facts"},
        {"name": "pumpkinlint", "path": "lint/", "serves_properties": [c["property_id"] for c in checks],
         "kind_free_text": "Python rule engine over the facts: CFG dominance, must-pass, who-may-call, "
                           "taint, typestate abstract interpretation, table recovery, sibling agreement"},
    ],
    "checks": checks,
    "not_applicable": na,
    "notes": "Static analysis only: no registered command runs solver code or the test-suite. "
             "Known findings: known_findings.json. Design: DESIGN.md.",
}
with open(os.path.join(VERIF, "MANIFEST.json"), "w") as fh:
    json.dump(manifest, fh, indent=1)
print("MANIFEST.json: %d checks, %d not applicable" % (len(checks), len(na)))

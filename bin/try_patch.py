#!/usr/bin/env python3
"""Apply a patch to a scratch copy of /repo's working tree and run property checks on it.
usage: bin/try_patch.py <patch> [Cxx ...]   (default: the property named in the '# expect:' header)
Prints the violations each property reports on the patched tree.  The scratch copy is removed."""
import os, shutil, subprocess, sys, tempfile
VERIF = os.path.dirname(os.path.dirname(os.path.abspath(__file__)))
sys.path.insert(0, VERIF)
from lint import main as M, report, extract


def run(patch, props, quiet=False):
    scratch = tempfile.mkdtemp(prefix="verif-scratch-", dir="/tmp")
    try:
        subprocess.check_call(["rsync", "-a", "--exclude", "/target", "--exclude", ".git", "/repo/", scratch + "/"])
        r = subprocess.run(["patch", "-p1", "-s", "-i", os.path.abspath(patch)], cwd=scratch,
                           stdout=subprocess.PIPE, stderr=subprocess.STDOUT, text=True)
        if r.returncode != 0:
            raise RuntimeError("patch does not apply: " + r.stdout)
        known = report.load_known()
        out = {}
        for prop in props:
            if not os.path.exists(os.path.join(VERIF, "lint", "props", prop + ".py")):
                continue
            kk = {(k["rule"], k["instance"]) for k in known["findings"] if k["property"] == prop}
            led, ctx, nf, nc = M.decide(prop, "quick", 0, root=scratch)
            new = [o for o in led.obligations if not o["ok"] and (o["rule"], o["instance"]) not in kk]
            out[prop] = new
            if not quiet:
                print("== %s: %d new violation(s)" % (prop, len(new)))
                for o in new[:12]:
                    print("   %s %s @%s: %s" % (o["rule"], o["instance"], o["site"], (o["detail"] or "")[:200]))
        return out
    finally:
        shutil.rmtree(scratch, ignore_errors=True)


if __name__ == "__main__":
    patch = sys.argv[1]
    props = sys.argv[2:]
    if not props:
        for l in open(patch):
            if l.startswith("# expect:"):
                props = [l.split()[2]]
                break
    try:
        run(patch, props)
    except extract.ExtractionError as e:
        print("EXTRACTION FAILED:", str(e)[-1500:])
        sys.exit(2)

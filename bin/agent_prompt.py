#!/usr/bin/env python3
"""Print the prompt given to an independent mutation-seeding sub-agent (property text + worktree only)."""
import json, sys
pid, wt, out = sys.argv[1], sys.argv[2], sys.argv[3]
n = sys.argv[4] if len(sys.argv) > 4 else "3"
STYLE = sys.argv[5] if len(sys.argv) > 5 else ""
rec = None
for l in open('/verif/properties.jsonl'):
    r = json.loads(l)
    if r['id'] == pid:
        rec = r
mech = "\n".join("  - %s (%s)" % (m.get('name'), m.get('where')) for m in rec['anchors'].get('mechanism', []))
EXTRA = {"": "", "B": "Additional requirement for this run: avoid the obvious one-token changes (a flipped comparison, an off-by-one constant, a dropped `!`). Prefer (a) refactorings that move or merge code across two functions, (b) two cooperating edits that each look fine alone, (c) changes to caching / incremental state / bookkeeping that only matter after backtracking or on a second call, (d) changes in helper files OUTSIDE the ones listed above that the listed code relies on. At least two of your changes must be of kinds (a)-(d).\n\n", "C": "Additional requirement for this run: every change must be made in a file that is NOT among the files listed above (helpers, containers, basic types, contexts, statistics, option parsing, front-end glue) and must still break the property through the listed code relying on it.\n\n", "D": "Additional requirement for this run: do not merely alter an existing expression. Each change must ADD behaviour the way an optimisation or feature patch does: a new fast path or early return, a small cache / memo of a previous result, a special-case branch for a 'trivial' situation, a reordering of two steps for efficiency, a new default for an option, or a helper that replaces two similar code fragments (at least ~5 changed lines each). The added code must be wrong only in a corner the author plausibly overlooked. The changes may be in the listed files or in files they rely on.\n\n"}[STYLE]
print(f"""You are helping to evaluate a verification tool for the Rust project ConSol-Lab/Pumpkin (a lazy-clause-generation constraint programming solver). Your job is to play the role of a developer who introduces a subtle bug.

Your working copy is a git worktree at {wt} (a full checkout of the repository; build with `cargo build --offline`, test with `cargo test --workspace --no-fail-fast --offline`; there is NO network). Work ONLY inside {wt} (NEVER use `git stash` — the stash is shared with other checkouts of this repository; to get back to the clean tree save your change with `git diff > file`, run `git checkout -- .`, and re-apply with `git apply file`) and write your results to {out}. Do not read or write anything under /verif or /repo, and do not look at other directories under /tmp.

The property the project is supposed to guarantee:

  id: {rec['id']} — {rec['title']}
  statement: {rec['statement']}
  must hold: {rec['quantifier']['text']}
  why the existing tests cannot settle it: {rec['why_tests_cant']}
  where the code that is meant to make it hold lives: {', '.join(rec['anchors']['files'])}
{mech}

TASK. Produce {n} DIFFERENT, independent source changes to the project (each a separate small patch against the clean worktree, touching non-test code only) such that for each change:
  1. the project still compiles (`cargo build --offline --workspace`) without new warnings being errors;
  2. the whole existing test-suite still passes exactly as before (`cargo test --workspace --no-fail-fast --offline`; note: one test, prime4294967297-related or similarly named, may already fail on the clean tree — check the clean baseline first and ignore pre-existing failures);
  3. the change BREAKS the property above: there is a concrete input / API call sequence / configuration for which the changed code violates the statement;
  4. the breakage needs something specific to manifest — a particular multi-step sequence of API calls, an unusual input, a non-default option, a particular interleaving, a fault at a particular point, or two cooperating edits that each look fine alone — i.e. NOT something ordinary use or the existing tests would expose at once;
  5. the change looks like a realistic developer mistake or an over-eager refactoring/optimisation (an off-by-one, a dropped call, a swapped branch, a wrong guard, a forgotten reset, a wrong sign, forwarding to the wrong delegate, using the wrong container, …), not sabotage with obviously dead code. Prefer the different changes to use different mechanisms and to sit in different functions/files.

For each change k = 1..{n} write into {out}/m<k>/ :
  - patch.diff  : `git diff` of the change against the clean worktree (must apply with `git apply` on a clean checkout);
  - a demonstration: either demo.rs (a Rust integration test file that can be dropped into {wt}/pumpkin-solver/tests/ (or the relevant crate's tests/ directory) and run with `cargo test --offline --test demo`) or demo.sh + input files (e.g. a .fzn/.cnf/.wcnf instance and the command line to run the built binary with, plus the expected vs. actual output). The demonstration must FAIL (or show the wrong output) with the change applied and PASS (show the right output) on the clean tree — verify both yourself;
  - meta.json : {{"property": "{rec['id']}", "summary": "...what was changed...", "mechanism": "...why it breaks the property...", "needs": "...what is needed for it to manifest...", "files": [...], "demo_cmd": "...", "clean_result": "...", "mutated_result": "...", "tests": "full suite result with the change (counts)"}}.

Process: first build and run the test-suite once on the clean worktree to get the baseline (it takes a few minutes). Then, for each change: edit, build, run your demonstration, run the full test-suite, save the files, and `git checkout -- . && git clean -fdq -e target` to return to the clean tree before the next change. Leave the worktree clean at the end. If a candidate change makes an existing test fail, discard it and try a different one. Be economical: do not explore the whole code base, focus on the files named above.

{EXTRA}Finish with a short report listing, per change, the one-line summary and whether all five conditions were verified.""")

// mirfacts — rustc_private driver that dumps resolved MIR facts as JSON lines.
//
// Used as RUSTC_WORKSPACE_WRAPPER: invoked as `mirfacts <rustc> <args…>`.
// Output: $MIRFACTS_OUT/<crate>-<crate_type>[-<hash-of-cfg>].jsonl, one single write per process.
// The driver has no knowledge of the rules; see /verif/spec/facts-schema.md.
#![feature(rustc_private)]
#![allow(clippy::all)]

extern crate rustc_abi;
extern crate rustc_ast;
extern crate rustc_driver;
extern crate rustc_hir;
extern crate rustc_interface;
extern crate rustc_middle;
extern crate rustc_session;
extern crate rustc_span;

use std::fmt::Write as _;

use rustc_driver::Compilation;
use rustc_hir::def::DefKind;
use rustc_hir::def_id::{DefId, LocalDefId};
use rustc_middle::mir::{
    self, AggregateKind, BasicBlock, BorrowKind, Const as MirConst, ConstValue, Operand, Place,
    ProjectionElem, Rvalue, StatementKind, TerminatorKind, UnwindAction,
};
use rustc_middle::ty::print::{with_no_trimmed_paths, PrintTraitRefExt};
use rustc_middle::ty::{self, GenericArgsRef, Instance, Ty, TyCtxt, TypeVisitableExt, TypingEnv};
use rustc_span::Span;

struct Cb;

impl rustc_driver::Callbacks for Cb {
    fn after_analysis<'tcx>(
        &mut self,
        _compiler: &rustc_interface::interface::Compiler,
        tcx: TyCtxt<'tcx>,
    ) -> Compilation {
        if let Ok(dir) = std::env::var("MIRFACTS_OUT") {
            emit(tcx, &dir);
        }
        Compilation::Continue
    }
}

fn main() {
    let mut args: Vec<String> = std::env::args().collect();
    // argv[0] = this driver, argv[1] = path of rustc (given by cargo), rest = rustc args
    if args.len() > 1 {
        args.remove(1);
    }
    rustc_driver::run_compiler(&args, &mut Cb);
}

// ------------------------------------------------------------------------------------------------
// JSON helpers

fn esc(s: &str) -> String {
    let mut o = String::with_capacity(s.len() + 2);
    o.push('"');
    for c in s.chars() {
        match c {
            '"' => o.push_str("\\\""),
            '\\' => o.push_str("\\\\"),
            '\n' => o.push_str("\\n"),
            '\r' => o.push_str("\\r"),
            '\t' => o.push_str("\\t"),
            c if (c as u32) < 0x20 => {
                let _ = write!(o, "\\u{:04x}", c as u32);
            }
            c => o.push(c),
        }
    }
    o.push('"');
    o
}

fn opt_str(s: Option<String>) -> String {
    match s {
        Some(s) => esc(&s),
        None => "null".to_string(),
    }
}

fn join(v: Vec<String>) -> String {
    let mut o = String::from("[");
    for (i, x) in v.iter().enumerate() {
        if i > 0 {
            o.push(',');
        }
        o.push_str(x);
    }
    o.push(']');
    o
}

// ------------------------------------------------------------------------------------------------

struct Cx<'tcx> {
    tcx: TyCtxt<'tcx>,
}

impl<'tcx> Cx<'tcx> {
    fn def(&self, did: DefId) -> String {
        with_no_trimmed_paths!(self.tcx.def_path_str(did))
    }

    fn ty(&self, ty: Ty<'tcx>) -> String {
        with_no_trimmed_paths!(ty.to_string())
    }

    fn span(&self, sp: Span) -> String {
        let sm = self.tcx.sess.source_map();
        // use the call-site of the outermost expansion so that reports point at user code
        let sp = sp.source_callsite();
        let lo = sm.lookup_char_pos(sp.lo());
        let name = format!("{}", lo.file.name.prefer_local_unconditionally());
        format!("{}:{}", name, lo.line)
    }

    fn adt_path(&self, ty: Ty<'tcx>) -> Option<String> {
        match ty.kind() {
            ty::Adt(adt, _) => Some(self.def(adt.did())),
            ty::Ref(_, inner, _) => self.adt_path(*inner),
            _ => None,
        }
    }

    fn generic_args(&self, args: GenericArgsRef<'tcx>) -> String {
        let mut v = Vec::new();
        for a in args.iter() {
            if let Some(t) = a.as_type() {
                v.push(esc(&self.ty(t)));
            } else if let Some(c) = a.as_const() {
                v.push(esc(&with_no_trimmed_paths!(format!("{}", c))));
            }
        }
        join(v)
    }

    fn place(&self, body: &mir::Body<'tcx>, p: &Place<'tcx>) -> String {
        let mut proj = Vec::new();
        let mut cur_ty = mir::PlaceTy::from_ty(body.local_decls[p.local].ty);
        for elem in p.projection.iter() {
            let s = match elem {
                ProjectionElem::Deref => "{\"deref\":true}".to_string(),
                ProjectionElem::Field(f, fty) => {
                    let name = self.field_name(cur_ty, f.as_usize());
                    format!(
                        "{{\"field\":{},\"name\":{},\"ty\":{}}}",
                        f.as_usize(),
                        opt_str(name),
                        esc(&self.ty(fty))
                    )
                }
                ProjectionElem::Index(l) => format!("{{\"index\":{}}}", l.as_usize()),
                ProjectionElem::ConstantIndex { offset, from_end, .. } => {
                    format!("{{\"const_index\":{},\"from_end\":{}}}", offset, from_end)
                }
                ProjectionElem::Subslice { from, to, from_end } => {
                    format!("{{\"subslice\":[{},{}],\"from_end\":{}}}", from, to, from_end)
                }
                ProjectionElem::Downcast(name, idx) => {
                    let n = match name {
                        Some(s) => s.to_string(),
                        None => self.variant_name(cur_ty.ty, idx.as_usize()).unwrap_or_default(),
                    };
                    format!("{{\"downcast\":{},\"idx\":{}}}", esc(&n), idx.as_usize())
                }
                ProjectionElem::OpaqueCast(_) => "{\"opaque_cast\":true}".to_string(),
                ProjectionElem::UnwrapUnsafeBinder(_) => "{\"unwrap_binder\":true}".to_string(),
            };
            proj.push(s);
            cur_ty = cur_ty.projection_ty(self.tcx, elem);
        }
        format!("{{\"local\":{},\"proj\":{}}}", p.local.as_usize(), join(proj))
    }

    fn variant_name(&self, ty: Ty<'tcx>, idx: usize) -> Option<String> {
        match ty.kind() {
            ty::Adt(adt, _) if adt.is_enum() => {
                Some(adt.variants()[rustc_abi::VariantIdx::from_usize(idx)].name.to_string())
            }
            _ => None,
        }
    }

    fn field_name(&self, pty: mir::PlaceTy<'tcx>, idx: usize) -> Option<String> {
        match pty.ty.kind() {
            ty::Adt(adt, _) => {
                let vidx = match pty.variant_index {
                    Some(v) => v,
                    None => {
                        if adt.is_enum() {
                            return None;
                        }
                        rustc_abi::VariantIdx::from_usize(0)
                    }
                };
                let v = &adt.variants()[vidx];
                v.fields.iter().nth(idx).map(|f| f.name.to_string())
            }
            _ => None,
        }
    }

    fn bytes_hex(b: &[u8]) -> String {
        let mut s = String::with_capacity(b.len() * 2);
        for x in b {
            let _ = write!(s, "{:02x}", x);
        }
        s
    }

    fn constant(&self, owner: DefId, c: &mir::ConstOperand<'tcx>) -> String {
        let tcx = self.tcx;
        let cty = c.const_.ty();
        let tys = self.ty(cty);
        // function items
        if let ty::FnDef(did, args) = cty.kind() {
            return format!(
                "{{\"const\":{{\"ty\":\"fn\",\"def\":{},\"generics\":{}}}}}",
                esc(&self.def(*did)),
                self.generic_args(args)
            );
        }
        if let ty::Closure(did, _) = cty.kind() {
            return format!(
                "{{\"const\":{{\"ty\":{},\"closure\":{}}}}}",
                esc(&tys),
                esc(&self.def(*did))
            );
        }
        let env = TypingEnv::post_analysis(tcx, owner);
        // named constant?
        let named = match c.const_ {
            MirConst::Unevaluated(u, _) => {
                if u.promoted.is_none() {
                    Some(self.def(u.def))
                } else {
                    None
                }
            }
            _ => None,
        };
        let named_s = match &named {
            Some(n) => format!(",\"named\":{}", esc(n)),
            None => String::new(),
        };
        let is_int_like = cty.is_integral() || cty.is_bool() || cty.is_char();
        if is_int_like {
            if let Some(si) = c.const_.try_eval_scalar_int(tcx, env) {
                let v: String = if cty.is_bool() {
                    format!("{}", if si.try_to_bool().unwrap_or(false) { 1 } else { 0 })
                } else if cty.is_signed() {
                    let size = si.size();
                    format!("{}", si.to_int(size))
                } else {
                    let size = si.size();
                    format!("{}", si.to_uint(size))
                };
                return format!("{{\"const\":{{\"ty\":{},\"int\":{}{}}}}}", esc(&tys), v, named_s);
            }
        }
        if cty.is_floating_point() {
            if let Some(si) = c.const_.try_eval_scalar_int(tcx, env) {
                let size = si.size();
                let bits = si.to_uint(size);
                let v: f64 = if size.bytes() == 4 {
                    f32::from_bits(bits as u32) as f64
                } else {
                    f64::from_bits(bits as u64)
                };
                return format!("{{\"const\":{{\"ty\":{},\"float\":{}{}}}}}", esc(&tys), esc(&format!("{}", v)), named_s);
            }
        }
        // strings and byte strings
        let inner = match cty.kind() {
            ty::Ref(_, inner, _) => Some(*inner),
            _ => None,
        };
        if let Some(inner) = inner {
            let is_str = inner.is_str();
            let is_bytes = match inner.kind() {
                ty::Slice(t) => *t == tcx.types.u8,
                ty::Array(t, _) => *t == tcx.types.u8,
                _ => false,
            };
            if is_str || is_bytes {
                if let Ok(val) = c.const_.eval(tcx, env, c.span) {
                    let bytes: Option<Vec<u8>> = match val {
                        ConstValue::Slice { .. } | ConstValue::Indirect { .. }
                            if matches!(inner.kind(), ty::Str | ty::Slice(_)) =>
                        {
                            val.try_get_slice_bytes_for_diagnostics(tcx).map(|b| b.to_vec())
                        }
                        ConstValue::Scalar(mir::interpret::Scalar::Ptr(ptr, _)) => {
                            let (prov, off) = ptr.prov_and_relative_offset();
                            match tcx.try_get_global_alloc(prov.alloc_id()) {
                                Some(mir::interpret::GlobalAlloc::Memory(a)) => {
                                    let a = a.inner();
                                    let lo = off.bytes() as usize;
                                    let hi = a.size().bytes() as usize;
                                    Some(
                                        a.inspect_with_uninit_and_ptr_outside_interpreter(lo..hi)
                                            .to_vec(),
                                    )
                                }
                                _ => None,
                            }
                        }
                        _ => None,
                    };
                    if let Some(b) = bytes {
                        if is_str {
                            return format!(
                                "{{\"const\":{{\"ty\":{},\"str\":{}{}}}}}",
                                esc(&tys),
                                esc(&String::from_utf8_lossy(&b)),
                                named_s
                            );
                        } else {
                            return format!(
                                "{{\"const\":{{\"ty\":{},\"bytes\":{}{}}}}}",
                                esc(&tys),
                                esc(&Self::bytes_hex(&b)),
                                named_s
                            );
                        }
                    }
                }
            }
        }
        // `&Enum` for a field-less enum (e.g. the promoted right-hand side of `label == Label::Keep`)
        if let Some(inner) = inner {
            if let ty::Adt(adt, _) = inner.kind() {
                if adt.is_enum() && adt.variants().iter().all(|v| v.fields.is_empty()) {
                    if let Ok(ConstValue::Scalar(mir::interpret::Scalar::Ptr(ptr, _))) =
                        c.const_.eval(tcx, env, c.span)
                    {
                        let (prov, off) = ptr.prov_and_relative_offset();
                        if let Some(mir::interpret::GlobalAlloc::Memory(a)) =
                            tcx.try_get_global_alloc(prov.alloc_id())
                        {
                            let a = a.inner();
                            let size = tcx
                                .layout_of(env.as_query_input(inner))
                                .map(|l| l.size.bytes_usize())
                                .unwrap_or(0);
                            let start = off.bytes_usize();
                            if size > 0 && size <= 8 && start + size <= a.len() {
                                let bytes = a
                                    .inspect_with_uninit_and_ptr_outside_interpreter(start..start + size);
                                let mut v: u128 = 0;
                                for (i, b) in bytes.iter().enumerate() {
                                    v |= (*b as u128) << (8 * i);
                                }
                                for (idx, d) in adt.discriminants(tcx) {
                                    if d.val == v {
                                        return format!(
                                            "{{\"const\":{{\"ty\":{},\"enum_ref\":{{\"adt\":{},\"variant\":{}}}{}}}}}",
                                            esc(&tys),
                                            esc(&self.def(adt.did())),
                                            esc(adt.variant(idx).name.as_str()),
                                            named_s
                                        );
                                    }
                                }
                            }
                        }
                    }
                }
            }
        }
        // `&&str` (e.g. a promoted reference to a named string constant, as format arguments use)
        if let Some(inner) = inner {
            if let ty::Ref(_, inner2, _) = inner.kind() {
                if inner2.is_str() {
                    if let Ok(ConstValue::Scalar(mir::interpret::Scalar::Ptr(ptr, _))) =
                        c.const_.eval(tcx, env, c.span)
                    {
                        let (prov, off) = ptr.prov_and_relative_offset();
                        let ind = ConstValue::Indirect { alloc_id: prov.alloc_id(), offset: off };
                        if let Some(b) = ind.try_get_slice_bytes_for_diagnostics(tcx) {
                            return format!(
                                "{{\"const\":{{\"ty\":{},\"str\":{}{}}}}}",
                                esc(&tys),
                                esc(&String::from_utf8_lossy(b)),
                                named_s
                            );
                        }
                    }
                }
            }
        }
        let promoted = match c.const_ {
            MirConst::Unevaluated(u, _) => u.promoted.map(|p| p.as_usize()),
            _ => None,
        };
        let prom_s = match promoted {
            Some(p) => format!(",\"promoted\":{}", p),
            None => String::new(),
        };
        format!("{{\"const\":{{\"ty\":{},\"opaque\":true{}{}}}}}", esc(&tys), named_s, prom_s)
    }

    fn operand(&self, owner: DefId, body: &mir::Body<'tcx>, o: &Operand<'tcx>) -> String {
        match o {
            Operand::Copy(p) => format!("{{\"copy\":{}}}", self.place(body, p)),
            Operand::Move(p) => format!("{{\"move\":{}}}", self.place(body, p)),
            Operand::Constant(c) => self.constant(owner, c),
            Operand::RuntimeChecks(_) => "{\"const\":{\"ty\":\"bool\",\"runtime_checks\":true}}".to_string(),
        }
    }

    fn rvalue(&self, owner: DefId, body: &mir::Body<'tcx>, rv: &Rvalue<'tcx>) -> String {
        let tcx = self.tcx;
        match rv {
            Rvalue::Use(op, _) => format!("{{\"r\":\"use\",\"op\":{}}}", self.operand(owner, body, op)),
            Rvalue::Repeat(op, _) => {
                format!("{{\"r\":\"repeat\",\"op\":{}}}", self.operand(owner, body, op))
            }
            Rvalue::Ref(_, bk, p) => {
                let m = matches!(bk, BorrowKind::Mut { .. });
                format!("{{\"r\":\"ref\",\"mut\":{},\"place\":{}}}", m, self.place(body, p))
            }
            Rvalue::RawPtr(k, p) => {
                format!(
                    "{{\"r\":\"rawptr\",\"mut\":{},\"place\":{}}}",
                    matches!(k, mir::RawPtrKind::Mut),
                    self.place(body, p)
                )
            }
            Rvalue::ThreadLocalRef(d) => format!("{{\"r\":\"tls\",\"def\":{}}}", esc(&self.def(*d))),
            Rvalue::Cast(kind, op, to) => {
                let from = op.ty(&body.local_decls, tcx);
                let k = format!("{:?}", kind);
                let k = k.split('(').next().unwrap_or("").to_string();
                format!(
                    "{{\"r\":\"cast\",\"kind\":{},\"kind_full\":{},\"v\":{},\"from\":{},\"to\":{}}}",
                    esc(&k),
                    esc(&format!("{:?}", kind)),
                    self.operand(owner, body, op),
                    esc(&self.ty(from)),
                    esc(&self.ty(*to))
                )
            }
            Rvalue::BinaryOp(op, b) => {
                let (l, r) = &**b;
                let lt = l.ty(&body.local_decls, tcx);
                format!(
                    "{{\"r\":\"binop\",\"op\":{},\"a\":{},\"b\":{},\"ty\":{}}}",
                    esc(&format!("{:?}", op)),
                    self.operand(owner, body, l),
                    self.operand(owner, body, r),
                    esc(&self.ty(lt))
                )
            }
            Rvalue::UnaryOp(op, v) => {
                let t = v.ty(&body.local_decls, tcx);
                format!(
                    "{{\"r\":\"unop\",\"op\":{},\"v\":{},\"ty\":{}}}",
                    esc(&format!("{:?}", op)),
                    self.operand(owner, body, v),
                    esc(&self.ty(t))
                )
            }
            Rvalue::Discriminant(p) => {
                let pty = p.ty(&body.local_decls, tcx).ty;
                format!(
                    "{{\"r\":\"discr\",\"place\":{},\"adt\":{}}}",
                    self.place(body, p),
                    opt_str(self.adt_path(pty))
                )
            }
            Rvalue::Aggregate(kind, fields) => {
                let fs: Vec<String> = fields.iter().map(|f| self.operand(owner, body, f)).collect();
                match &**kind {
                    AggregateKind::Adt(did, vidx, args, _, _) => {
                        let adt = tcx.adt_def(*did);
                        let v = &adt.variants()[*vidx];
                        let fnames: Vec<String> =
                            v.fields.iter().map(|f| esc(&f.name.to_string())).collect();
                        format!(
                            "{{\"r\":\"aggregate\",\"adt\":{},\"variant\":{},\"vidx\":{},\"generics\":{},\"field_names\":{},\"fields\":{}}}",
                            esc(&self.def(*did)),
                            esc(&v.name.to_string()),
                            vidx.as_usize(),
                            self.generic_args(args),
                            join(fnames),
                            join(fs)
                        )
                    }
                    AggregateKind::Tuple => format!("{{\"r\":\"tuple\",\"fields\":{}}}", join(fs)),
                    AggregateKind::Array(_) => format!("{{\"r\":\"array\",\"fields\":{}}}", join(fs)),
                    AggregateKind::Closure(did, _)
                    | AggregateKind::Coroutine(did, _)
                    | AggregateKind::CoroutineClosure(did, _) => {
                        format!(
                            "{{\"r\":\"closure\",\"def\":{},\"captures\":{}}}",
                            esc(&self.def(*did)),
                            join(fs)
                        )
                    }
                    AggregateKind::RawPtr(..) => format!("{{\"r\":\"rawptr_agg\",\"fields\":{}}}", join(fs)),
                }
            }
            Rvalue::CopyForDeref(p) => {
                format!("{{\"r\":\"use\",\"op\":{{\"copy\":{}}}}}", self.place(body, p))
            }
            Rvalue::WrapUnsafeBinder(op, _) => {
                format!("{{\"r\":\"use\",\"op\":{}}}", self.operand(owner, body, op))
            }
        }
    }

    fn callee(
        &self,
        owner: DefId,
        body: &mir::Body<'tcx>,
        func: &Operand<'tcx>,
    ) -> String {
        let tcx = self.tcx;
        let fty = func.ty(&body.local_decls, tcx);
        match fty.kind() {
            ty::FnDef(did, args) => {
                let did = *did;
                let mut trait_item = None;
                let mut trait_path = None;
                let mut self_ty = None;
                if let Some(tr) = tcx.trait_of_assoc(did) {
                    trait_path = Some(self.def(tr));
                    trait_item = Some(format!("{}::{}", tcx.item_name(tr), tcx.item_name(did)));
                    if let Some(t) = args.iter().next().and_then(|a| a.as_type()) {
                        self_ty = Some(self.ty(t));
                    }
                } else if let Some(imp) = tcx.impl_of_assoc(did) {
                    let t = tcx.type_of(imp).instantiate_identity().skip_norm_wip();
                    self_ty = Some(self.ty(t));
                }
                let env = TypingEnv::post_analysis(tcx, owner);
                let mut resolved = None;
                // Resolution may fail for still-generic receivers; that is fine.
                let can_try = !args.iter().any(|a| match a.as_type() {
                    Some(t) => t.has_escaping_bound_vars(),
                    None => false,
                });
                if can_try {
                    if let Ok(Some(inst)) = Instance::try_resolve(tcx, env, did, args) {
                        let rd = inst.def_id();
                        if rd != did {
                            resolved = Some(self.def(rd));
                        }
                    }
                }
                format!(
                    "{{\"def\":{},\"name\":{},\"trait\":{},\"trait_item\":{},\"resolved\":{},\"generics\":{},\"self_ty\":{},\"local\":{}}}",
                    esc(&self.def(did)),
                    esc(&tcx.item_name(did).to_string()),
                    opt_str(trait_path),
                    opt_str(trait_item),
                    opt_str(resolved),
                    self.generic_args(args),
                    opt_str(self_ty),
                    did.is_local()
                )
            }
            _ => format!(
                "{{\"def\":null,\"indirect\":{},\"ty\":{}}}",
                self.operand(owner, body, func),
                esc(&self.ty(fty))
            ),
        }
    }

    fn unwind(u: &UnwindAction) -> String {
        match u {
            UnwindAction::Cleanup(b) => format!("{}", b.as_usize()),
            _ => "null".to_string(),
        }
    }

    fn terminator(&self, owner: DefId, body: &mir::Body<'tcx>, t: &mir::Terminator<'tcx>) -> String {
        let bb = |b: &BasicBlock| b.as_usize();
        match &t.kind {
            TerminatorKind::Goto { target } => format!("{{\"t\":\"goto\",\"target\":{}}}", bb(target)),
            TerminatorKind::SwitchInt { discr, targets } => {
                let mut ts = Vec::new();
                for (v, b) in targets.iter() {
                    ts.push(format!("[{},{}]", v, bb(&b)));
                }
                let dty = discr.ty(&body.local_decls, self.tcx);
                format!(
                    "{{\"t\":\"switch\",\"discr\":{},\"ty\":{},\"targets\":{},\"otherwise\":{}}}",
                    self.operand(owner, body, discr),
                    esc(&self.ty(dty)),
                    join(ts),
                    bb(&targets.otherwise())
                )
            }
            TerminatorKind::UnwindResume => "{\"t\":\"resume\"}".to_string(),
            TerminatorKind::UnwindTerminate(_) => "{\"t\":\"terminate\"}".to_string(),
            TerminatorKind::Return => "{\"t\":\"return\"}".to_string(),
            TerminatorKind::Unreachable => "{\"t\":\"unreachable\"}".to_string(),
            TerminatorKind::Drop { place, target, unwind, .. } => format!(
                "{{\"t\":\"drop\",\"place\":{},\"target\":{},\"unwind\":{}}}",
                self.place(body, place),
                bb(target),
                Self::unwind(unwind)
            ),
            TerminatorKind::Call { func, args, destination, target, unwind, fn_span, .. } => {
                let a: Vec<String> =
                    args.iter().map(|x| self.operand(owner, body, &x.node)).collect();
                let aty: Vec<String> = args
                    .iter()
                    .map(|x| esc(&self.ty(x.node.ty(&body.local_decls, self.tcx))))
                    .collect();
                let macros: Vec<String> = if fn_span.from_expansion() {
                    fn_span
                        .macro_backtrace()
                        .map(|e| esc(&e.kind.descr().to_string()))
                        .collect()
                } else {
                    Vec::new()
                };
                format!(
                    "{{\"t\":\"call\",\"macros\":{},\"callee\":{},\"args\":{},\"arg_tys\":{},\"dst\":{},\"target\":{},\"unwind\":{},\"from_expansion\":{},\"span\":{}}}",
                    join(macros),
                    self.callee(owner, body, func),
                    join(a),
                    join(aty),
                    self.place(body, destination),
                    match target {
                        Some(b) => format!("{}", bb(b)),
                        None => "null".to_string(),
                    },
                    Self::unwind(unwind),
                    fn_span.from_expansion(),
                    esc(&self.span(*fn_span))
                )
            }
            TerminatorKind::TailCall { func, args, .. } => {
                let a: Vec<String> =
                    args.iter().map(|x| self.operand(owner, body, &x.node)).collect();
                format!(
                    "{{\"t\":\"tailcall\",\"callee\":{},\"args\":{}}}",
                    self.callee(owner, body, func),
                    join(a)
                )
            }
            TerminatorKind::Assert { cond, expected, msg, target, unwind } => {
                let m = format!("{:?}", msg);
                let m = m.split('(').next().unwrap_or("").to_string();
                let detail = match &**msg {
                    mir::AssertKind::Overflow(op, ..) => format!("{:?}", op),
                    _ => String::new(),
                };
                format!(
                    "{{\"t\":\"assert\",\"cond\":{},\"expected\":{},\"msg\":{},\"detail\":{},\"target\":{},\"unwind\":{},\"span\":{}}}",
                    self.operand(owner, body, cond),
                    expected,
                    esc(&m),
                    esc(&detail),
                    bb(target),
                    Self::unwind(unwind),
                    esc(&self.span(t.source_info.span))
                )
            }
            TerminatorKind::Yield { resume, .. } => {
                format!("{{\"t\":\"goto\",\"target\":{},\"yield\":true}}", bb(resume))
            }
            TerminatorKind::CoroutineDrop => "{\"t\":\"return\",\"coroutine_drop\":true}".to_string(),
            TerminatorKind::FalseEdge { real_target, .. } => {
                format!("{{\"t\":\"goto\",\"target\":{}}}", bb(real_target))
            }
            TerminatorKind::FalseUnwind { real_target, .. } => {
                format!("{{\"t\":\"goto\",\"target\":{}}}", bb(real_target))
            }
            TerminatorKind::InlineAsm { .. } => "{\"t\":\"unreachable\",\"asm\":true}".to_string(),
        }
    }

    fn function(&self, ldid: LocalDefId, out: &mut String) -> Option<(usize, usize)> {
        let tcx = self.tcx;
        let did = ldid.to_def_id();
        let kind = tcx.def_kind(did);
        if !tcx.is_mir_available(did) {
            return None;
        }
        let body: &mir::Body<'tcx> = tcx.optimized_mir(did);
        let mut ncalls = 0usize;

        let parent = match kind {
            DefKind::Closure => Some(self.def(tcx.typeck_root_def_id(did))),
            _ => None,
        };
        let direct_parent = match kind {
            DefKind::Closure => Some(self.def(tcx.parent(did))),
            _ => None,
        };
        let (impl_id, impl_trait, impl_self, trait_method) = match kind {
            DefKind::AssocFn => {
                if let Some(imp) = tcx.impl_of_assoc(did) {
                    let self_ty = tcx.type_of(imp).instantiate_identity().skip_norm_wip();
                    let tr = tcx.impl_opt_trait_ref(imp).map(|t| {
                        let t = t.instantiate_identity().skip_norm_wip();
                        self.def(t.def_id)
                    });
                    let tm = tcx.associated_item(did);
                    let tm = match tm.container {
                        ty::AssocContainer::TraitImpl(Ok(ti)) => Some(self.def(ti)),
                        _ => None,
                    };
                    (Some(self.def(imp)), tr, Some(self.ty(self_ty)), tm)
                } else if let Some(tr) = tcx.trait_of_assoc(did) {
                    (None, Some(self.def(tr)), None, Some(self.def(did)))
                } else {
                    (None, None, None, None)
                }
            }
            _ => (None, None, None, None),
        };
        let self_adt = match kind {
            DefKind::AssocFn => tcx.impl_of_assoc(did).and_then(|imp| {
                let self_ty = tcx.type_of(imp).instantiate_identity().skip_norm_wip();
                self.adt_path(self_ty)
            }),
            _ => None,
        };
        let vis = match kind {
            DefKind::Fn | DefKind::AssocFn => {
                let v = tcx.visibility(did);
                if v.is_public() {
                    "pub".to_string()
                } else {
                    match v {
                        ty::Visibility::Restricted(m) => {
                            if m == tcx.parent_module_from_def_id(ldid).to_def_id() {
                                "priv".to_string()
                            } else {
                                format!("pub(in {})", self.def(m))
                            }
                        }
                        _ => "pub".to_string(),
                    }
                }
            }
            _ => "priv".to_string(),
        };
        let name = match kind {
            DefKind::Closure => "{closure}".to_string(),
            _ => tcx.item_name(did).to_string(),
        };

        let mut args = Vec::new();
        for l in body.args_iter() {
            args.push(format!(
                "{{\"local\":{},\"ty\":{}}}",
                l.as_usize(),
                esc(&self.ty(body.local_decls[l].ty))
            ));
        }
        // user variable names
        let mut names: Vec<Option<String>> = vec![None; body.local_decls.len()];
        let mut upvars = Vec::new();
        for vdi in &body.var_debug_info {
            if let mir::VarDebugInfoContents::Place(p) = &vdi.value {
                if p.projection.is_empty() {
                    if names[p.local.as_usize()].is_none() {
                        names[p.local.as_usize()] = Some(vdi.name.to_string());
                    }
                } else if p.local.as_usize() == 1 && kind == DefKind::Closure {
                    // captured variable: _1.N or (*_1).N [deref]
                    for e in p.projection.iter() {
                        if let ProjectionElem::Field(f, fty) = e {
                            upvars.push(format!(
                                "{{\"idx\":{},\"name\":{},\"ty\":{}}}",
                                f.as_usize(),
                                esc(&vdi.name.to_string()),
                                esc(&self.ty(fty))
                            ));
                            break;
                        }
                    }
                }
            }
        }
        let mut locals = Vec::new();
        for (l, d) in body.local_decls.iter_enumerated() {
            locals.push(format!(
                "{{\"id\":{},\"ty\":{},\"name\":{},\"user\":{}}}",
                l.as_usize(),
                esc(&self.ty(d.ty)),
                opt_str(names[l.as_usize()].clone()),
                names[l.as_usize()].is_some()
            ));
        }

        let mut blocks = Vec::new();
        for (bbi, bbd) in body.basic_blocks.iter_enumerated() {
            let mut stmts = Vec::new();
            for st in &bbd.statements {
                match &st.kind {
                    StatementKind::Assign(b) => {
                        let (p, rv) = &**b;
                        stmts.push(format!(
                            "{{\"s\":\"assign\",\"dst\":{},\"rv\":{},\"line\":{},\"exp\":{}}}",
                            self.place(body, p),
                            self.rvalue(did, body, rv),
                            self.line(st.source_info.span),
                            st.source_info.span.from_expansion()
                        ));
                    }
                    StatementKind::SetDiscriminant { place, variant_index } => {
                        let pty = place.ty(&body.local_decls, tcx).ty;
                        stmts.push(format!(
                            "{{\"s\":\"setdiscr\",\"place\":{},\"variant\":{}}}",
                            self.place(body, place),
                            opt_str(self.variant_name(pty, variant_index.as_usize()))
                        ));
                    }
                    StatementKind::Intrinsic(i) => {
                        if let mir::NonDivergingIntrinsic::Assume(op) = &**i {
                            stmts.push(format!(
                                "{{\"s\":\"assume\",\"op\":{}}}",
                                self.operand(did, body, op)
                            ));
                        }
                    }
                    _ => {}
                }
            }
            let term = bbd.terminator();
            if matches!(term.kind, TerminatorKind::Call { .. }) {
                ncalls += 1;
            }
            blocks.push(format!(
                "{{\"id\":{},\"cleanup\":{},\"stmts\":{},\"term\":{},\"line\":{}}}",
                bbi.as_usize(),
                bbd.is_cleanup,
                join(stmts),
                self.terminator(did, body, term),
                self.line(term.source_info.span)
            ));
        }

        let sp = tcx.def_span(did);
        let _ = write!(
            out,
            "{{\"k\":\"fn\",\"def\":{},\"name\":{},\"kind\":{},\"parent\":{},\"direct_parent\":{},\"impl_id\":{},\"impl_trait\":{},\"self_ty\":{},\"self_adt\":{},\"trait_method\":{},\"vis\":{},\"span\":{},\"from_expansion\":{},\"args\":{},\"ret\":{},\"locals\":{},\"upvars\":{},\"blocks\":{}}}\n",
            esc(&self.def(did)),
            esc(&name),
            esc(&format!("{:?}", kind)),
            opt_str(parent),
            opt_str(direct_parent),
            opt_str(impl_id),
            opt_str(impl_trait),
            opt_str(impl_self),
            opt_str(self_adt),
            opt_str(trait_method),
            esc(&vis),
            esc(&self.span(sp)),
            sp.from_expansion(),
            join(args),
            esc(&self.ty(body.return_ty())),
            join(locals),
            join(upvars),
            join(blocks)
        );
        Some((1, ncalls))
    }

    fn line(&self, sp: Span) -> usize {
        let sm = self.tcx.sess.source_map();
        let sp = sp.source_callsite();
        if sp.is_dummy() {
            return 0;
        }
        sm.lookup_char_pos(sp.lo()).line
    }

    fn adt(&self, did: DefId, out: &mut String) {
        let tcx = self.tcx;
        let adt = tcx.adt_def(did);
        let kind = if adt.is_enum() {
            "enum"
        } else if adt.is_union() {
            "union"
        } else {
            "struct"
        };
        let mut vs = Vec::new();
        for (vi, v) in adt.variants().iter_enumerated() {
            let mut fs = Vec::new();
            for (fi, f) in v.fields.iter().enumerate() {
                let fty = tcx.type_of(f.did).instantiate_identity().skip_norm_wip();
                fs.push(format!(
                    "{{\"idx\":{},\"name\":{},\"ty\":{}}}",
                    fi,
                    esc(&f.name.to_string()),
                    esc(&self.ty(fty))
                ));
            }
            let discr = if adt.is_enum() {
                format!("{}", adt.discriminant_for_variant(tcx, vi).val)
            } else {
                "0".to_string()
            };
            vs.push(format!(
                "{{\"name\":{},\"idx\":{},\"discr\":{},\"fields\":{}}}",
                esc(&v.name.to_string()),
                vi.as_usize(),
                discr,
                join(fs)
            ));
        }
        let _ = write!(
            out,
            "{{\"k\":\"adt\",\"path\":{},\"kind\":\"{}\",\"variants\":{},\"span\":{}}}\n",
            esc(&self.def(did)),
            kind,
            join(vs),
            esc(&self.span(tcx.def_span(did)))
        );
    }

    fn trait_(&self, did: DefId, out: &mut String) {
        let tcx = self.tcx;
        let mut ms = Vec::new();
        for it in tcx.associated_items(did).in_definition_order() {
            let (k, name) = match it.kind {
                ty::AssocKind::Fn { name, .. } => ("fn", name.to_string()),
                ty::AssocKind::Const { name, .. } => ("const", name.to_string()),
                ty::AssocKind::Type { .. } => match it.opt_name() {
                    Some(n) => ("type", n.to_string()),
                    None => continue,
                },
            };
            ms.push(format!(
                "{{\"name\":{},\"kind\":\"{}\",\"has_default\":{},\"def\":{}}}",
                esc(&name),
                k,
                it.defaultness(tcx).has_value(),
                esc(&self.def(it.def_id))
            ));
        }
        let _ = write!(
            out,
            "{{\"k\":\"trait\",\"path\":{},\"items\":{}}}\n",
            esc(&self.def(did)),
            join(ms)
        );
    }

    fn impl_(&self, did: DefId, out: &mut String) {
        let tcx = self.tcx;
        let self_ty = tcx.type_of(did).instantiate_identity().skip_norm_wip();
        let tr = tcx.impl_opt_trait_ref(did).map(|t| t.instantiate_identity().skip_norm_wip());
        let mut items = Vec::new();
        let mut assoc_types = Vec::new();
        let mut present: Vec<DefId> = Vec::new();
        for it in tcx.associated_items(did).in_definition_order() {
            let name = match it.opt_name() {
                Some(n) => n.to_string(),
                None => continue,
            };
            if let ty::AssocContainer::TraitImpl(Ok(ti)) = it.container {
                present.push(ti);
            }
            match it.kind {
                ty::AssocKind::Fn { .. } => items.push(format!(
                    "{{\"name\":{},\"def\":{},\"kind\":\"fn\"}}",
                    esc(&name),
                    esc(&self.def(it.def_id))
                )),
                ty::AssocKind::Type { .. } => {
                    let t = tcx.type_of(it.def_id).instantiate_identity().skip_norm_wip();
                    assoc_types.push(format!("{}:{}", esc(&name), esc(&self.ty(t))));
                }
                ty::AssocKind::Const { .. } => items.push(format!(
                    "{{\"name\":{},\"def\":{},\"kind\":\"const\"}}",
                    esc(&name),
                    esc(&self.def(it.def_id))
                )),
            }
        }
        let mut defaulted = Vec::new();
        if let Some(tr) = tr {
            for it in tcx.associated_items(tr.def_id).in_definition_order() {
                if let ty::AssocKind::Fn { name, .. } = it.kind {
                    if !present.contains(&it.def_id) {
                        defaulted.push(esc(&name.to_string()));
                    }
                }
            }
        }
        let _ = write!(
            out,
            "{{\"k\":\"impl\",\"impl_id\":{},\"trait\":{},\"trait_ref\":{},\"self_ty\":{},\"self_adt\":{},\"items\":{},\"defaulted\":{},\"assoc_types\":{{{}}},\"span\":{}}}\n",
            esc(&self.def(did)),
            opt_str(tr.map(|t| self.def(t.def_id))),
            opt_str(tr.map(|t| with_no_trimmed_paths!(format!("{}", t.print_only_trait_path())))),
            esc(&self.ty(self_ty)),
            opt_str(self.adt_path(self_ty)),
            join(items),
            join(defaulted),
            assoc_types.join(","),
            esc(&self.span(tcx.def_span(did)))
        );
    }

    fn const_(&self, did: DefId, out: &mut String) {
        let tcx = self.tcx;
        if tcx.generics_of(did).requires_monomorphization(tcx) {
            return;
        }
        let ty = tcx.type_of(did).instantiate_identity().skip_norm_wip();
        if !(ty.is_integral() || ty.is_bool()) {
            return;
        }
        if let Ok(val) = tcx.const_eval_poly(did) {
            if let Some(si) = val.try_to_scalar_int() {
                let v = if ty.is_bool() {
                    format!("{}", if si.try_to_bool().unwrap_or(false) { 1 } else { 0 })
                } else if ty.is_signed() {
                    format!("{}", si.to_int(si.size()))
                } else {
                    format!("{}", si.to_uint(si.size()))
                };
                let _ = write!(
                    out,
                    "{{\"k\":\"const\",\"path\":{},\"ty\":{},\"value\":{}}}\n",
                    esc(&self.def(did)),
                    esc(&self.ty(ty)),
                    v
                );
            }
        }
    }
}

fn emit<'tcx>(tcx: TyCtxt<'tcx>, dir: &str) {
    let cx = Cx { tcx };
    let crate_name = tcx.crate_name(rustc_hir::def_id::LOCAL_CRATE).to_string();
    let ctypes: Vec<String> = tcx.crate_types().iter().map(|c| format!("{:?}", c).to_lowercase()).collect();
    let ctype = ctypes.first().cloned().unwrap_or_else(|| "unknown".to_string());
    let is_test = tcx.sess.opts.test;
    let nonce = std::env::var("MIRFACTS_NONCE").unwrap_or_default();

    let mut body = String::new();
    let mut nfn = 0usize;
    let mut ncalls = 0usize;
    let items = tcx.hir_crate_items(());
    for ldid in items.definitions() {
        let did = ldid.to_def_id();
        match tcx.def_kind(did) {
            DefKind::Struct | DefKind::Enum | DefKind::Union => cx.adt(did, &mut body),
            DefKind::Trait => cx.trait_(did, &mut body),
            DefKind::Impl { .. } => cx.impl_(did, &mut body),
            DefKind::Const { .. } | DefKind::AssocConst { .. } => {
                // only consts with a body (trait consts without default have none)
                if tcx.hir_maybe_body_owned_by(ldid).is_some() {
                    cx.const_(did, &mut body)
                }
            }
            _ => {}
        }
    }
    // functions, methods and closures: every body owner (closures are not crate items)
    for ldid in tcx.hir_body_owners() {
        let did = ldid.to_def_id();
        match tcx.def_kind(did) {
            DefKind::Fn | DefKind::AssocFn | DefKind::Closure => {
                if let Some((f, c)) = cx.function(ldid, &mut body) {
                    nfn += f;
                    ncalls += c;
                }
            }
            _ => {}
        }
    }
    let mut feats: Vec<String> = Vec::new();
    for (name, val) in tcx.sess.config.iter() {
        if name.as_str() == "feature" {
            if let Some(v) = val {
                feats.push(esc(&v.to_string()));
            }
        }
    }
    feats.sort();
    let header = format!(
        "{{\"k\":\"header\",\"crate\":{},\"target\":{},\"test\":{},\"nonce\":{},\"cfg_features\":{},\"n_fn\":{},\"n_calls\":{}}}\n",
        esc(&crate_name),
        esc(&ctype),
        is_test,
        esc(&nonce),
        join(feats),
        nfn,
        ncalls
    );
    let mut all = header;
    all.push_str(&body);
    let fname = format!(
        "{}/{}-{}{}.jsonl",
        dir,
        crate_name,
        ctype,
        if is_test { "-test" } else { "" }
    );
    let tmp = format!("{}.tmp{}", fname, std::process::id());
    if std::fs::write(&tmp, all.as_bytes()).is_ok() {
        let _ = std::fs::rename(&tmp, &fname);
    }
}

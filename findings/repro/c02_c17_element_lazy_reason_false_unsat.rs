use pumpkin_solver::constraints;
use pumpkin_solver::results::ProblemSolution;
use pumpkin_solver::results::SatisfactionResult;
use pumpkin_solver::termination::Indefinite;
use pumpkin_solver::variables::TransformableVariable;
use pumpkin_solver::Solver;

#[test]
fn element_second_solve_unsat() {
    let mut solver = Solver::default();
    let x0 = solver.new_bounded_integer(0, 4);
    let x1 = solver.new_bounded_integer(0, 4);
    let _b = solver.new_literal();
    // x0 = [3*x0 + 1, x1][x0]   -- only x0 = 1, x1 = 1
    solver
        .add_constraint(constraints::element(
            x0.scaled(1),
            [x0.scaled(3).offset(1), x1.scaled(1)],
            x0.scaled(1),
        ))
        .post()
        .unwrap();
    let mut brancher = solver.default_brancher();
    for round in 0..2 {
        match solver.satisfy(&mut brancher, &mut Indefinite) {
            SatisfactionResult::Satisfiable(s) => {
                println!("round {round}: x0={} x1={}", s.get_integer_value(x0), s.get_integer_value(x1))
            }
            SatisfactionResult::Unsatisfiable => panic!("round {round}: Unsatisfiable"),
            SatisfactionResult::Unknown => panic!(),
        }
    }
}

#![cfg(test)]
//! C08 / D21: a task of duration 0 occupies no time point, so it constrains nothing.  The set of
//! solutions of a cumulative with such a task must be the brute-force set, under every method.
use std::collections::BTreeSet;

use pumpkin_solver::constraints;
use pumpkin_solver::constraints::Constraint;
use pumpkin_solver::options::CumulativeExplanationType;
use pumpkin_solver::options::CumulativeOptions;
use pumpkin_solver::options::CumulativePropagationMethod;
use pumpkin_solver::results::solution_iterator::IteratedSolution;
use pumpkin_solver::results::ProblemSolution;
use pumpkin_solver::termination::Indefinite;
use pumpkin_solver::Solver;

const CAPACITY: i32 = 2;
const DURATIONS: [i32; 3] = [0, 2, 2];
const USAGES: [i32; 3] = [2, 1, 2];
const DOMAIN: (i32, i32) = (0, 3);

fn ok(s: [i32; 3]) -> bool {
    (-5..=20).all(|t| {
        (0..3).filter(|&i| s[i] <= t && t < s[i] + DURATIONS[i]).map(|i| USAGES[i]).sum::<i32>() <= CAPACITY
    })
}

fn expected() -> BTreeSet<(i32, i32, i32)> {
    let mut r = BTreeSet::new();
    for a in DOMAIN.0..=DOMAIN.1 {
        for b in DOMAIN.0..=DOMAIN.1 {
            for c in DOMAIN.0..=DOMAIN.1 {
                if ok([a, b, c]) {
                    let _ = r.insert((a, b, c));
                }
            }
        }
    }
    r
}

fn solve(options: CumulativeOptions) -> BTreeSet<(i32, i32, i32)> {
    let mut solver = Solver::default();
    let v: Vec<_> = (0..3).map(|_| solver.new_bounded_integer(DOMAIN.0, DOMAIN.1)).collect();
    let mut result = BTreeSet::new();
    if solver
        .add_constraint(constraints::cumulative_with_options(v.clone(), DURATIONS, USAGES, CAPACITY, options))
        .post()
        .is_err()
    {
        return result;
    }
    let mut termination = Indefinite;
    let mut brancher = solver.default_brancher();
    let mut iterator = solver.get_solution_iterator(&mut brancher, &mut termination);
    loop {
        match iterator.next_solution() {
            IteratedSolution::Solution(s, _, _) => {
                let _ = result.insert((s.get_integer_value(v[0]), s.get_integer_value(v[1]), s.get_integer_value(v[2])));
            }
            IteratedSolution::Finished | IteratedSolution::Unsatisfiable => break,
            IteratedSolution::Unknown => panic!("early termination"),
        }
    }
    result
}

#[test]
fn zero_duration_task_constrains_nothing() {
    let expected = expected();
    let methods = [
        CumulativePropagationMethod::TimeTablePerPoint,
        CumulativePropagationMethod::TimeTablePerPointIncremental,
        CumulativePropagationMethod::TimeTablePerPointIncrementalSynchronised,
        CumulativePropagationMethod::TimeTableOverInterval,
        CumulativePropagationMethod::TimeTableOverIntervalIncremental,
        CumulativePropagationMethod::TimeTableOverIntervalIncrementalSynchronised,
    ];
    let mut failures = vec![];
    for method in methods {
        for holes in [false, true] {
            let options = CumulativeOptions::new(holes, CumulativeExplanationType::default(), false, method, false);
            let actual = solve(options);
            if actual != expected {
                failures.push(format!(
                    "{method} holes={holes}: {} solutions instead of {}; wrongly rejected: {:?}; wrongly accepted: {:?}",
                    actual.len(), expected.len(),
                    expected.difference(&actual).take(4).collect::<Vec<_>>(),
                    actual.difference(&expected).take(4).collect::<Vec<_>>()));
            }
        }
    }
    assert!(failures.is_empty(), "\n{}", failures.join("\n"));
}

// On 53e83295: nolearning_core_empty_store panics at reason.rs:79 (Option::unwrap on None);
// nolearning_core_with_root_reason returns the core [s2 >= 1] although {s2} alone is consistent with the model.
// Cause: NoLearningResolver posts the flipped decision with the fabricated reference ReasonRef(0)
// (ConflictAnalysisContext::enqueue_propagated_predicate), which core extraction later dereferences.
use pumpkin_solver::branching::branchers::independent_variable_value_brancher::IndependentVariableValueBrancher;
use pumpkin_solver::branching::value_selection::InDomainMax;
use pumpkin_solver::branching::variable_selection::InputOrder;
use pumpkin_solver::options::ConflictResolver;
use pumpkin_solver::options::SolverOptions;
use pumpkin_solver::predicate;
use pumpkin_solver::results::SatisfactionResultUnderAssumptions;
use pumpkin_solver::termination::Indefinite;
use pumpkin_solver::Solver;

fn run(with_root_reason: bool) {
    let mut solver = Solver::with_options(SolverOptions {
        conflict_resolver: ConflictResolver::NoLearning,
        ..Default::default()
    });
    let s1 = solver.new_bounded_integer(0, 1);
    let s2 = solver.new_bounded_integer(0, 1);
    let p = solver.new_bounded_integer(0, 1);
    let q = solver.new_bounded_integer(0, 1);
    if with_root_reason {
        // something that makes a root propagation with a stored reason
        let a = solver.new_bounded_integer(0, 5);
        let b = solver.new_bounded_integer(3, 5);
        let _ = solver.add_clause([predicate!(b <= 2), predicate!(a >= 4)]);
    }
    // s1 & s2 -> false, needing both assumptions
    let ns1 = predicate!(s1 <= 0);
    let ns2 = predicate!(s2 <= 0);
    let _ = solver.add_clause([ns1, ns2, predicate!(p <= 0), predicate!(q >= 1)]);
    let _ = solver.add_clause([ns1, ns2, predicate!(p <= 0), predicate!(q <= 0)]);
    let _ = solver.add_clause([ns1, ns2, predicate!(p >= 1), predicate!(q >= 1)]);
    let _ = solver.add_clause([ns1, ns2, predicate!(p >= 1), predicate!(q <= 0)]);
    let mut brancher =
        IndependentVariableValueBrancher::new(InputOrder::new(&[s1, s2, p, q]), InDomainMax);
    let assumptions = [predicate!(s1 >= 1), predicate!(s2 >= 1)];
    let res = solver.satisfy_under_assumptions(&mut brancher, &mut Indefinite, &assumptions);
    match res {
        SatisfactionResultUnderAssumptions::UnsatisfiableUnderAssumptions(mut u) => {
            let core = u.extract_core();
            println!("CORE = {:?}", core);
            assert_eq!(core.len(), 2, "both assumptions are needed");
        }
        SatisfactionResultUnderAssumptions::Satisfiable(_) => panic!("sat?"),
        SatisfactionResultUnderAssumptions::Unsatisfiable => panic!("unsat?"),
        SatisfactionResultUnderAssumptions::Unknown => panic!("unknown?"),
    }
}

#[test]
fn nolearning_core_empty_store() { run(false) }
#[test]
fn nolearning_core_with_root_reason() { run(true) }

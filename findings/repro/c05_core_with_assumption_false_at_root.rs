use pumpkin_solver::constraints;
use pumpkin_solver::predicate;
use pumpkin_solver::results::SatisfactionResultUnderAssumptions;
use pumpkin_solver::termination::Indefinite;
use pumpkin_solver::variables::TransformableVariable;
use pumpkin_solver::Solver;

#[test]
fn assumption_already_true_at_root() {
    let mut solver = Solver::default();
    let x0 = solver.new_bounded_integer(-1, 2);
    let x1 = solver.new_bounded_integer(2, 2);
    // x0 - 2*x1 != -4   i.e. x0 != 0
    solver
        .add_constraint(constraints::not_equals(
            vec![x1.scaled(-2), x0.scaled(1)],
            -4,
        ))
        .post()
        .unwrap();
    let mut brancher = solver.default_brancher();
    let assumptions = [predicate!(x1 == 2), predicate!(x0 == 0)];
    match solver.satisfy_under_assumptions(&mut brancher, &mut Indefinite, &assumptions) {
        SatisfactionResultUnderAssumptions::UnsatisfiableUnderAssumptions(mut u) => {
            let core = u.extract_core();
            println!("core = {core:?}");
        }
        SatisfactionResultUnderAssumptions::Satisfiable(_) => panic!("sat"),
        SatisfactionResultUnderAssumptions::Unsatisfiable => println!("unsat"),
        SatisfactionResultUnderAssumptions::Unknown => panic!(),
    };
}

// On 53e83295 this fails: for 24 of the 39 model sizes `satisfy` returns Satisfiable with unassigned variables
// (DynamicVariableSelector does not forward on_backtrack, so ProportionalDomainSize never re-adds variables unfixed by a backjump).
use pumpkin_solver::branching::branchers::independent_variable_value_brancher::IndependentVariableValueBrancher;
use pumpkin_solver::branching::value_selection::InDomainMin;
use pumpkin_solver::branching::variable_selection::DynamicVariableSelector;
use pumpkin_solver::branching::variable_selection::ProportionalDomainSize;
use pumpkin_solver::constraints;
use pumpkin_solver::results::ProblemSolution;
use pumpkin_solver::results::SatisfactionResult;
use pumpkin_solver::termination::Indefinite;
use pumpkin_solver::variables::TransformableVariable;
use pumpkin_solver::Solver;

fn run(n: usize) {
    let mut solver = Solver::default();
    let free: Vec<_> = (0..n).map(|_| solver.new_bounded_integer(0, 1)).collect();
    let r = solver.new_bounded_integer(0, 1);
    let s = solver.new_bounded_integer(0, 1);
    // r + s >= 1  and  r >= s : r = 0 is refuted by propagation alone -> unit nogood, backjump to the root
    let _ = solver
        .add_constraint(constraints::less_than_or_equals(vec![r.scaled(-1), s.scaled(-1)], -1))
        .post();
    let _ = solver
        .add_constraint(constraints::less_than_or_equals(vec![s.scaled(1), r.scaled(-1)], 0))
        .post();
    let mut vars = free.clone();
    vars.push(r);
    vars.push(s);
    let mut brancher = IndependentVariableValueBrancher::new(
        DynamicVariableSelector::new(Box::new(ProportionalDomainSize::new(&vars))),
        InDomainMin,
    );
    match solver.satisfy(&mut brancher, &mut Indefinite) {
        SatisfactionResult::Satisfiable(solution) => {
            let values: Vec<i32> = vars.iter().map(|v| solution.get_integer_value(*v)).collect();
            println!("{values:?}");
        }
        other => panic!("unexpected {other:?}"),
    }
}

#[test]
fn dynamic_selector_over_proportional_domain_size() {
    let mut failures = vec![];
    for n in 1..40 {
        if std::panic::catch_unwind(|| run(n)).is_err() {
            failures.push(n);
        }
    }
    assert!(failures.is_empty(), "partial solutions returned for n = {failures:?}");
}

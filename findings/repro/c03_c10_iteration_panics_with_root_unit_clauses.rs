// On 53e83295 this panics: conflict_analysis_context.rs "Expected to be able to retrieve step id for unit nogood".
// The semantic minimiser splits [x3 == 1] into [x3 >= 1] and [x3 <= 1]; the latter is a root fact (unit clause) it does not know about;
// the recursive minimiser asks for its reason and get_propagation_reason expects a proof step id that is only recorded when inferences are logged.
use pumpkin_solver::predicate;
use pumpkin_solver::results::solution_iterator::IteratedSolution;
use pumpkin_solver::termination::Indefinite;
use pumpkin_solver::Solver;

#[test]
fn iterate_with_root_unit_clauses() {
    let mut solver = Solver::default();
    let _x0 = solver.new_bounded_integer(1, 4);
    let x1 = solver.new_bounded_integer(2, 5);
    let _x2 = solver.new_bounded_integer(2, 3);
    let x3 = solver.new_bounded_integer(0, 2);
    solver.add_clause([predicate!(x3 <= 1)]).unwrap();
    solver.add_clause([predicate!(x1 <= 3)]).unwrap();
    let mut brancher = solver.default_brancher();
    let mut termination = Indefinite;
    let mut iterator = solver.get_solution_iterator(&mut brancher, &mut termination);
    let mut count = 0;
    loop {
        match iterator.next_solution() {
            IteratedSolution::Solution(..) => count += 1,
            IteratedSolution::Finished => break,
            other => panic!("{other:?}"),
        }
    }
    assert_eq!(count, 4 * 2 * 2 * 2);
}

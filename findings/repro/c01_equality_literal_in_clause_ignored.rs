// On 53e83295 this prints e.g. "variant 1: [1, -1, 2, 0, 1, -1, 2, 0]": for x in -1..2 with the single clause (x == 0 \/ x == 1)
// Solver::satisfy returns x = -1 and x = 2. The nogood propagator posts [x == 1] when [x != 0] holds; PropagationContextMut::post_predicate
// silently returns Ok(()) for an Equal predicate whose value is not in the domain instead of reporting the empty domain.
use pumpkin_solver::predicate;
use pumpkin_solver::results::ProblemSolution;
use pumpkin_solver::results::SatisfactionResult;
use pumpkin_solver::termination::Indefinite;
use pumpkin_solver::Solver;

fn run(variant: u32) -> Vec<i32> {
    let mut solver = Solver::default();
    let x = solver.new_bounded_integer(-1, 2);
    match variant {
        0 => solver.add_clause([predicate!(x == 0), predicate!(x >= 3), predicate!(x == 1)]).unwrap(),
        1 => solver.add_clause([predicate!(x == 0), predicate!(x == 1)]).unwrap(),
        2 => solver.add_clause([predicate!(x >= 3), predicate!(x == 0), predicate!(x == 1)]).unwrap(),
        _ => solver.add_clause([predicate!(x == 0), predicate!(x == 1), predicate!(x >= 3)]).unwrap(),
    }
    println!("variant {variant}: root bounds [{}, {}]", solver.lower_bound(&x), solver.upper_bound(&x));
    let mut brancher = solver.default_brancher();
    let mut out = vec![];
    for _ in 0..8 {
        match solver.satisfy(&mut brancher, &mut Indefinite) {
            SatisfactionResult::Satisfiable(s) => out.push(s.get_integer_value(x)),
            other => panic!("{other:?}"),
        }
    }
    out
}

#[test]
fn wrong_solution() {
    for v in 0..4 {
        println!("variant {v}: {:?}", run(v));
    }
}

use pumpkin_solver::constraints;
use pumpkin_solver::options::*;
use pumpkin_solver::results::ProblemSolution;
use pumpkin_solver::results::SatisfactionResult;
use pumpkin_solver::termination::Indefinite;
use pumpkin_solver::variables::TransformableVariable;
use pumpkin_solver::Solver;

#[test]
fn half_reified_cumulative() {
    let mut solver = Solver::default();
    let x0 = solver.new_sparse_integer(vec![2, 4]);
    let x1 = solver.new_bounded_integer(2, 5);
    let _x2 = solver.new_bounded_integer(-3, -3);
    let b0 = solver.new_literal();
    let b1 = solver.new_literal();
    // a single task that needs 3 of capacity 1: b0 must be false
    solver
        .add_constraint(constraints::cumulative_with_options(
            [x1.offset(1)],
            [1],
            [3],
            1,
            CumulativeOptions::new(true, CumulativeExplanationType::Pointwise, false, CumulativePropagationMethod::TimeTablePerPointIncrementalSynchronised, false),
        ))
        .implied_by(b0)
        .unwrap();
    solver
        .add_constraint(constraints::cumulative_with_options(
            [x1.scaled(2).offset(1), x0.scaled(1), x1.scaled(1)],
            [2, 2, 2],
            [3, 1, 1],
            3,
            CumulativeOptions::new(false, CumulativeExplanationType::Naive, false, CumulativePropagationMethod::TimeTablePerPointIncremental, false),
        ))
        .implied_by(b1)
        .unwrap();
    let mut brancher = solver.default_brancher();
    match solver.satisfy(&mut brancher, &mut Indefinite) {
        SatisfactionResult::Satisfiable(s) => {
            let (a, b) = (s.get_integer_value(x0), s.get_integer_value(x1));
            println!("x0={a} x1={b} b0={} b1={}", s.get_literal_value(b0), s.get_literal_value(b1));
            let st = [2 * b + 1, a, b];
            let us = [3, 1, 1];
            let ok = (0..20).all(|t| (0..3).filter(|&i| st[i] <= t && t < st[i] + 2).map(|i| us[i]).sum::<i32>() <= 3);
            assert!(!s.get_literal_value(b1) || ok, "b1 is true but the second cumulative is violated");
        }
        _ => panic!(),
    }
}

use pumpkin_solver::predicate;
use pumpkin_solver::Solver;

#[test]
fn new_variable_after_infeasible_post() {
    let mut solver = Solver::default();
    let x = solver.new_bounded_integer(0, 1);
    assert!(solver.add_clause([predicate!(x >= 1)]).is_ok());
    assert!(solver.add_clause([predicate!(x <= 0)]).is_err());
    // sparse sibling does not assert:
    let _z = solver.new_sparse_integer(vec![1, 3]);
    let _y = solver.new_bounded_integer(0, 1); // panics: "Variables cannot be created in an inconsistent state"
}

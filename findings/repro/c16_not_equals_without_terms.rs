use pumpkin_solver::constraints;
use pumpkin_solver::variables::DomainId;
use pumpkin_solver::Solver;

#[test]
fn not_equals_without_terms() {
    let mut solver = Solver::default();
    let _x = solver.new_bounded_integer(0, 2);
    // 0 != 1 holds trivially
    let r = solver.add_constraint(constraints::not_equals(Vec::<DomainId>::new(), 1)).post();
    assert!(r.is_ok());
}

// cargo test -p pumpkin-solver --test c10_c11_state_not_reset_at_root   (scratch copy)
// Both tests panic on 53e83295 at CSPSolverState::declare_solving
//   "assertion failed: (self.is_ready() || self.is_conflicting()) && !self.is_infeasible()"
use pumpkin_solver::results::SatisfactionResult;
use pumpkin_solver::termination::Indefinite;
use pumpkin_solver::termination::TerminationCondition;
use pumpkin_solver::Solver;

struct StopNow;
impl TerminationCondition for StopNow {
    fn should_stop(&mut self) -> bool { true }
}

#[test]
fn solve_twice_root_solution() {           // C10: solve finishing at decision level 0
    let mut solver = Solver::default();
    let _x = solver.new_bounded_integer(3, 3);
    let mut brancher = solver.default_brancher();
    assert!(matches!(solver.satisfy(&mut brancher, &mut Indefinite), SatisfactionResult::Satisfiable(_)));
    assert!(matches!(solver.satisfy(&mut brancher, &mut Indefinite), SatisfactionResult::Satisfiable(_)));
}

#[test]
fn solve_after_timeout_at_root() {         // C11: poll index k = 0
    let mut solver = Solver::default();
    let _x = solver.new_bounded_integer(0, 3);
    let mut brancher = solver.default_brancher();
    assert!(matches!(solver.satisfy(&mut brancher, &mut StopNow), SatisfactionResult::Unknown));
    assert!(matches!(solver.satisfy(&mut brancher, &mut Indefinite), SatisfactionResult::Satisfiable(_)));
}

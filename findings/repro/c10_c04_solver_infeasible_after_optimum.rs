use pumpkin_solver::constraints;
use pumpkin_solver::optimisation::linear_sat_unsat::LinearSatUnsat;
use pumpkin_solver::optimisation::linear_unsat_sat::LinearUnsatSat;
use pumpkin_solver::optimisation::OptimisationDirection;
use pumpkin_solver::results::OptimisationResult;
use pumpkin_solver::results::ProblemSolution;
use pumpkin_solver::results::SatisfactionResult;
use pumpkin_solver::results::SolutionReference;
use pumpkin_solver::termination::Indefinite;
use pumpkin_solver::DefaultBrancher;
use pumpkin_solver::Solver;

fn run(lsu: bool) {
    let mut solver = Solver::default();
    let x = solver.new_bounded_integer(0, 5);
    let y = solver.new_bounded_integer(0, 5);
    solver.add_constraint(constraints::equals(vec![x, y], 6)).post().unwrap();
    let mut brancher = solver.default_brancher();
    let callback: fn(&Solver, SolutionReference, &DefaultBrancher) = |_, _, _| {};
    let r = if lsu {
        solver.optimise(&mut brancher, &mut Indefinite, LinearSatUnsat::new(OptimisationDirection::Minimise, x, callback))
    } else {
        solver.optimise(&mut brancher, &mut Indefinite, LinearUnsatSat::new(OptimisationDirection::Minimise, x, callback))
    };
    match r {
        OptimisationResult::Optimal(s) => println!("lsu={lsu} optimal x = {}", s.get_integer_value(x)),
        _ => panic!("expected an optimum"),
    }
    // the model x + y = 6 still has solutions
    match solver.satisfy(&mut brancher, &mut Indefinite) {
        SatisfactionResult::Satisfiable(s) => println!("lsu={lsu} later satisfy: x = {}", s.get_integer_value(x)),
        SatisfactionResult::Unsatisfiable => println!("lsu={lsu} later satisfy: UNSATISFIABLE"),
        SatisfactionResult::Unknown => panic!(),
    }
    let z = solver.new_bounded_integer(0, 1);
    println!("lsu={lsu} posting another constraint: {:?}", solver.add_constraint(constraints::equals(vec![z], 1)).post().is_ok());
}

#[test]
fn solver_after_optimum() {
    run(false);
    run(true);
}

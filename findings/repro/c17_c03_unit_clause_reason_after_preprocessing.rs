use pumpkin_solver::predicate;
use pumpkin_solver::results::SatisfactionResult;
use pumpkin_solver::results::SatisfactionResultUnderAssumptions;
use pumpkin_solver::termination::Indefinite;
use pumpkin_solver::Solver;

#[test]
fn unit_clause_on_upper_bound_value() {
    let mut solver = Solver::default();
    let x0 = solver.new_bounded_integer(-1, 1);
    let _x1 = solver.new_bounded_integer(-2, -1);
    let x2 = solver.new_bounded_integer(-2, 1);
    let x3 = solver.new_bounded_integer(2, 3);
    // the unit clause removes the upper bound value of x2
    solver.add_clause([predicate!(x2 != 1)]).unwrap();
    let mut brancher = solver.default_brancher();
    for assumptions in [
        vec![
            predicate!(x0 <= 0),
            predicate!(x3 >= 3),
            predicate!(_x1 >= -2),
        ],
        vec![],
        vec![predicate!(x0 <= -2)],
    ] {
        match solver.satisfy_under_assumptions(&mut brancher, &mut Indefinite, &assumptions) {
            SatisfactionResultUnderAssumptions::Satisfiable(_) => println!("sat"),
            SatisfactionResultUnderAssumptions::UnsatisfiableUnderAssumptions(_) => {
                println!("unsat under assumptions")
            }
            SatisfactionResultUnderAssumptions::Unsatisfiable => println!("unsat"),
            SatisfactionResultUnderAssumptions::Unknown => panic!(),
        };
        match solver.satisfy(&mut brancher, &mut Indefinite) {
            SatisfactionResult::Satisfiable(_) => println!("plain: sat"),
            _ => panic!("plain solve must find a solution"),
        };
    }
    let mut term = Indefinite;
    let mut it = solver.get_solution_iterator(&mut brancher, &mut term);
    let mut n = 0;
    while let pumpkin_solver::results::solution_iterator::IteratedSolution::Solution(..) =
        it.next_solution()
    {
        n += 1;
    }
    assert_eq!(n, 3 * 2 * 3 * 2);
}

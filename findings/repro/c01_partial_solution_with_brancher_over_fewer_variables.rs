// D36: a brancher that does not cover every variable makes Solver::satisfy hand out a partial
// "solution": the engine takes `next_decision() == None` for "all variables are assigned".
use pumpkin_solver::results::ProblemSolution;
use pumpkin_solver::results::SatisfactionResult;
use pumpkin_solver::termination::Indefinite;
use pumpkin_solver::Solver;

#[test]
fn variable_created_after_the_brancher() {
    let mut solver = Solver::default();
    let x = solver.new_bounded_integer(0, 3);
    let mut brancher = solver.default_brancher();
    assert!(matches!(solver.satisfy(&mut brancher, &mut Indefinite), SatisfactionResult::Satisfiable(_)));
    let y = solver.new_bounded_integer(0, 3);
    match solver.satisfy(&mut brancher, &mut Indefinite) {
        SatisfactionResult::Satisfiable(s) => {
            println!("x = {}", s.get_integer_value(x));
            // panics: "Expected retrieved integer variable from solution to be assigned"
            println!("y = {}", s.get_integer_value(y));
        }
        _ => panic!(),
    }
}

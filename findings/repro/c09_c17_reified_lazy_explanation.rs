// Panics on 53e83295: "Propagator Reified(Element) does not support lazy explanations." (reason.rs:142)
// ReifiedPropagator does not forward Propagator::lazy_explanation to the wrapped propagator.
use pumpkin_solver::branching::branchers::independent_variable_value_brancher::IndependentVariableValueBrancher;
use pumpkin_solver::branching::value_selection::InDomainMax;
use pumpkin_solver::branching::variable_selection::InputOrder;
use pumpkin_solver::constraints;
use pumpkin_solver::constraints::Constraint;
use pumpkin_solver::predicate;
use pumpkin_solver::results::SatisfactionResult;
use pumpkin_solver::termination::Indefinite;
use pumpkin_solver::Solver;

#[test]
fn reified_element_lazy_reason() {
    let mut solver = Solver::default();
    let r = solver.new_bounded_integer(0, 1);
    let a = solver.new_bounded_integer(5, 10);
    let b = solver.new_bounded_integer(7, 12);
    let index = solver.new_bounded_integer(0, 1);
    let rhs = solver.new_bounded_integer(0, 20);
    let r_lit = solver.new_literal_for_predicate(predicate!(r >= 1));
    let _ = solver
        .add_constraint(constraints::element(index, [a, b], rhs))
        .implied_by(r_lit);
    // r -> rhs <= 4
    let _ = solver.add_clause([predicate!(r <= 0), predicate!(rhs <= 4)]);
    let mut brancher = IndependentVariableValueBrancher::new(
        InputOrder::new(&[r, a, b, index, rhs]),
        InDomainMax,
    );
    let res = solver.satisfy(&mut brancher, &mut Indefinite);
    assert!(matches!(res, SatisfactionResult::Satisfiable(_)));
}

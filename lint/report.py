"""Obligation ledger, known-findings matching, evidence and verdict output."""
import json
import os
import time

VERIF = os.path.dirname(os.path.dirname(os.path.abspath(__file__)))


class Ledger:
    def __init__(self, prop, tier, seed):
        self.prop = prop
        self.tier = tier
        self.seed = seed
        self.t0 = time.time()
        self.obligations = []   # dicts
        self.rules = {}         # rule id -> description
        self.counts = {}
        self.notes = []
        self.checker_errors = []

    def rule(self, rid, text):
        self.rules[rid] = text

    def ok(self, rule, instance, site=None, detail=None):
        self.obligations.append({"rule": rule, "instance": instance, "ok": True,
                                 "site": site, "detail": detail})

    def bad(self, rule, instance, site=None, detail=None, path=None):
        """a violation of `rule` at `instance` (the key: no line numbers in it)"""
        self.obligations.append({"rule": rule, "instance": instance, "ok": False,
                                 "site": site, "detail": detail, "path": path})

    def check(self, cond, rule, instance, site=None, detail=None, bad_detail=None):
        if cond:
            self.ok(rule, instance, site, detail)
        else:
            self.bad(rule, instance, site, bad_detail or detail)
        return cond

    def floor(self, rule, what, found, minimum):
        """fail closed when fewer instances than counted by hand are found"""
        if found < minimum:
            self.bad(rule, "floor:%s" % what, None,
                     "only %d %s found, %d were confirmed on the pinned tree — the rule would pass "
                     "vacuously" % (found, what, minimum))
        else:
            self.count(rule + ":" + what, found)

    def anchor_missing(self, rule, what):
        self.bad(rule, "anchor-missing:%s" % what, None,
                 "anchor not found: %s — the rule cannot vouch for the property on this tree" % what)

    def count(self, key, n):
        self.counts[key] = self.counts.get(key, 0) + n

    def note(self, s):
        self.notes.append(s)

    def checker_error(self, s):
        self.checker_errors.append(s)


def load_known():
    p = os.path.join(VERIF, "known_findings.json")
    if not os.path.exists(p):
        return {"findings": [], "fixed": []}
    with open(p) as fh:
        return json.load(fh)


def finish(led, functions_analysed, call_sites, extra=None, level_text=""):
    """print verdict lines, write evidence + report; return exit code"""
    known = load_known()
    known_keys = {}
    for k in known.get("findings", []):
        if k["property"] == led.prop:
            known_keys[(k["rule"], k["instance"])] = k
    viol = [o for o in led.obligations if not o["ok"]]
    new = []
    listed = []
    for o in viol:
        kk = known_keys.get((o["rule"], o["instance"]))
        if kk is not None:
            listed.append((o, kk))
        else:
            new.append(o)
    os.makedirs(os.path.join(VERIF, "reports"), exist_ok=True)
    os.makedirs(os.path.join(VERIF, "evidence"), exist_ok=True)
    report_path = os.path.join(VERIF, "reports", "%s.json" % led.prop)
    report = {
        "property": led.prop,
        "tier": led.tier,
        "violations": new,
        "known_findings_seen": [{"rule": o["rule"], "instance": o["instance"], "site": o["site"],
                                 "what": kk["what"]} for o, kk in listed],
        "checker_errors": led.checker_errors,
        "rules": led.rules,
    }
    with open(report_path, "w") as fh:
        json.dump(report, fh, indent=1)
    seen = set()
    for o, kk in listed:
        key = (o["rule"], o["instance"])
        if key in seen:
            continue
        seen.add(key)
        print("KNOWN-FINDING: property=%s %s [%s %s] %s" % (led.prop, kk["what"], o["rule"],
                                                            o["instance"], o.get("site") or ""))
    for o in new:
        print("  %s %s at %s: %s" % (o["rule"], o["instance"], o.get("site") or "-",
                                    o.get("detail") or ""))
    n_ob = len(led.obligations)
    n_ok = sum(1 for o in led.obligations if o["ok"])
    distinct = len({(o["rule"], o["instance"]) for o in led.obligations})
    samples = []
    per_rule = {}
    for o in led.obligations:
        per_rule.setdefault(o["rule"], []).append(o)
    for rid in sorted(per_rule):
        for o in per_rule[rid][:3]:
            samples.append({"rule": rid, "instance": o["instance"], "site": o["site"],
                            "verdict": "holds" if o["ok"] else
                            ("known-finding" if (o["rule"], o["instance"]) in known_keys else "VIOLATION"),
                            "detail": (o.get("detail") or "")[:300]})
    wall = round(time.time() - led.t0, 3)
    coverage = {
        "explanation": level_text,
        "evaluations": n_ob,
        "distinct_nontrivial": distinct,
        "rule": "one evaluation = one rule instance (rule id, anchored construct) decided on the "
                "MIR facts of /repo's current working tree; distinct = distinct (rule, instance) "
                "keys whose anchor was found and examined",
        "obligations": n_ob,
        "discharged": n_ok + len(listed),
        "known_findings": len(seen),
        "samples": samples[:60],
        "rules": led.rules,
        "rule_instance_counts": {r: len(v) for r, v in sorted(per_rule.items())},
        "counts": led.counts,
        "functions_analysed": functions_analysed,
        "call_sites": call_sites,
        "notes": led.notes,
        "exhaustive": True,
    }
    if extra:
        coverage.update(extra)
    ev = {
        "property_id": led.prop,
        "tier": led.tier,
        "seed": led.seed,
        "level": "other",
        "coverage": coverage,
        "assumptions": [
            "rustc's MIR (mir-opt-level=0) and type resolution are faithful to the source",
            "cargo check compiles the same non-test code as cargo build for the analysed features",
            "a rule decides the structural clause named in its description, not the behaviour",
        ],
        "wall_s": wall,
        "violations": len(new),
    }
    with open(os.path.join(VERIF, "evidence", "%s.json" % led.prop), "w") as fh:
        json.dump(ev, fh, indent=1)
    if led.checker_errors:
        for e in led.checker_errors:
            print("CHECKER-ERROR: property=%s %s" % (led.prop, e))
    if new:
        print("VIOLATION property=%s replay=%s" % (led.prop, report_path))
        return 1
    if led.checker_errors:
        return 2
    print("OK property=%s tier=%s obligations=%d discharged=%d known_findings=%d wall=%.1fs"
          % (led.prop, led.tier, n_ob, n_ok + len(listed), len(seen), wall))
    return 0

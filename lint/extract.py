"""E1 front: hash /repo's working tree, run the mirfacts driver under cargo check, cache facts.

Facts live in /verif/.cache/facts/<tree-hash>/<config>/<crate>-<type>.jsonl.  A cache entry is
only valid when its `_ok.json` marker exists; every expected crate file must be present, stamped
with the nonce of the extraction run, and exceed the floors counted on the pinned tree.
"""
import fcntl
import hashlib
import json
import os
import shutil
import subprocess
import sys
import time
import uuid

VERIF = os.path.dirname(os.path.dirname(os.path.abspath(__file__)))
REPO = os.environ.get("VERIF_REPO", "/repo")
CACHE = os.path.join(VERIF, ".cache")
DRIVER_DIR = os.path.join(VERIF, "mirfacts")
DRIVER = os.path.join(DRIVER_DIR, "target", "debug", "mirfacts")

# floors = numbers counted on the pinned tree (53e83295) with this driver, minus a margin for
# legitimate shrinkage; an extraction below them is treated as a broken analysis, not as a pass.
FLOORS = {
    "pumpkin_solver-rlib": 1600,
    "pumpkin_solver-executable": 330,
    "drcp_format-rlib": 95,
}

CONFIGS = {
    "default": ["-p", "pumpkin-solver", "-p", "drcp-format"],
    "debug-checks": ["-p", "pumpkin-solver", "-p", "drcp-format", "--features",
                     "pumpkin-solver/debug-checks"],
    "workspace": ["--workspace"],
}


class ExtractionError(Exception):
    pass


def _iter_source_files(root):
    for dirpath, dirnames, filenames in os.walk(root):
        dirnames[:] = sorted(d for d in dirnames if d not in ("target", ".git", "node_modules"))
        rel = os.path.relpath(dirpath, root)
        for f in sorted(filenames):
            if f.endswith(".rs") or f in ("Cargo.toml", "Cargo.lock", "rust-toolchain.toml",
                                          "config.toml"):
                yield os.path.join(rel, f) if rel != "." else f


def tree_hash(root=None):
    root = root or REPO
    h = hashlib.sha256()
    for rel in _iter_source_files(root):
        p = os.path.join(root, rel)
        try:
            with open(p, "rb") as fh:
                data = fh.read()
        except OSError:
            continue
        h.update(rel.encode())
        h.update(b"\0")
        h.update(hashlib.sha256(data).digest())
    # the driver's own source is part of the key: a new driver never reuses old facts
    with open(os.path.join(DRIVER_DIR, "src", "main.rs"), "rb") as fh:
        h.update(hashlib.sha256(fh.read()).digest())
    return h.hexdigest()[:20]


def nightly_sysroot():
    return subprocess.check_output(["rustc", "+nightly", "--print", "sysroot"], text=True).strip()


def ensure_driver():
    src = os.path.join(DRIVER_DIR, "src", "main.rs")
    if os.path.exists(DRIVER) and os.path.getmtime(DRIVER) >= os.path.getmtime(src):
        return
    env = dict(os.environ, CARGO_NET_OFFLINE="true")
    r = subprocess.run(["cargo", "build", "--offline"], cwd=DRIVER_DIR, env=env,
                       stdout=subprocess.PIPE, stderr=subprocess.STDOUT, text=True)
    if r.returncode != 0 or not os.path.exists(DRIVER):
        raise ExtractionError("building the mirfacts driver failed:\n" + r.stdout[-4000:])


def _clean_member_fingerprints(target_dir):
    fp = os.path.join(target_dir, "debug", ".fingerprint")
    if not os.path.isdir(fp):
        return
    for d in os.listdir(fp):
        if d.startswith(("pumpkin", "drcp")):
            shutil.rmtree(os.path.join(fp, d), ignore_errors=True)


def _prune(keep=1000):      # the thorough replay set (seeds + mutants + refactorings ≈ 600 trees) must fit, or a full pass thrashes
    base = os.path.join(CACHE, "facts")
    if not os.path.isdir(base):
        return
    ents = []
    for d in os.listdir(base):
        p = os.path.join(base, d)
        if os.path.isdir(p):
            ents.append((os.path.getmtime(p), p))
    ents.sort(reverse=True)
    for _, p in ents[keep:]:
        shutil.rmtree(p, ignore_errors=True)


def facts_dir(config="default", root=None, target_dir=None, quiet=False):
    """Return the directory holding facts for the current working tree of `root`."""
    root = root or REPO
    if config not in CONFIGS:
        raise ExtractionError("unknown config " + config)
    os.makedirs(os.path.join(CACHE, "facts"), exist_ok=True)
    th = tree_hash(root)
    out = os.path.join(CACHE, "facts", th, config)
    marker = os.path.join(out, "_ok.json")
    if os.path.exists(marker):
        try:
            os.utime(os.path.join(CACHE, "facts", th), None)     # LRU: a hit refreshes the entry
        except OSError:
            pass
        return out
    lock_path = os.path.join(CACHE, "extract.lock")
    with open(lock_path, "w") as lock:
        fcntl.flock(lock, fcntl.LOCK_EX)
        if os.path.exists(marker):
            return out
        ensure_driver()
        t0 = time.time()
        nonce = uuid.uuid4().hex
        tmp = out + ".tmp" + nonce[:8]
        os.makedirs(tmp, exist_ok=True)
        target_dir = target_dir or os.path.join(CACHE, "target")
        _clean_member_fingerprints(target_dir)
        env = dict(os.environ)
        env.update({
            "LD_LIBRARY_PATH": os.path.join(nightly_sysroot(), "lib"),
            "RUSTFLAGS": "-Zmir-opt-level=0 -Awarnings",
            "RUSTC_WORKSPACE_WRAPPER": DRIVER,
            "MIRFACTS_OUT": tmp,
            "MIRFACTS_NONCE": nonce,
            "CARGO_TARGET_DIR": target_dir,
            "CARGO_NET_OFFLINE": "true",
            "CARGO_INCREMENTAL": "0",
        })
        env.pop("RUSTC_WRAPPER", None)
        cmd = ["cargo", "+nightly", "check", "--offline"] + CONFIGS[config]
        r = subprocess.run(cmd, cwd=root, env=env, stdout=subprocess.PIPE,
                           stderr=subprocess.STDOUT, text=True)
        if r.returncode != 0:
            shutil.rmtree(tmp, ignore_errors=True)
            raise ExtractionError("cargo check of %s failed (the tree does not compile?):\n%s"
                                  % (root, r.stdout[-6000:]))
        counts = {}
        for key, floor in FLOORS.items():
            p = os.path.join(tmp, key + ".jsonl")
            if not os.path.exists(p):
                shutil.rmtree(tmp, ignore_errors=True)
                raise ExtractionError("driver produced no facts for %s (cargo skipped the "
                                      "wrapper?)\n%s" % (key, r.stdout[-2000:]))
            with open(p) as fh:
                header = json.loads(fh.readline())
            if header.get("nonce") != nonce:
                shutil.rmtree(tmp, ignore_errors=True)
                raise ExtractionError("stale facts for %s (nonce mismatch)" % key)
            if header["n_fn"] < floor:
                shutil.rmtree(tmp, ignore_errors=True)
                raise ExtractionError("facts for %s have %d functions, floor is %d"
                                      % (key, header["n_fn"], floor))
            counts[key] = {"n_fn": header["n_fn"], "n_calls": header["n_calls"]}
        with open(os.path.join(tmp, "_ok.json"), "w") as fh:
            json.dump({"nonce": nonce, "tree_hash": th, "config": config, "counts": counts,
                       "wall_s": round(time.time() - t0, 2), "cmd": " ".join(cmd)}, fh)
        if os.path.isdir(out):
            shutil.rmtree(out, ignore_errors=True)
        os.makedirs(os.path.dirname(out), exist_ok=True)
        os.rename(tmp, out)
        _prune()
        if not quiet:
            sys.stderr.write("[extract] %s facts for tree %s in %.1fs\n"
                             % (config, th, time.time() - t0))
    return out


if __name__ == "__main__":
    cfg = sys.argv[1] if len(sys.argv) > 1 else "default"
    print(facts_dir(cfg))

"""Value expressions, branch facts and data dependence over one function's MIR."""
from .facts import op_place, op_local, Call

MAX_DEPTH = 40


class E:
    """Resolved value expression (a tree over the single-definition temporaries of MIR)."""
    __slots__ = ("k", "a", "b", "c", "d")

    def __init__(self, k, a=None, b=None, c=None, d=None):
        self.k = k
        self.a = a
        self.b = b
        self.c = c
        self.d = d

    # kinds and their fields:
    #  const   a=int|None  b=ty  c=str|None  d=raw const dict
    #  call    a=Call      b=[E args]
    #  binop   a=op        b=E    c=E    d=ty
    #  unop    a=op        b=E
    #  cast    a=kind      b=E    c=from d=to
    #  discr   a=E(place)  b=adt path
    #  agg     a=adt       b=variant    c=[E]   d=field names
    #  tuple/array  a=[E]
    #  closure a=def       b=[E captures]
    #  ref     a=E         b=mut
    #  proj    a=E base    b=[proj elems]
    #  local   a=id        (multi-def or unknown local)
    #  arg     a=id
    #  phi     a=[E]       b=local id
    #  other   a=text

    def children(self):
        k = self.k
        if k == "call":
            return list(self.b)
        if k == "binop":
            return [self.b, self.c]
        if k in ("unop", "cast"):
            return [self.b]
        if k == "discr":
            return [self.a]
        if k == "agg":
            return list(self.c)
        if k in ("tuple", "array", "phi"):
            return list(self.a)
        if k == "closure":
            return list(self.b)
        if k == "ref":
            return [self.a]
        if k == "proj":
            return [self.a]
        return []

    def walk(self):
        stack = [self]
        seen = set()
        while stack:
            e = stack.pop()
            if id(e) in seen:
                continue
            seen.add(id(e))
            yield e
            stack.extend(e.children())

    def calls(self):
        return [e.a for e in self.walk() if e.k == "call"]

    def has_call(self, name, owner=None):
        return any(c.is_method(name, owner) for c in self.calls())

    def find_calls(self, name, owner=None):
        return [c for c in self.calls() if c.is_method(name, owner)]

    def consts(self):
        return [e.a for e in self.walk() if e.k == "const" and e.a is not None]

    def args_used(self):
        return {e.a for e in self.walk() if e.k == "arg"}

    def locals_used(self):
        s = set()
        for e in self.walk():
            if e.k in ("local", "arg"):
                s.add(e.a)
            elif e.k == "phi":
                s.add(e.b)
        return s

    def fields(self):
        """names of fields projected anywhere in the expression"""
        out = []
        for e in self.walk():
            if e.k == "proj":
                out.extend(p["name"] for p in e.b if "field" in p and p.get("name"))
        return out

    def __repr__(self):
        return show(self)


def show(e, depth=0):
    if depth > 8:
        return "…"
    k = e.k
    if k == "const":
        if e.a is not None:
            return str(e.a)
        if e.c is not None:
            return repr(e.c)
        return "const<%s>" % e.b
    if k == "call":
        return "%s(%s)" % (e.a.name, ", ".join(show(x, depth + 1) for x in e.b))
    if k == "binop":
        return "(%s %s %s)" % (show(e.b, depth + 1), e.a, show(e.c, depth + 1))
    if k == "unop":
        return "%s(%s)" % (e.a, show(e.b, depth + 1))
    if k == "cast":
        return "(%s as %s)" % (show(e.b, depth + 1), e.d)
    if k == "discr":
        return "discr(%s)" % show(e.a, depth + 1)
    if k == "agg":
        return "%s::%s{%s}" % (e.a.rsplit("::", 1)[-1], e.b, ", ".join(show(x, depth + 1) for x in e.c))
    if k in ("tuple", "array"):
        return "[%s]" % ", ".join(show(x, depth + 1) for x in e.a)
    if k == "closure":
        return "closure<%s>" % e.a
    if k == "ref":
        return "&" + show(e.a, depth + 1)
    if k == "proj":
        s = show(e.a, depth + 1)
        for p in e.b:
            if "deref" in p:
                s = "*" + s
            elif "field" in p:
                s += "." + str(p.get("name") or p["field"])
            elif "downcast" in p:
                s += "@" + p["downcast"]
            elif "index" in p:
                s += "[_%d]" % p["index"]
            else:
                s += "[..]"
        return s
    if k == "local":
        return "_%d" % e.a
    if k == "arg":
        return "arg%d" % e.a
    if k == "phi":
        return "phi_%s(%s)" % (e.b, "|".join(show(x, depth + 1) for x in e.a[:4]))
    return str(e.a)


class Resolver:
    def __init__(self, fn):
        self.fn = fn
        self.memo = {}

    def operand(self, o, depth=0):
        if o is None:
            return E("other", "none")
        if "const" in o:
            c = o["const"]
            if c.get("ty") == "fn":
                return E("const", None, "fn", c.get("def"), c)
            if c.get("closure"):
                return E("closure", c["closure"], [])
            if c.get("enum_ref"):
                er = c["enum_ref"]
                return E("ref", E("agg", er["adt"], er["variant"], [], []), False)
            return E("const", c.get("int"), c.get("ty"), c.get("str") if c.get("float") is None else c.get("float"), c)
        return self.place(op_place(o), depth)

    def place(self, p, depth=0):
        base = self.local(p["local"], depth)
        proj = list(p["proj"])
        # cancel  *(&x)
        while proj and "deref" in proj[0] and base.k == "ref":
            base = base.a
            proj = proj[1:]
        # (_7.0) of a checked binop
        if proj and base.k == "binop" and base.a.endswith("WithOverflow") and "field" in proj[0]:
            if proj[0]["field"] == 0:
                base = E("binop", base.a[:-len("WithOverflow")], base.b, base.c, base.d)
            else:
                base = E("other", "overflow-flag")
            proj = proj[1:]
        # field of a tuple/aggregate built here
        while proj and "field" in proj[0] and base.k in ("tuple",) and proj[0]["field"] < len(base.a):
            base = base.a[proj[0]["field"]]
            proj = proj[1:]
        if not proj:
            return base
        if base.k == "proj":
            return E("proj", base.a, list(base.b) + proj)
        return E("proj", base, proj)

    def local(self, l, depth=0):
        if l in self.memo:
            return self.memo[l]
        if depth > MAX_DEPTH:
            return E("local", l)
        fn = self.fn
        ds = fn.whole_defs(l)
        # writes through the pointer held in l ((*_l).f = …) do not redefine l itself
        all_ds = []
        for d in fn.defs.get(l, []):
            if d[0] == "stmt":
                dst = d[3].get("dst") or d[3].get("place")
                if dst["proj"] and "deref" in dst["proj"][0]:
                    continue
            elif d[0] == "call" and d[2].dst["proj"] and "deref" in d[2].dst["proj"][0]:
                continue
            all_ds.append(d)
        if len(ds) == 1 and len(all_ds) == 1:
            self.memo[l] = E("local", l)  # cycle guard
            e = self.definition(ds[0], l, depth + 1)
            self.memo[l] = e
            return e
        if len(all_ds) == 0:
            e = E("local", l)
        elif len(ds) >= 1 and len(ds) <= 6 and len(ds) == len(all_ds):
            self.memo[l] = E("local", l)
            alts = [self.definition(d, l, depth + 1) for d in ds]
            e = E("phi", alts, l)
        else:
            e = E("local", l)
        self.memo[l] = e
        return e

    def definition(self, d, l, depth):
        if d[0] == "arg":
            return E("arg", l)
        if d[0] == "call":
            c = d[2]
            return E("call", c, [self.operand(a, depth) for a in c.args])
        s = d[3]
        if s["s"] != "assign":
            return E("local", l)
        return self.rvalue(s["rv"], depth)

    def rvalue(self, rv, depth=0):
        r = rv["r"]
        if r == "use":
            return self.operand(rv["op"], depth)
        if r == "ref":
            return E("ref", self.place(rv["place"], depth), rv.get("mut"))
        if r == "rawptr":
            return E("ref", self.place(rv["place"], depth), rv.get("mut"))
        if r == "binop":
            return E("binop", rv["op"], self.operand(rv["a"], depth), self.operand(rv["b"], depth),
                     rv.get("ty"))
        if r == "unop":
            return E("unop", rv["op"], self.operand(rv["v"], depth), rv.get("ty"))
        if r == "cast":
            return E("cast", rv["kind"], self.operand(rv["v"], depth), rv["from"], rv["to"])
        if r == "discr":
            return E("discr", self.place(rv["place"], depth), rv.get("adt"))
        if r == "aggregate":
            return E("agg", rv["adt"], rv["variant"], [self.operand(f, depth) for f in rv["fields"]],
                     rv.get("field_names"))
        if r in ("tuple", "array"):
            return E(r, [self.operand(f, depth) for f in rv["fields"]])
        if r == "closure":
            return E("closure", rv["def"], [self.operand(f, depth) for f in rv["captures"]])
        if r == "repeat":
            return E("array", [self.operand(rv["op"], depth)])
        return E("other", r)


def resolver(fn):
    r = getattr(fn, "_resolver", None)
    if r is None:
        r = Resolver(fn)
        fn._resolver = r
    return r


PEEL_CALLS = {"clone", "deref", "deref_mut", "borrow", "borrow_mut", "as_ref", "as_mut", "into",
              "from", "to_owned", "unwrap", "expect", "branch", "from_residual", "into_iter",
              "try_into", "try_from", "iter", "copied", "cloned", "as_slice", "as_mut_slice",
              "to_vec", "into_boxed_slice", "into_vec", "new_unchecked", "get_unchecked"}


def peel(e, calls=PEEL_CALLS, casts=True):
    """Strip references, derefs, copies, conversions and (optionally) value-preserving calls."""
    while True:
        if e.k == "ref":
            e = e.a
        elif e.k == "proj" and all("deref" in p for p in e.b):
            e = e.a
        elif e.k == "cast" and casts:
            e = e.b
        elif e.k == "call" and calls and e.a.name in calls and e.b:
            e = e.b[0]
        else:
            return e


# ---------------------------------------------------------------------------------------------
# branch facts

class Fact:
    """What taking one switch edge tells about a value.
    kind 'bool': atom is a boolean expression, val True/False
    kind 'variant': atom is the matched place, val = variant name (is) / names (isnot)
    kind 'int': atom integer expression, val = ('eq', v) | ('ne', [v…])
    """
    __slots__ = ("edge", "kind", "atom", "val", "neg")

    def __init__(self, edge, kind, atom, val, neg=False):
        self.edge = edge
        self.kind = kind
        self.atom = atom
        self.val = val
        self.neg = neg

    def __repr__(self):
        return "<fact %s %s %s%s>" % (self.kind, show(self.atom), "not " if self.neg else "", self.val)


REL_NEG = {"Eq": "Ne", "Ne": "Eq", "Lt": "Ge", "Ge": "Lt", "Gt": "Le", "Le": "Gt"}


def switch_cond(fn, bb):
    t = fn.blocks[bb]["term"]
    if t["t"] != "switch":
        return None
    return resolver(fn).operand(t["discr"])


def edge_facts(fn, bb):
    """For a switch block: list of Fact, one or more per outgoing edge."""
    t = fn.blocks[bb]["term"]
    if t["t"] != "switch":
        return []
    cond = switch_cond(fn, bb)
    ty = t.get("ty")
    out = []
    for e in fn.cfg.edges[bb]:
        if ty == "bool":
            if e.value is not None:
                truth = bool(e.value)
            else:
                truth = not bool(e.others[0]) if len(e.others) == 1 else None
            if truth is None:
                continue
            atom = cond
            # peel Not
            while atom.k == "unop" and atom.a == "Not":
                atom = atom.b
                truth = not truth
            out.append(Fact(e, "bool", atom, truth))
        elif cond.k == "discr":
            adt = cond.b
            if e.value is not None:
                name = fn.prog.variant_by_discr(adt, e.value) if adt else None
                out.append(Fact(e, "variant", cond.a, name if name is not None else e.value))
            else:
                names = [fn.prog.variant_by_discr(adt, v) if adt else v for v in e.others]
                # if exactly one variant remains, state it positively too
                a = fn.prog.find_adt(adt) if adt else None
                all_names = [v["name"] for v in a["variants"]] if a is not None else None
                if all_names is None and adt in fn.prog.STD_VARIANTS and \
                        isinstance(fn.prog.STD_VARIANTS[adt], list):
                    all_names = fn.prog.STD_VARIANTS[adt]
                if all_names is not None:
                    rest = [v for v in all_names if v not in names]
                    if len(rest) == 1:
                        out.append(Fact(e, "variant", cond.a, rest[0]))
                        continue
                out.append(Fact(e, "variant", cond.a, names, neg=True))
        else:
            if e.value is not None:
                out.append(Fact(e, "int", cond, ("eq", e.value)))
            else:
                out.append(Fact(e, "int", cond, ("ne", list(e.others))))
    return out


def all_edge_facts(fn):
    fs = getattr(fn, "_edge_facts", None)
    if fs is None:
        fs = []
        for bb in fn.cfg.edges:
            fs.extend(edge_facts(fn, bb))
        fn._edge_facts = fs
    return fs


def rel_fact(fact):
    """For a bool fact over a comparison: (op, lhsE, rhsE) that HOLDS on this edge."""
    if fact.kind != "bool" or fact.atom.k != "binop" or fact.atom.a not in REL_NEG:
        return None
    op = fact.atom.a if fact.val else REL_NEG[fact.atom.a]
    return (op, fact.atom.b, fact.atom.c)


def guards_of(fn, node):
    """All facts whose edge dominates `node` (block id)."""
    cfg = fn.cfg
    return [f for f in all_edge_facts(fn) if cfg.dominates(f.edge.node, node)]


def call_guarded(fn, node, name, truth, owner=None):
    """Is block `node` dominated by an edge on which a call of `name` evaluated to `truth`?"""
    for f in guards_of(fn, node):
        if f.kind == "bool" and f.val == truth:
            a = peel(f.atom, calls=None)
            if a.k == "call" and a.a.is_method(name, owner):
                return f
    return None


# ---------------------------------------------------------------------------------------------
# data dependence (flow-insensitive within a function, field-insensitive on locals)

def _rv_locals(rv):
    out = []

    def op(o):
        p = op_place(o)
        if p is not None:
            pl(p)

    def pl(p):
        out.append(p["local"])
        for e in p["proj"]:
            if "index" in e:
                out.append(e["index"])
    r = rv["r"]
    if r in ("use", "repeat"):
        op(rv["op"])
    elif r in ("ref", "rawptr", "discr"):
        pl(rv["place"])
    elif r == "binop":
        op(rv["a"])
        op(rv["b"])
    elif r in ("unop", "cast"):
        op(rv["v"])
    elif r in ("aggregate", "tuple", "array", "rawptr_agg"):
        for f in rv["fields"]:
            op(f)
    elif r == "closure":
        for f in rv["captures"]:
            op(f)
    return out


def dep_edges(fn, effects=True):
    """list of (src_local, dst_local) data-dependence edges; with effects=True also the effects
    of calls through &mut arguments and of stores through references."""
    attr = "_dep_edges" if effects else "_dep_edges_plain"
    cached = getattr(fn, attr, None)
    if cached is not None:
        return cached
    edges = []
    call_edges = []
    ref_of = {}   # local holding a reference -> locals it may point into
    for b in fn.blocks:
        for s in b["stmts"]:
            if s["s"] != "assign":
                continue
            dst = s["dst"]
            rv = s["rv"]
            if not effects and dst["proj"] and "deref" in dst["proj"][0]:
                continue   # a store through a reference: a sink, not a flow into the reference
            for l in _rv_locals(rv):
                edges.append((l, dst["local"]))
            for e in dst["proj"]:
                if "index" in e:
                    edges.append((e["index"], dst["local"]))
            if rv["r"] in ("ref", "rawptr") and not dst["proj"]:
                ref_of.setdefault(dst["local"], set()).add(rv["place"]["local"])
            if rv["r"] == "use" and not dst["proj"]:
                src = op_local(rv["op"])
                if src is not None:
                    # moving a reference keeps the alias
                    ref_of.setdefault(dst["local"], set()).add(("alias", src))
    # resolve alias chains
    def pointees(l, seen=None):
        seen = seen or set()
        if l in seen:
            return set()
        seen.add(l)
        res = set()
        for x in ref_of.get(l, ()):  # noqa
            if isinstance(x, tuple):
                res |= pointees(x[1], seen)
            else:
                res.add(x)
                res |= pointees(x, seen)
        return res
    for c in fn.calls:
        srcs = []
        for a in c.args:
            p = op_place(a)
            if p is not None:
                srcs.append(p["local"])
                for e in p["proj"]:
                    if "index" in e:
                        srcs.append(e["index"])
        if c.dst is not None:
            for s_ in srcs:
                if effects:
                    edges.append((s_, c.dst["local"]))
                else:
                    call_edges.append((c, s_, c.dst["local"]))
        if not effects:
            continue
        # effects through mutable references passed as arguments
        for a, aty in zip(c.args, c.term.get("arg_tys", [])):
            if aty.startswith("&mut "):
                l = op_local(a)
                if l is None:
                    continue
                tgts = pointees(l) | {l}
                for s_ in srcs:
                    for t_ in tgts:
                        if s_ != t_:
                            edges.append((s_, t_))
    # writes through a reference:  (*_5).f = x  taints what _5 points to
    for b in fn.blocks:
        for s in b["stmts"]:
            if effects and s["s"] == "assign" and s["dst"]["proj"] and "deref" in s["dst"]["proj"][0]:
                l = s["dst"]["local"]
                for t_ in pointees(l):
                    for sl in _rv_locals(s["rv"]):
                        edges.append((sl, t_))
    # a reference depends on its pointee and (for reads through it) vice versa is covered by ref edge
    if not effects:
        fn._call_edges_plain = call_edges
    setattr(fn, attr, edges)
    fn._ref_of = ref_of
    return edges


def forward(fn, seeds, effects=True, call_filter=None):
    """locals data-dependent on any of the seed locals.  With effects=False, `call_filter(call)`
    decides whether a call's result depends on its arguments (default: yes)."""
    succ = {}
    for a, b in dep_edges(fn, effects):
        succ.setdefault(a, set()).add(b)
    if not effects:
        for c, a, b in fn._call_edges_plain:
            if call_filter is None or call_filter(c):
                succ.setdefault(a, set()).add(b)
    seen = set(seeds)
    work = list(seeds)
    while work:
        u = work.pop()
        for v in succ.get(u, ()):
            if v not in seen:
                seen.add(v)
                work.append(v)
    return seen


def backward(fn, seeds, effects=True, call_filter=None):
    """locals the seed locals data-depend on"""
    pred = {}
    for a, b in dep_edges(fn, effects):
        pred.setdefault(b, set()).add(a)
    if not effects:
        for c, a, b in fn._call_edges_plain:
            if call_filter is None or call_filter(c):
                pred.setdefault(b, set()).add(a)
    seen = set(seeds)
    work = list(seeds)
    while work:
        u = work.pop()
        for v in pred.get(u, ()):
            if v not in seen:
                seen.add(v)
                work.append(v)
    return seen


def calls_feeding(fn, locals_):
    """calls whose destination is in the backward slice of the given locals"""
    back = backward(fn, locals_)
    return [c for c in fn.calls if c.dst is not None and c.dst["local"] in back]


def operand_locals(o):
    p = op_place(o)
    if p is None:
        return []
    out = [p["local"]]
    for e in p["proj"]:
        if "index" in e:
            out.append(e["index"])
    return out


def aggregates(fn, adt_suffix=None, variant=None):
    """[(bb, idx, stmt)] of aggregate constructions of an ADT (path suffix) / variant"""
    out = []
    for b in fn.blocks:
        if b.get("cleanup"):
            continue
        for i, s in enumerate(b["stmts"]):
            if s["s"] == "assign" and s["rv"]["r"] == "aggregate":
                rv = s["rv"]
                if adt_suffix and not (rv["adt"] == adt_suffix or rv["adt"].endswith("::" + adt_suffix)):
                    continue
                if variant and rv["variant"] != variant:
                    continue
                out.append((b["id"], i, s))
    return out


def root_local(fn, o_or_place, max_hops=12):
    """Follow reference / copy chains of single-definition temporaries to the local they denote."""
    pl = o_or_place if "local" in o_or_place else op_place(o_or_place)
    if pl is None:
        return None
    l = pl["local"]
    for _ in range(max_hops):
        ds = fn.defs.get(l, [])
        if len(ds) != 1 or ds[0][0] != "stmt":
            return l
        s = ds[0][3]
        if s["s"] != "assign" or s["dst"]["proj"]:
            return l
        rv = s["rv"]
        if rv["r"] in ("ref", "rawptr"):
            # a reference to a field is not the root itself
            if any("field" in e for e in rv["place"]["proj"]):
                return l
            l = rv["place"]["local"]
        elif rv["r"] == "use":
            p2 = op_place(rv["op"])
            if p2 is None or any("field" in e for e in p2["proj"]):
                return l
            l = p2["local"]
        else:
            return l
    return l


def const_defs(fn, local):
    """[(bb, int value)] for every whole definition of `local` by an integer/bool constant;
    None if some definition is not a constant"""
    out = []
    for d in fn.whole_defs(local):
        if d[0] != "stmt":
            return None
        rv = d[3].get("rv")
        if not rv or rv["r"] != "use" or "const" not in rv["op"] or rv["op"]["const"].get("int") is None:
            return None
        out.append((d[1], rv["op"]["const"]["int"]))
    return out


def variant_guard(fn, node, field=None, adt_suffix=None):
    """variant name known at `node` for a match on a place whose last field is `field` /
    whose ADT ends with adt_suffix: returns set of variant names that dominate the node"""
    names = set()
    for f in guards_of(fn, node):
        if f.kind != "variant" or f.neg:
            continue
        a = f.atom
        if field is not None:
            if not (a.k == "proj" and a.b and a.b[-1].get("name") == field):
                continue
        t = fn.blocks[f.edge.src]["term"]
        cond = resolver(fn).operand(t["discr"])
        if adt_suffix is not None and not (cond.k == "discr" and cond.b and cond.b.endswith(adt_suffix)):
            continue
        names.add(f.val)
    return names


def forward_with_control(fn, seeds, effects=True):
    """forward data dependence plus control dependence: whatever is assigned in a block dominated
    by an edge of a branch on a tainted value is tainted as well"""
    tainted = set(seeds)
    cfg = fn.cfg
    while True:
        t2 = forward(fn, tainted, effects=effects)
        added = False
        for bb, edges in cfg.edges.items():
            l = op_local(fn.blocks[bb]["term"]["discr"])
            if l is None or l not in t2:
                continue
            for b in fn.blocks:
                if b.get("cleanup"):
                    continue
                if any(cfg.dominates(e.node, b["id"]) for e in edges):
                    for s in b["stmts"]:
                        if s["s"] == "assign" and s["dst"]["local"] not in t2:
                            t2.add(s["dst"]["local"])
                            added = True
                    t = b["term"]
                    if t["t"] == "call" and t.get("dst") and t["dst"]["local"] not in t2:
                        t2.add(t["dst"]["local"])
                        added = True
        if not added and t2 == tainted:
            return t2
        tainted = t2

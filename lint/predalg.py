"""Predicate algebra: small-model decision of the path summaries of the kernel's predicate functions.

The symbolic executor reduces `Predicate::not`, `Predicate::is_mutually_exclusive_with`,
`Assignments::evaluate_predicate` and the implicit-reason match of
`ConflictAnalysisContext::get_propagation_reason` to a finite list of rows

      (variant of each predicate involved, path conditions over their constants, result expression)

whose expressions are built from the predicates' constants with `+ 1`, `- 1` and comparisons only.
Such a row is valid for all integers iff it is valid for all values in a window a few units wide
around the constants (the truth of an atomic bound predicate only depends on the order of x and the
constant, and every expression shifts a constant by at most one).  The rules here evaluate the
*extracted expressions* — never the solver — over that window and report the row and the
counter-model when the law fails.
"""
from .flow import show, peel

XS = range(-6, 7)
CS = range(-2, 3)
TS = range(-4, 5)


class Unknown(Exception):
    pass


def holds(variant, c, x):
    if variant == "LowerBound":
        return x >= c
    if variant == "UpperBound":
        return x <= c
    if variant == "NotEqual":
        return x != c
    if variant == "Equal":
        return x == c
    raise Unknown(variant)


def ev(e, leaf):
    """integer / boolean value of a resolved expression; `leaf(e)` supplies the symbols"""
    k = e.k
    if k == "const":
        if e.a is None:
            raise Unknown(show(e))
        return e.a
    if k == "binop":
        op = e.a
        a, b = ev(e.b, leaf), ev(e.c, leaf)
        if op in ("Add", "AddUnchecked", "AddWithOverflow"):
            return a + b
        if op in ("Sub", "SubUnchecked", "SubWithOverflow"):
            return a - b
        if op in ("Mul", "MulUnchecked", "MulWithOverflow"):
            return a * b
        if op == "Gt":
            return int(a > b)
        if op == "Ge":
            return int(a >= b)
        if op == "Lt":
            return int(a < b)
        if op == "Le":
            return int(a <= b)
        if op == "Eq":
            return int(a == b)
        if op == "Ne":
            return int(a != b)
        if op in ("Div", "Rem"):
            if b == 0:
                raise Unknown("division by zero")
            q = abs(a) // abs(b)
            q = q if (a >= 0) == (b >= 0) else -q        # Rust truncates toward zero
            return q if op == "Div" else a - q * b
        if op == "BitAnd":
            return a & b
        if op == "BitOr":
            return a | b
        raise Unknown(op)
    if k == "unop":
        v = ev(e.b, leaf)
        if e.a == "Not":
            return int(not v)
        if e.a == "Neg":
            return -v
        raise Unknown(e.a)
    if k == "cast":
        return ev(e.b, leaf)
    if k == "ref":
        return ev(e.a, leaf)
    v = leaf(e)
    if v is None:
        raise Unknown(show(e))
    return v


def feasible(conds, leaf):
    """are the path conditions satisfied under `leaf`?  undecidable conditions do not constrain"""
    for cond, val, others in conds:
        if cond.k == "discr":
            continue
        try:
            w = ev(cond, leaf)
        except Unknown:
            continue
        if val is not None:
            if w != val:
                return False
        elif others and w in others:
            return False
    return True


def is_pred_adt(path):
    return (path or "").endswith("predicates::predicate::Predicate") or (path or "").endswith("::Predicate")


def field_of(e):
    """(base E, variant, field name) of `base@Variant.field`"""
    if e.k != "proj" or not e.b:
        return None
    names = [x.get("name") for x in e.b if "field" in x]
    variants = [x.get("variant") or x.get("downcast") for x in e.b if "downcast" in x or "variant" in x]
    if not names:
        return None
    return e.a, (variants[-1] if variants else None), names[-1]


def const_field(name):
    return name is not None and name != "domain_id"

"""In-memory model of the facts emitted by mirfacts (one Program per crate/target)."""
import json
import os


class AnchorMissing(Exception):
    """A construct a rule is anchored on is no longer there: the rule fails closed."""

    def __init__(self, what):
        Exception.__init__(self, what)
        self.what = what


# ---------------------------------------------------------------------------------------------
# operands / places

def op_place(o):
    if o is None:
        return None
    return o.get("copy") or o.get("move")


def op_local(o):
    p = op_place(o)
    return None if p is None else p["local"]

def op_is_const(o):
    return o is not None and "const" in o


def op_const_int(o):
    if o is None or "const" not in o:
        return None
    return o["const"].get("int")


def op_const_str(o):
    if o is None or "const" not in o:
        return None
    return o["const"].get("str")


def place_fields(p):
    return [e["name"] for e in p["proj"] if "field" in e]


def place_str(p):
    s = "_%d" % p["local"]
    for e in p["proj"]:
        if "deref" in e:
            s = "(*%s)" % s
        elif "field" in e:
            s += "." + (e.get("name") or str(e["field"]))
        elif "downcast" in e:
            s += " as " + e["downcast"]
        elif "index" in e:
            s += "[_%d]" % e["index"]
        elif "const_index" in e:
            s += "[%d]" % e["const_index"]
        else:
            s += "[..]"
    return s


# ---------------------------------------------------------------------------------------------

class Call:
    __slots__ = ("fn", "bb", "callee", "args", "dst", "target", "span", "exp", "term")

    def __init__(self, fn, bb, term):
        self.fn = fn
        self.bb = bb
        self.term = term
        self.callee = term["callee"]
        self.args = term["args"]
        self.dst = term.get("dst")
        self.target = term.get("target")
        self.span = term.get("span", fn.span)
        self.exp = term.get("from_expansion", False)

    @property
    def name(self):
        return self.callee.get("name")

    @property
    def defn(self):
        return self.callee.get("def")

    @property
    def resolved(self):
        return self.callee.get("resolved")

    @property
    def target_def(self):
        """Most specific known callee path."""
        return self.callee.get("resolved") or self.callee.get("def")

    @property
    def trait(self):
        return self.callee.get("trait")

    @property
    def trait_item(self):
        return self.callee.get("trait_item")

    @property
    def self_ty(self):
        return self.callee.get("self_ty")

    @property
    def generics(self):
        return self.callee.get("generics") or []

    @property
    def macros(self):
        return self.term.get("macros") or []

    PANIC_FNS = ("core::panicking::panic", "core::panicking::panic_fmt", "core::panicking::panic_display",
                 "core::panicking::unreachable_display", "core::panicking::panic_explicit",
                 "std::rt::begin_panic", "core::panicking::panic_nounwind", "std::rt::panic_fmt",
                 "core::panicking::panic_const", "core::option::unwrap_failed",
                 "core::result::unwrap_failed", "core::option::expect_failed")

    def is_panic(self):
        d = self.target_def or ""
        return self.target is None and (d.startswith("core::panicking::") or d.startswith("std::rt::")
                                        or "panic" in d)

    def is_explicit_panic(self):
        """a panic that is not the failure arm of an assertion macro: panic!, unreachable!, todo!,
        unimplemented!"""
        if not self.is_panic():
            return False
        ms = self.macros
        if any(m.rstrip("!").endswith(("assert", "assert_eq", "assert_ne", "debug_assert",
                                        "debug_assert_eq", "debug_assert_ne")) or "pumpkin_assert" in m
               for m in ms):
            return False
        return any(m.rstrip("!") in ("panic", "unreachable", "todo", "unimplemented") for m in ms)

    def panic_kind(self):
        for m in reversed(self.macros):
            k = m.rstrip("!")
            if k in ("panic", "unreachable", "todo", "unimplemented"):
                return k
        return None

    def is_method(self, name, owner=None):
        """name matches and (optionally) the self type / trait / path mentions `owner`."""
        if self.name != name:
            return False
        if owner is None:
            return True
        for s in (self.callee.get("self_ty"), self.callee.get("trait"), self.callee.get("def"),
                  self.callee.get("resolved")):
            if s and owner in s:
                return True
        return False

    def __repr__(self):
        return "<call %s @%s bb%d>" % (self.target_def, self.span, self.bb)


class Fn:
    def __init__(self, rec, prog):
        self.rec = rec
        self.prog = prog
        self.defn = rec["def"]
        self.name = rec["name"]
        self.kind = rec["kind"]
        self.parent = rec.get("parent")
        self.direct_parent = rec.get("direct_parent")
        self.impl_trait = rec.get("impl_trait")
        self.self_ty = rec.get("self_ty")
        self.self_adt = rec.get("self_adt")
        self.trait_method = rec.get("trait_method")
        self.span = rec["span"]
        self.file = rec["span"].rsplit(":", 1)[0]
        self.from_expansion = rec.get("from_expansion", False)
        self.blocks = rec["blocks"]
        self.args = rec["args"]
        self.locals = rec["locals"]
        self.vis = rec.get("vis")
        self._calls = None
        self._defs = None
        self._cfg = None

    @property
    def n(self):
        return len(self.blocks)

    @property
    def calls(self):
        if self._calls is None:
            cs = []
            for b in self.blocks:
                t = b["term"]
                if t["t"] == "call":
                    cs.append(Call(self, b["id"], t))
            self._calls = cs
        return self._calls

    def calls_named(self, name, owner=None):
        return [c for c in self.calls if c.is_method(name, owner)]

    def local_ty(self, l):
        return self.locals[l]["ty"]

    def local_name(self, l):
        return self.locals[l].get("name")

    def local_by_name(self, name):
        return [l["id"] for l in self.locals if l.get("name") == name]

    @property
    def closures(self):
        """All closures (transitively) defined in this function or closure."""
        if self.kind != "Closure":
            return [f for f in self.prog.fns.values() if f.parent == self.defn and f is not self]
        out = []
        fns = self.prog.fns
        for f in fns.values():
            if f.parent != self.parent or f is self:
                continue
            d = f.direct_parent
            hops = 0
            while d is not None and hops < 10:
                if d == self.defn:
                    out.append(f)
                    break
                g = fns.get(d)
                d = g.direct_parent if g is not None else None
                hops += 1
        return out

    def with_closures(self):
        return [self] + self.closures

    @property
    def module(self):
        # module path of a def path such as a::b::Type::method or <T as Tr>::m → from file name
        return self.file

    # --- definitions of locals -------------------------------------------------------------
    @property
    def defs(self):
        """local -> list of ('stmt', bb, idx, stmt) | ('call', bb, Call) | ('arg',)"""
        if self._defs is None:
            d = {}
            for a in self.args:
                d.setdefault(a["local"], []).append(("arg",))
            for b in self.blocks:
                for i, s in enumerate(b["stmts"]):
                    if s["s"] == "assign":
                        d.setdefault(s["dst"]["local"], []).append(("stmt", b["id"], i, s))
                    elif s["s"] == "setdiscr":
                        d.setdefault(s["place"]["local"], []).append(("stmt", b["id"], i, s))
            for c in self.calls:
                if c.dst is not None:
                    d.setdefault(c.dst["local"], []).append(("call", c.bb, c))
            self._defs = d
        return self._defs

    def whole_defs(self, l):
        """definitions that assign the whole local (no projection on the destination)"""
        out = []
        for d in self.defs.get(l, []):
            if d[0] == "stmt":
                s = d[3]
                dst = s.get("dst") or s.get("place")
                if dst["proj"]:
                    continue
            elif d[0] == "call":
                if d[2].dst["proj"]:
                    continue
            out.append(d)
        return out

    @property
    def cfg(self):
        if self._cfg is None:
            from . import cfg as _cfg
            self._cfg = _cfg.CFG(self)
        return self._cfg

    def __repr__(self):
        return "<fn %s>" % self.defn


class Program:
    def __init__(self, path):
        self.path = path
        self.header = None
        self.fns = {}
        self.adts = {}
        self.impls = []
        self.traits = {}
        self.consts = {}
        with open(path) as fh:
            for line in fh:
                r = json.loads(line)
                k = r["k"]
                if k == "fn":
                    self.fns[r["def"]] = Fn(r, self)
                elif k == "adt":
                    self.adts[r["path"]] = r
                elif k == "impl":
                    self.impls.append(r)
                elif k == "trait":
                    self.traits[r["path"]] = r
                elif k == "const":
                    self.consts[r["path"]] = r
                elif k == "header":
                    self.header = r
        self.crate = self.header["crate"]
        self.ext = []
        self._callers = None
        self._impl_index = None

    # --- lookup ------------------------------------------------------------------------------
    def fn(self, suffix, required=True):
        """Unique function whose def path equals `suffix` or ends with '::'+suffix."""
        hits = [f for d, f in self.fns.items() if d == suffix or d.endswith("::" + suffix)]
        if len(hits) == 1:
            return hits[0]
        if not hits:
            if required:
                raise AnchorMissing("function %s (crate %s)" % (suffix, self.crate))
            return None
        exact = [f for f in hits if f.defn == suffix]
        if len(exact) == 1:
            return exact[0]
        raise AnchorMissing("function %s is ambiguous in crate %s: %s"
                            % (suffix, self.crate, [f.defn for f in hits][:5]))

    def fns_where(self, pred):
        return [f for f in self.fns.values() if pred(f)]

    def method(self, self_adt_suffix, name, trait_suffix=None, required=True):
        """Method `name` in an impl for the ADT (path suffix), optionally of a given trait."""
        hits = []
        for f in self.fns.values():
            if f.name != name or f.kind != "AssocFn" or not f.self_adt:
                continue
            if not (f.self_adt == self_adt_suffix or f.self_adt.endswith("::" + self_adt_suffix)):
                continue
            if trait_suffix is None:
                if f.impl_trait is not None:
                    continue
            elif trait_suffix != "*":
                if not f.impl_trait or not (f.impl_trait == trait_suffix or
                                            f.impl_trait.endswith("::" + trait_suffix)):
                    continue
            hits.append(f)
        if len(hits) == 1:
            return hits[0]
        if not hits:
            if required:
                raise AnchorMissing("method %s::%s%s" % (self_adt_suffix, name,
                                                         " of " + trait_suffix if trait_suffix else ""))
            return None
        raise AnchorMissing("method %s::%s is ambiguous: %s"
                            % (self_adt_suffix, name, [f.defn for f in hits][:5]))

    def methods(self, self_adt_suffix, name, trait_suffix="*"):
        out = []
        for f in self.fns.values():
            if f.name != name or f.kind != "AssocFn" or not f.self_adt:
                continue
            if not (f.self_adt == self_adt_suffix or f.self_adt.endswith("::" + self_adt_suffix)):
                continue
            if trait_suffix is None and f.impl_trait is not None:
                continue
            if trait_suffix not in (None, "*"):
                if not f.impl_trait or not f.impl_trait.endswith(trait_suffix):
                    continue
            out.append(f)
        return out

    def adt(self, suffix, required=True):
        hits = [a for p, a in self.adts.items() if p == suffix or p.endswith("::" + suffix)]
        if len(hits) == 1:
            return hits[0]
        if not hits and not required:
            return None
        raise AnchorMissing("type %s (%d matches)" % (suffix, len(hits)))

    def trait(self, suffix, required=True):
        hits = [a for p, a in self.traits.items() if p == suffix or p.endswith("::" + suffix)]
        if len(hits) == 1:
            return hits[0]
        if not hits and not required:
            return None
        raise AnchorMissing("trait %s (%d matches)" % (suffix, len(hits)))

    def impls_of(self, trait_suffix):
        return [i for i in self.impls
                if i.get("trait") and (i["trait"] == trait_suffix or
                                       i["trait"].endswith("::" + trait_suffix))]

    def impl_fn(self, impl, name):
        for it in impl["items"]:
            if it["name"] == name and it["kind"] == "fn":
                return self.fns.get(it["def"])
        return None

    STD_VARIANTS = {"std::option::Option": ["None", "Some"], "std::result::Result": ["Ok", "Err"],
                    "std::ops::ControlFlow": ["Continue", "Break"],
                    "std::cmp::Ordering": {-1: "Less", 0: "Equal", 1: "Greater"}}

    def find_adt(self, adt_path):
        """ADT record by full path, looking into the other workspace crates for foreign paths"""
        a = self.adts.get(adt_path)
        if a is not None:
            return a
        if "::" in adt_path:
            crate, rest = adt_path.split("::", 1)
            for q in getattr(self, "ext", []):
                if q.crate != crate:
                    continue
                if rest in q.adts:
                    return q.adts[rest]
                # public re-exports print under their visible path: fall back to the unique
                # type of that name in the crate
                last = adt_path.rsplit("::", 1)[-1]
                hits = [a for pth, a in q.adts.items() if pth.rsplit("::", 1)[-1] == last]
                if len(hits) == 1:
                    return hits[0]
        return None

    def variant_by_discr(self, adt_path, value):
        a = self.find_adt(adt_path)
        if a is None:
            sv = self.STD_VARIANTS.get(adt_path)
            if isinstance(sv, list) and 0 <= value < len(sv):
                return sv[value]
            if isinstance(sv, dict):
                return sv.get(value)
            return None
        for v in a["variants"]:
            if v["discr"] == value:
                return v["name"]
        return None

    # --- call graph --------------------------------------------------------------------------
    @property
    def impl_index(self):
        """(trait path, method name) -> [Fn] over all impls in this crate"""
        if self._impl_index is None:
            idx = {}
            for f in self.fns.values():
                if f.impl_trait and f.kind == "AssocFn":
                    idx.setdefault((f.impl_trait, f.name), []).append(f)
            self._impl_index = idx
        return self._impl_index

    def callees(self, call):
        """Functions (in this crate) a call may execute."""
        d = call.resolved
        if d and d in self.fns:
            return [self.fns[d]]
        d = call.defn
        if d is None:
            return []
        out = []
        if d in self.fns:
            out.append(self.fns[d])
        if call.trait and not call.resolved:
            out.extend(self.impl_index.get((call.trait, call.name), []))
        return out

    def closure_of(self, roots, follow_closures=True, stop=None):
        """Set of Fn reachable from roots through resolved calls (and closures defined inside)."""
        seen = {}
        work = list(roots)
        while work:
            f = work.pop()
            if f.defn in seen:
                continue
            if stop is not None and stop(f):
                continue
            seen[f.defn] = f
            if follow_closures:
                for c in f.closures:
                    work.append(c)
            for c in f.calls:
                for g in self.callees(c):
                    if g.defn not in seen:
                        work.append(g)
        return list(seen.values())

    @property
    def callers(self):
        """def -> list of Call whose target may be def (within this crate)."""
        if self._callers is None:
            m = {}
            for f in self.fns.values():
                for c in f.calls:
                    for g in self.callees(c):
                        m.setdefault(g.defn, []).append(c)
            self._callers = m
        return self._callers


def load(facts_dir, key):
    p = os.path.join(facts_dir, key + ".jsonl")
    if not os.path.exists(p):
        raise AnchorMissing("facts file " + p)
    return Program(p)

"""Checker self-test (thorough tier): every stored mutant of the property must be reported by the
rule named in its header; the witnesses of the property must fail to compile with the stated code."""
import glob
import os
import shutil
import subprocess
import tempfile

from . import main as _main, report, extract

VERIF = os.path.dirname(os.path.dirname(os.path.abspath(__file__)))


def run(prop, led, seed):
    pats = sorted(glob.glob(os.path.join(VERIF, "mutants", prop, "*.patch")))
    seeds = []
    for d in sorted(glob.glob(os.path.join(VERIF, "seeded", prop + "-*"))):
        p = os.path.join(d, "patch.diff")
        if os.path.exists(p):
            seeds.append(p)
    known = report.load_known()
    kk = {(k["rule"], k["instance"]) for k in known["findings"] if k["property"] == prop}
    killed = 0
    results = []
    for patch in pats + seeds:
        expect = None
        for l in open(patch):
            if l.startswith("# expect:"):
                expect = l.split()[3] if len(l.split()) > 3 else None
        scratch = tempfile.mkdtemp(prefix="verif-selftest-", dir="/tmp")
        try:
            subprocess.check_call(["rsync", "-a", "--exclude", "/target", "--exclude", ".git",
                                   extract.REPO + "/", scratch + "/"])
            r = subprocess.run(["patch", "-p1", "-s", "-i", patch], cwd=scratch,
                               stdout=subprocess.PIPE, stderr=subprocess.STDOUT, text=True)
            if r.returncode != 0:
                results.append({"mutant": os.path.relpath(patch, VERIF), "verdict": "does-not-apply"})
                continue
            led2, ctx2, nf, nc = _main.decide(prop, "thorough", seed, root=scratch)
            new = [o for o in led2.obligations if not o["ok"] and (o["rule"], o["instance"]) not in kk]
            fired = sorted({o["rule"] for o in new})
            ok = bool(new) and (expect is None or expect in fired or expect == "*")
            if ok:
                killed += 1
            else:
                led.checker_error("self-test: mutant %s is not reported (expected rule %s, fired %s)"
                                  % (os.path.relpath(patch, VERIF), expect, fired))
            results.append({"mutant": os.path.relpath(patch, VERIF), "expect": expect, "fired": fired,
                            "verdict": "killed" if ok else "MISSED"})
        except extract.ExtractionError as e:
            results.append({"mutant": os.path.relpath(patch, VERIF), "verdict": "does-not-build",
                            "detail": str(e)[-300:]})
        finally:
            shutil.rmtree(scratch, ignore_errors=True)
    # behaviour-preserving refactorings: the property's rules must stay silent on every one of them
    refs = sorted(glob.glob(os.path.join(VERIF, "seeded", "refactor", "*", "patch.diff")))
    silent = 0
    ref_results = []
    for patch in refs:
        scratch = tempfile.mkdtemp(prefix="verif-selftest-", dir="/tmp")
        try:
            subprocess.check_call(["rsync", "-a", "--exclude", "/target", "--exclude", ".git",
                                   extract.REPO + "/", scratch + "/"])
            r = subprocess.run(["patch", "-p1", "-s", "-i", patch], cwd=scratch,
                               stdout=subprocess.PIPE, stderr=subprocess.STDOUT, text=True)
            if r.returncode != 0:
                ref_results.append({"refactoring": os.path.relpath(patch, VERIF), "verdict": "does-not-apply"})
                continue
            led2, ctx2, nf, nc = _main.decide(prop, "thorough", seed, root=scratch)
            new = [o for o in led2.obligations if not o["ok"] and (o["rule"], o["instance"]) not in kk]
            if not new:
                silent += 1
            else:
                led.checker_error("self-test: the behaviour-preserving refactoring %s raises %s"
                                  % (os.path.relpath(patch, VERIF), sorted({o["rule"] for o in new})))
            ref_results.append({"refactoring": os.path.relpath(patch, VERIF),
                                "verdict": "silent" if not new else "FALSE-ALARM",
                                "fired": sorted({o["rule"] for o in new})})
        except extract.ExtractionError as e:
            ref_results.append({"refactoring": os.path.relpath(patch, VERIF), "verdict": "does-not-build",
                                "detail": str(e)[-300:]})
        finally:
            shutil.rmtree(scratch, ignore_errors=True)
    return {"mutants_total": len(pats) + len(seeds), "mutants_killed": killed, "mutant_results": results,
            "refactorings_total": len(refs), "refactorings_silent": silent, "refactoring_results": ref_results}

"""C15 — MaxSAT solving reports the true optimum (structural clauses W1–W5)."""
from ..main import run_rule
from ..flow import resolver, peel, guards_of, rel_fact, aggregates, show, edge_facts, root_local
from ..symexec import SymExec, variant_name
from ..facts import AnchorMissing, op_const_int

LEVEL = ('decides: every unsigned difference in the MaxSAT bound encoder and linear search is '
         'protected by a comparison of the same two quantities whose `a < b` outcome never reaches it '
         '(also one call level up), or has a table entry with its arithmetic argument (W1); '
         'MaxSatOptimisationResult::Optimal is produced only when the incumbent equals the constant '
         'term, the bound encoder reports an error, or the solve under the tightened bound is '
         'unsatisfiable, and an interrupted solve yields Satisfiable(best) (W2); the soft-clause → '
         'objective table of the sink (empty / satisfied / unit / general) and the sign convention of '
         'Function::add_weighted_literal / evaluate_assignment (W3); no field is accumulated inside a '
         're-entered inner loop (W4); no variable is created after a hard clause made the solver '
         'infeasible (W5). an aggregate over a whole collection is not re-added to a field on every '
         'round of a loop (W4b); the root-satisfaction test of a soft clause sees the whole mapped '
         'clause (W6); encoder loops that post clauses are left only by exhaustion, error or panic — '
         'data-dependent early exits need a table entry (W7). Also runs the KERNEL BUNDLE (rule ids '
         '…K<n>): the kernel rules every verdict depends on — predicate algebra, nogood watchers, '
         'minimisers, conflict-analysis tables, nogood deletion, decision read-back, no-learning '
         'resolver, constraint builders, reified reasons — wherever they are not already registered '
         'here under another id. The time limit is converted with the unit the option documents (W9). '
         'The linear search tightens by exactly one (W10); only the code→literal translation drops the'
         ' sign of a DIMACS code (W11); right-hand sides handed to the encoders are k or k − constant '
         'term on every transition (W12); every hard clause reaches the solver (W13 = C14-G8). Does '
         'not decide the correctness of the two encodings')
TECHNIQUE = "static analysis: guarded-subtraction, dominance, symbolic table recovery and loop-nesting rules over rustc MIR"

# unsigned differences with an arithmetic (not comparison-shaped) safety argument
W1_TABLE = {
    ("CardinalityNetworkEncoder::generate_clauses", "len"):
        "round_up_to_multiple(n, p) ≥ n, so the padding count cannot be negative",
    ("round_up_to_multiple", "Rem"):
        "(a + b) − (a % b): a % b ≤ a",
    ("LinearSearch::solve", "1"):
        "the loop returns Optimal when best == constant_term (≥ 0) before this point, and best ≥ "
        "constant_term always, so best ≥ 1",
}


def weak_guarded(f, bb, sa, sb):
    """some comparison of the two quantities exists whose `a < b` outcome cannot reach bb while its
    `a >= b` outcome can (None if no such comparison)"""
    cfg = f.cfg
    found = None
    for sw in cfg.edges:
        for fa in edge_facts(f, sw):
            rf = rel_fact(fa)
            if rf is None:
                continue
            op, l, r = rf
            sl, sr = show(peel(l, calls=None, casts=False)), show(peel(r, calls=None, casts=False))
            holds_ge = (sl == sa and sr == sb and op in ("Ge", "Gt", "Eq")) or \
                       (sl == sb and sr == sa and op in ("Le", "Lt", "Eq"))
            holds_lt = (sl == sa and sr == sb and op in ("Lt",)) or (sl == sb and sr == sa and op in ("Gt",))
            if not (holds_ge or holds_lt):
                continue
            reaches = cfg.reaches(fa.edge.node, [bb], strict=False)
            if holds_lt and reaches:
                return False
            if holds_ge and reaches and found is None:
                found = True
            # the complementary edge of the same switch must not reach the site
            for fb in edge_facts(f, sw):
                if fb.edge is fa.edge:
                    continue
                rb = rel_fact(fb)
                if rb is None:
                    continue
                opb = rb[0]
                lt_b = (show(peel(rb[1], calls=None, casts=False)) == sa and opb == "Lt") or \
                       (show(peel(rb[1], calls=None, casts=False)) == sb and opb == "Gt")
                if lt_b and cfg.reaches(fb.edge.node, [bb], strict=False):
                    return False
    return found


def w1(led, rid, ctx):
    p = ctx.bin
    n = 0
    for f in p.fns.values():
        if "/maxsat/" not in f.file or "/tests" in f.file:
            continue
        R = resolver(f)
        root = f.parent or f.defn
        short = root.rsplit("::", 2)[-2] + "::" + root.rsplit("::", 1)[-1] if root.count("::") >= 2 else root
        for b in f.blocks:
            if b.get("cleanup"):
                continue
            for s in b["stmts"]:
                if s["s"] != "assign" or s["rv"]["r"] != "binop" or s.get("exp"):
                    continue
                rv = s["rv"]
                if rv["op"].replace("WithOverflow", "") != "Sub" or rv["ty"] != "u64":
                    continue
                n += 1
                a = peel(R.operand(rv["a"]), calls=None, casts=False)
                c = peel(R.operand(rv["b"]), calls=None, casts=False)
                sa, sb = show(a), show(c)
                key = "%s:%s-%s" % (short, sa[:40], sb[:40])
                site = "%s:%d" % (f.file, s["line"])
                tbl = None
                for (fn_s, mark), why in W1_TABLE.items():
                    if root.endswith(fn_s) and mark in sb:
                        tbl = why
                if tbl:
                    led.ok(rid, key, site, "table: " + tbl)
                    continue
                g = weak_guarded(f, b["id"], sa, sb)
                if g:
                    led.ok(rid, key, site, "a comparison of the two quantities diverts the a < b case")
                    continue
                # one level up: the operands are a parameter and a field of self → every caller must
                # divert the a < b case before the call
                up = None
                if a.k == "arg" and g is None:
                    callers = p.callers.get(f.defn, [])
                    if callers:
                        up = True
                        for cc in callers:
                            cf = cc.fn
                            Rc = resolver(cf)
                            act = show(peel(Rc.operand(cc.args[a.a - 1]), calls=None, casts=False)) \
                                if a.a - 1 < len(cc.args) else None
                            fld = sb
                            if act is None or not weak_guarded(cf, cc.bb, act, fld):
                                up = False
                led.check(bool(up), rid, key, site, "every caller diverts the a < b case before the call",
                          "unsigned difference %s − %s without a comparison of the two that keeps the "
                          "`<` case away from it: for a bound below the constant term it underflows "
                          "(panic in debug builds, a huge bound in release builds)" % (sa, sb))
    led.floor(rid, "u64 differences in the MaxSAT code", n, 7)


# bound forms / steps argued correct by hand: key -> reason.  Empty on the pinned tree.
W_JUSTIFIED = {}


def w10(led, rid, ctx):
    """LSU-STEP: the linear search asks for a solution that is better by exactly one unit:
    constrain_at_most_k(best − 1).  Any larger step assumes something about which objective values
    exist (weights can be traded against each other, so not even the smallest weight is a lower
    bound on an improvement)."""
    p = ctx.bin
    ls = None
    for f in p.fns.values():
        if f.name == "solve" and (f.self_adt or "").endswith("LinearSearch"):
            ls = f
    if ls is None:
        raise AnchorMissing("LinearSearch::solve")
    R = resolver(ls)
    cs = ls.calls_named("constrain_at_most_k")
    if not cs:
        raise AnchorMissing("constrain_at_most_k in LinearSearch::solve")
    for c in cs:
        e = peel(R.operand(c.args[1]), calls=None)
        ok = e.k == "binop" and e.a.startswith("Sub") and peel(e.c, calls=None).k == "const" and peel(e.c, calls=None).a == 1 \
            and any(x.k == "call" and x.a.name == "evaluate_assignment" for x in e.b.walk())
        if not ok and "LinearSearch::solve" in W_JUSTIFIED:
            led.ok(rid, "step-is-one", c.span, "JUSTIFIED: " + W_JUSTIFIED["LinearSearch::solve"])
            continue
        led.check(ok, rid, "step-is-one", c.span, "constrain_at_most_k(evaluate_assignment(best) − 1)",
                  "the linear search tightens the bound to %s rather than to the incumbent's value minus one: an "
                  "improving solution whose value lies in the gap is never looked for and the incumbent is reported "
                  "as the optimum" % show(e)[:100])


def w11(led, rid, ctx):
    """WHO-MAY-DROP-SIGN: the sign of a DIMACS code is what distinguishes a literal from its negation;
    only the translation of a code to a solver literal (mapped_clause) looks at the absolute value.
    A test on clauses that is made on variables (duplicates, tautologies, canonical forms) confuses
    `x ∨ x` with `x ∨ ¬x`."""
    p = ctx.bin
    n = 0
    for f in p.fns.values():
        if "/parsers/" not in f.file and "/maxsat/" not in f.file:
            continue
        for c in f.calls:
            if c.name in ("unsigned_abs", "abs", "wrapping_abs", "checked_abs") and "NonZero<i32>" in ((c.term.get("arg_tys") or [""])[0] + (c.self_ty or "")) \
                    or (c.name in ("unsigned_abs", "abs") and "i32" in (c.self_ty or "") and "/parsers/dimacs" in f.file):
                n += 1
                root = (f.parent or f.defn)
                ok = root.endswith("::mapped_clause") or "::mapped_clause::" in f.defn
                led.check(ok, rid, "abs@%s" % root.rsplit("::", 1)[-1], c.span, "inside mapped_clause",
                          "%s takes the absolute value of a DIMACS code outside the code→literal translation: what it "
                          "computes is about variables, not literals (a clause that repeats a literal looks like a "
                          "tautology, `x` looks like a duplicate of `¬x`)" % root.rsplit("::", 1)[-1])
    led.floor(rid, "absolute values of DIMACS codes", n, 1)


def w12(led, rid, ctx):
    """ENCODER-BOUND: every right-hand side the pseudo-Boolean encoder hands on (create_encoder,
    strengthen_at_most_k) is the caller's k, or k minus the constant term — never rescaled: the
    encoder objects are built in three different state transitions and a scale that is applied in
    one of them only makes bound and weights disagree"""
    p = ctx.bin
    n = 0
    for f in p.fns.values():
        if "pseudo_boolean_constraint_encoder" not in f.file or "/tests" in f.file:
            continue
        R = None
        for c in f.calls:
            if c.name not in ("strengthen_at_most_k", "create_encoder") or len(c.args) < 2:
                continue
            if f.name == "create_encoder":
                continue
            R = R or resolver(f)
            e = peel(R.operand(c.args[1]), calls=None)
            n += 1
            ok = e.k == "arg" or (e.k == "binop" and e.a.startswith("Sub") and peel(e.b, calls=None).k == "arg"
                                  and "constant_term" in peel(e.c, calls=None).fields())
            key = "%s:%s" % (f.name, c.name)
            if not ok and key in W_JUSTIFIED:
                led.ok(rid, key, c.span, "JUSTIFIED: " + W_JUSTIFIED[key])
                continue
            led.check(ok, rid, key, c.span, show(e)[:60],
                      "%s hands the encoder the bound %s: the right-hand side is rescaled on this transition, "
                      "while the other transitions build or strengthen the encoder from unscaled values" % (f.name, show(e)[:80]))
    led.floor(rid, "bounds handed to the encoders", n, 3)


def w2(led, rid, ctx):
    p = ctx.bin
    ls = None
    for f in p.fns.values():
        if f.name == "solve" and (f.self_adt or "").endswith("LinearSearch"):
            ls = f
    if ls is None:
        raise AnchorMissing("LinearSearch::solve")
    n = 0
    for f in p.fns.values():
        for bb, i, s in aggregates(f, "MaxSatOptimisationResult", "Optimal"):
            n += 1
            root = f.parent or f.defn
            site = "%s:%d" % (f.file, s["line"])
            if root != ls.defn:
                led.bad(rid, "who:%s" % root, site, "MaxSatOptimisationResult::Optimal is constructed outside the linear search")
                continue
            why = None
            for g in guards_of(f, bb):
                if g.kind == "variant" and g.val == "Unsatisfiable":
                    why = "solve under the tightened bound is unsatisfiable"
                if g.kind == "bool" and g.val is True:
                    a = peel(g.atom, calls=None)
                    if a.k == "call" and a.a.name == "is_err" and a.b and \
                            any(c.name == "constrain_at_most_k" for c in a.b[0].calls()):
                        why = "the bound encoder reports an error"
                rf = rel_fact(g)
                if rf and rf[0] == "Eq":
                    txt = show(rf[1]) + show(rf[2])
                    if "get_constant_term" in txt:
                        why = "incumbent equals the constant term"
            led.check(why is not None, rid, "Optimal@%s" % (why or "?"), site, why,
                      "the linear search returns Optimal on a path that is none of: incumbent == "
                      "constant term, encoder error, unsatisfiable solve")
    led.floor(rid, "Optimal constructions", n, 3)
    # Unknown → Satisfiable(best); initial Unsatisfiable → Infeasible; initial Unknown → Unknown
    from .C11 import arms, region
    rows = {}
    for f in p.fns.values():
        if "/maxsat/optimisation/" not in f.file:
            continue
        for variant, edge, adt in arms(f, ("SatisfactionResult",)):
            built = rows.setdefault((f.name if not f.parent else f.parent.rsplit("::", 1)[-1],
                                     (f.self_adt or "").rsplit("::", 1)[-1], variant), set())
            for b in region(f, edge):
                for s in f.blocks[b]["stmts"]:
                    if s["s"] == "assign" and s["rv"]["r"] == "aggregate" and \
                            s["rv"]["adt"].endswith("MaxSatOptimisationResult"):
                        built.add(s["rv"]["variant"])
    want = {("solve", "LinearSearch", "Unknown"): {"Satisfiable"},
            ("solve", "LinearSearch", "Unsatisfiable"): {"Optimal"},
            ("solve", "OptimisationSolver", "Unsatisfiable"): {"Infeasible"},
            ("solve", "OptimisationSolver", "Unknown"): {"Unknown"}}
    for k, v in want.items():
        got = rows.get(k)
        led.check(got == v, rid, "row:%s::%s/%s" % (k[1], k[0], k[2]), None, "→ %s" % sorted(v),
                  "%s::%s maps %s to %s (expected %s)" % (k[1], k[0], k[2], sorted(got or []), sorted(v)))


def w3(led, rid, ctx):
    p = ctx.bin
    lib = ctx.lib
    f = None
    for x in p.fns.values():
        if x.name == "add_soft_clause" and (x.self_adt or "").endswith("SolverDimacsSink"):
            f = x
    if f is None:
        raise AnchorMissing("SolverDimacsSink::add_soft_clause")
    paths = [q for q in SymExec(f, max_paths=300).run() if not q.diverged]
    kinds = {}
    for q in paths:
        const = q.called("add_constant_term")
        wl = q.called("add_weighted_literal")
        newl = q.called("new_literal")
        addc = q.called("add_clause")
        if const and not wl and not newl:
            kinds.setdefault("empty", []).append(q)
        elif not const and not wl and not newl and not addc:
            kinds.setdefault("skip", []).append(q)
        elif wl and not newl and not addc:
            kinds.setdefault("unit", []).append(q)
        elif wl and newl and addc:
            kinds.setdefault("general", []).append(q)
        else:
            kinds.setdefault("other", []).append(q)
    led.check("other" not in kinds, rid, "no-other-shape", f.span, "", "add_soft_clause has a path that is "
              "none of empty / satisfied / unit / general")
    for k in ("empty", "unit", "general"):
        led.check(k in kinds, rid, "case:%s" % k, f.span, "", "add_soft_clause no longer handles the %s case" % k)
    # empty: guarded by is_empty; charges the weight as constant
    for q in kinds.get("empty", []):
        ok = any(c.k == "call" and c.a.name == "is_empty" and
                 (bool(v) if v is not None else (o is not None and len(o) == 1 and not bool(o[0])))
                 for c, v, o in q.conds)
        led.check(ok, rid, "empty:guard", f.span, "constant term only for an empty clause",
                  "the weight is added as a constant although the clause is not empty")
    # unit: add_weighted_literal(clause[0], w)   (cost when the literal is false)
    for q in kinds.get("unit", []):
        c, a, r = q.called("add_weighted_literal")[0]
        lit = a[1]
        ok = not any(x.name == "not" for x in lit.calls()) and "index" in [x.name for x in lit.calls()]
        led.check(ok, rid, "unit:charged-on-the-literal", c.span, "add_weighted_literal(clause[0], w)",
                  "a unit soft clause is charged on %s instead of the clause's own literal" % show(lit))
    # general: fresh literal appended to the clause; objective gets !soft
    for q in kinds.get("general", []):
        c, a, r = q.called("add_weighted_literal")[0]
        lit = a[1]
        ok = any(x.name == "not" for x in lit.calls()) and any(x.name == "new_literal" for x in lit.calls())
        led.check(ok, rid, "general:charged-on-not-soft", c.span, "add_weighted_literal(!soft, w)",
                  "the relaxation literal enters the objective with the wrong polarity")
        pushed = any(cc.name == "push" and any(x.name == "new_literal" for x in aa[1].calls())
                     for cc, aa, rr in q.calls if len(aa) > 1)
        led.check(pushed, rid, "general:soft-in-clause", f.span, "relaxation literal appended to the clause",
                  "the relaxation literal is not added to the clause")
    # Function sign convention
    g = lib.method("Function", "add_weighted_literal")
    R = resolver(g)
    ent = [c for c in g.calls if c.name == "entry"]
    ok = len(ent) == 1 and any(x.name == "not" for x in R.operand(ent[0].args[1]).calls())
    led.check(ok, rid, "function:stores-negated", g.span, "stores !literal",
              "Function::add_weighted_literal no longer stores the negated literal")
    for nm in ("evaluate_assignment", "evaluate_solution"):
        h = lib.method("Function", nm)
        ok = any(c.name == "get_literal_value" for c in h.calls) and \
            not any(c.name == "not" for c in h.calls)
        led.check(ok, rid, "function:%s-charges-stored-literal-when-true" % nm, h.span, "",
                  "Function::%s does not charge the stored literal's weight when it is true" % nm)


def loop_depth(f):
    cfg = f.cfg
    heads = cfg.loop_heads()
    depth = {}
    for b in range(cfg.n):
        d = 0
        for h in heads:
            if cfg.dominates(h, b) and cfg.reaches(b, [h], strict=True):
                d += 1
        depth[b] = d
    return depth


def w4(led, rid, ctx):
    p = ctx.bin
    n = 0
    for f in p.fns.values():
        if "/maxsat/" not in f.file or "/tests" in f.file:
            continue
        depth = None
        R = resolver(f)
        for b in f.blocks:
            if b.get("cleanup"):
                continue
            for s in b["stmts"]:
                if s["s"] != "assign" or not s["dst"]["proj"] or s["dst"]["local"] != 1:
                    continue
                names = [e.get("name") for e in s["dst"]["proj"] if "field" in e]
                if not names:
                    continue
                e = R.rvalue(s["rv"])
                e = peel(e, calls=None)
                if not (e.k == "binop" and e.a == "Add" and names[-1] in (e.b.fields() + e.c.fields())):
                    continue
                # a counter that is only ever incremented (statistics) is not an accumulator whose
                # value steers the computation: require another use of the field in this function
                used = False
                for b3 in f.blocks:
                    for s3 in b3["stmts"]:
                        if s3 is s or s3["s"] != "assign" or s3["rv"]["r"] != "binop":
                            continue
                        if s3["rv"]["op"].replace("WithOverflow", "") not in ("Sub", "Lt", "Le", "Gt", "Ge", "Eq", "Ne"):
                            continue
                        e3 = R.rvalue(s3["rv"])
                        if names[-1] in e3.fields() and not (
                                s3["dst"]["proj"] and [x.get("name") for x in s3["dst"]["proj"] if "field" in x] == names):
                            used = True
                if not used:
                    continue
                if depth is None:
                    depth = loop_depth(f)
                d = depth[b["id"]]
                # a snapshot of the field taken outside this loop is not the running value
                def field_read_depths(op, seen=0):
                    pl = op.get("copy") or op.get("move")
                    out = []
                    if not pl:
                        return out
                    if [x.get("name") for x in pl["proj"] if "field" in x] == names:
                        return [d]
                    if pl["proj"] or seen > 6:
                        return out
                    for df in f.whole_defs(pl["local"]):
                        if df[0] == "stmt" and df[3]["s"] == "assign":
                            rv2 = df[3]["rv"]
                            if rv2["r"] == "use":
                                pl2 = rv2["op"].get("copy") or rv2["op"].get("move")
                                if pl2 and [x.get("name") for x in pl2["proj"] if "field" in x] == names:
                                    out.append(depth[df[1]])
                                else:
                                    out += field_read_depths(rv2["op"], seen + 1)
                            elif rv2["r"] == "binop":
                                out += field_read_depths(rv2["a"], seen + 1) + field_read_depths(rv2["b"], seen + 1)
                    return out
                rv0 = s["rv"]
                reads = []
                if rv0["r"] == "binop":
                    reads = field_read_depths(rv0["a"]) + field_read_depths(rv0["b"])
                else:
                    pl0 = (rv0.get("op") or {}).get("copy") or (rv0.get("op") or {}).get("move")
                    if pl0:
                        for df in f.whole_defs(pl0["local"]):
                            if df[0] == "stmt" and df[3]["s"] == "assign" and df[3]["rv"]["r"] == "binop":
                                reads += field_read_depths(df[3]["rv"]["a"]) + field_read_depths(df[3]["rv"]["b"])
                if reads and all(r_ < d for r_ in reads):
                    led.ok(rid, "%s:%s=snapshot+" % ((f.parent or f.defn).rsplit("::", 1)[-1], names[-1]),
                           "%s:%d" % (f.file, s["line"]), "recomputed from a value of the field saved outside the loop")
                    continue
                n += 1
                key = "%s:%s+=" % ((f.parent or f.defn).rsplit("::", 1)[-1], names[-1])
                if d < 2:
                    # W4b: inside a loop, adding an aggregate (sum / fold / count) taken over a
                    # collection that the loop does not change adds the same total once per round
                    other = e.c if names[-1] in e.b.fields() else e.b
                    aggs = [x for x in other.walk() if x.k == "call" and x.a.name in ("sum", "fold", "count", "product")]
                    invariant = False
                    for x in aggs:
                        roots = [y for y in x.walk() if y.k == "arg"]
                        loopy = any(y.k == "call" and y.a.name == "next" for y in x.walk())
                        if roots and not loopy:
                            invariant = True
                    if d >= 1 and invariant:
                        led.bad(rid, key + ":aggregate-in-loop", "%s:%d" % (f.file, s["line"]),
                                "`self.%s +=` adds an aggregate over a whole collection inside a loop that "
                                "does not consume that collection: every further round adds the total again "
                                "(the bound derived from it becomes too strong and a non-optimal solution is "
                                "declared optimal)" % names[-1])
                        continue
                    led.ok(rid, key, "%s:%d" % (f.file, s["line"]), "accumulation at loop depth %d" % d)
                    continue
                # reset inside the outer loop?
                reset = False
                for b2 in f.blocks:
                    for s2 in b2["stmts"]:
                        if s2["s"] == "assign" and s2["dst"]["local"] == 1 and \
                                [x.get("name") for x in s2["dst"]["proj"] if "field" in x] == names and \
                                depth[b2["id"]] == d - 1 and s2 is not s:
                            reset = True
                led.check(reset, rid, key, "%s:%d" % (f.file, s["line"]),
                          "re-initialised in the enclosing loop",
                          "`self.%s +=` sits in an inner loop that the enclosing `while` re-enters over "
                          "the same terms: every further round adds the same weights again (double "
                          "counting)" % names[-1])
    led.count("W4:field accumulations", n)
    led.ok(rid, "scan", None, "%d accumulations into a field of self examined" % n)


def w5(led, rid, ctx):
    """after a failed hard clause the sink must not create variables (D14 assertion)"""
    p = ctx.bin
    hard = soft = None
    for x in p.fns.values():
        if (x.self_adt or "").endswith("SolverDimacsSink"):
            if x.name == "add_hard_clause":
                hard = x
            if x.name == "add_soft_clause":
                soft = x
    if hard is None or soft is None:
        raise AnchorMissing("SolverDimacsSink::add_hard_clause / add_soft_clause")
    news = [c for c in soft.calls if c.name in ("new_literal", "new_bounded_integer", "new_named_literal")]
    led.floor(rid, "variable creations in add_soft_clause", len(news), 1)
    # the result of add_clause in add_hard_clause is remembered …
    R = resolver(hard)
    remembered = False
    for c in hard.calls_named("add_clause"):
        if c.dst is None:
            continue
        for b in hard.blocks:
            t = b["term"]
            if t["t"] == "switch":
                e = R.operand(t["discr"])
                if any(x is c for x in e.calls()):
                    remembered = True
    for c in news:
        guarded = False
        for g in guards_of(soft, c.bb):
            if g.kind == "bool":
                a = peel(g.atom, calls=None)
                if (a.k == "proj" and a.fields()) or (a.k == "call" and a.a.name in (
                        "is_infeasible", "is_inconsistent", "is_err")):
                    guarded = True
        led.check(remembered and guarded, rid, "no-variable-after-infeasible-hard-clause", c.span,
                  "variable creation guarded by the remembered outcome of the hard clauses",
                  "add_soft_clause creates a relaxation literal although an earlier hard clause may "
                  "have made the solver infeasible (the outcome of add_clause is discarded): the solver "
                  "asserts `!is_inconsistent()` on variable creation and panics instead of printing "
                  "s UNSATISFIABLE")


def w6(led, rid, ctx):
    """the satisfaction test of a soft clause sees the clause as mapped: nothing is removed from it
    before"""
    p = ctx.bin
    soft = None
    for x in p.fns.values():
        if (x.self_adt or "").endswith("SolverDimacsSink") and x.name == "add_soft_clause":
            soft = x
    if soft is None:
        raise AnchorMissing("SolverDimacsSink::add_soft_clause")
    f = soft
    R = resolver(f)
    cfg = f.cfg
    tests = []
    for c in f.calls:
        if c.name in ("any", "all", "find", "position") and len(c.args) > 1:
            clo = [x for x in R.operand(c.args[1]).walk() if x.k == "closure"]
            for x in clo:
                g = p.fns.get(x.a)
                if g and any(cc.name == "get_literal_value" for cc in g.calls):
                    tests.append(c)
    if not tests:
        raise AnchorMissing("the satisfaction test (any(|l| value(l))) in add_soft_clause")
    REMOVERS = ("retain", "retain_mut", "truncate", "drain", "dedup", "dedup_by_key", "clear", "pop", "remove",
                "swap_remove", "split_off", "filter")
    n = 0
    for t in tests:
        n += 1
        src = R.operand(t.args[0])
        sel = [x.a.name for x in src.walk() if x.k == "call" and x.a.name in REMOVERS]
        L = root_local(f, t.args[0])
        roots = set()
        for x in src.walk():
            if x.k in ("local", "phi"):
                roots.add(x.a if x.k == "local" else x.b)
        if L is not None:
            roots.add(L)
        for c in f.calls:
            if c.name in REMOVERS and c.args and cfg.dominates(c.bb, t.bb) and c.bb != t.bb:
                e0 = peel(R.operand(c.args[0]), calls=None)
                same_value = e0.k == "call" and any(e0.a is y for y in src.calls())
                if root_local(f, c.args[0]) in roots or same_value:
                    sel.append(c.name)
        led.check(not sel, rid, "add_soft_clause:satisfied-test-sees-whole-clause", t.span,
                  "no element removed before the test",
                  "add_soft_clause applies `%s` to the clause before it tests whether the clause is already "
                  "satisfied at the root: a literal that is true there is dropped, the clause is relaxed (or "
                  "counted as violated) although it holds, and the reported optimum is too high"
                  % (sel[0] if sel else ""))
    led.floor(rid, "satisfaction tests in add_soft_clause", n, 1)


W7_TABLE = {
    ("strengthen_at_most_k", "weight"):
        "the root node's literals are sorted by weight and the loop only posts the unit clauses of the "
        "weights above the new bound, from the largest down: the first weight that fits ends the work",
}


def w7(led, rid, ctx):
    """a loop of an encoder that posts clauses is left only when its iterator is exhausted, on an
    error, or by a panic: no data-dependent early exit skips the remaining elements"""
    p = ctx.bin
    n = 0
    for f in p.fns.values():
        if "/maxsat/encoders/" not in f.file or "/tests" in f.file:
            continue
        adds = [c for c in f.calls if c.name == "add_clause"]
        if not adds:
            continue
        cfg = f.cfg
        R = resolver(f)
        heads = cfg.loop_heads()
        rets = cfg.returns
        for h in sorted(heads):
            latches = [u for u in cfg.pred.get(h, []) if cfg.dominates(h, u)]
            L = {x for x in range(cfg.total) if cfg.dominates(h, x) and
                 (x == h or any(cfg.reaches(x, [u], avoid=[h], strict=False) for u in latches))}
            # clauses posted inside the loop, or on a path that leaves it (post-and-break)
            region = [c for c in adds if c.bb in L or (cfg.dominates(h, c.bb) and not cfg.dominates(c.bb, h))]
            if not any(c.bb in L for c in adds):
                # no clause inside the loop proper: only interesting if one is posted on an exit path
                pass
            if not region:
                continue
            n += 1
            for u in sorted(L):
                for v in cfg.succ.get(u, []):
                    if v in L:
                        continue
                    src = u if u < cfg.n else next(e.src for es in cfg.edges.values() for e in es if e.node == u)
                    t = f.blocks[src]["term"]
                    if t["t"] != "switch":
                        if t["t"] == "call" and v != t.get("target"):
                            continue
                        if not cfg.reaches(v, rets, strict=False) or _error_exit(f, v):
                            continue
                        led.bad(rid, "%s:loop%d:unconditional-exit" % (f.name, sorted(heads).index(h)),
                                "%s:%d" % (f.file, f.blocks[src]["line"]),
                                "%s jumps out of a clause-posting loop unconditionally" % f.name)
                        continue
                    cond = peel(R.operand(t["discr"]), calls=None)
                    if cond.k == "discr" and any(c.name == "next" for c in cond.calls()):
                        continue
                    if cond.k == "call" and cond.a.name in ("is_err", "is_none", "is_some", "is_ok") :
                        if not cfg.reaches(v, rets, strict=False) or _error_exit(f, v) or cond.a.name == "is_err":
                            continue
                    if not cfg.reaches(v, rets, strict=False) or _error_exit(f, v):
                        continue
                    if cond.k in ("phi", "local", "const"):
                        continue       # `while flag` header
                    # does a clause get posted in this loop at all / on this exit path?
                    flds = sorted({q for x in cond.walk() for q in (x.fields() if x.k == "proj" else [])})
                    key = (f.name, flds[-1] if flds else show(cond)[:30])
                    why = W7_TABLE.get(key)
                    led.check(why is not None, rid, "%s:loop%d:exit-on-%s" % (f.name, sorted(heads).index(h), key[1]),
                              "%s:%d" % (f.file, f.blocks[src]["line"]), "table: %s" % why,
                              "%s leaves a loop that posts encoding clauses on the data-dependent test `%s` "
                              "before its iterator is exhausted: the clauses of the remaining elements are "
                              "never posted (totaliser sum literals are not monotone, the dropped clauses "
                              "are not implied), so the encoding admits assignments that exceed the bound"
                              % (f.name, show(cond)[:90]))
    led.floor(rid, "clause-posting loops in the encoders", n, 8)


def _error_exit(f, v):
    """does control from v reach the return only with an Err aggregate / a panic?"""
    cfg = f.cfg
    seen = set()
    work = [v]
    while work:
        x = work.pop()
        if x in seen:
            continue
        seen.add(x)
        if x < cfg.n:
            for st in f.blocks[x]["stmts"]:
                if st["s"] == "assign" and st["rv"]["r"] == "aggregate" and st["rv"].get("variant") == "Err":
                    return True
            if len(seen) > 12:
                return False
        work.extend(cfg.succ.get(x, []))
    return False


def w3b(led, rid, ctx):
    """the objective function accumulates: a term added for a literal that already has a weight is
    added to it"""
    lib = ctx.lib
    n = 0
    for name, param in (("add_weighted_literal", "weight"), ("add_constant_term", "value"),
                        ("add_weighted_integer", "weight")):
        f = lib.method("Function", name, required=False) if "required" in lib.method.__code__.co_varnames else None
        if f is None:
            try:
                f = lib.method("Function", name)
            except AnchorMissing:
                continue
        n += 1
        R = resolver(f)
        plocal = None
        for a in f.args:
            if f.local_name(a["local"]) == param:
                plocal = a["local"]
        adds = False
        for b in f.blocks:
            for st in b["stmts"]:
                if st["s"] == "assign" and st["rv"]["r"] == "binop" and st["rv"]["op"].startswith("Add"):
                    e = R.rvalue(st["rv"])
                    if any(x.k == "arg" and x.a == plocal for x in e.walk()):
                        adds = True
        for c in f.calls:
            if c.name == "add_assign":
                adds = True
        led.check(adds, rid, "Function::%s:accumulates" % name, f.span, "`+= %s`" % param,
                  "Function::%s does not add `%s` to what is already stored: a second soft clause on the same "
                  "literal (or a second constant) loses its weight and the reported optimum is too low" % (name, param))
    led.floor(rid, "objective accumulators", n, 2)


def w8(led, rid, ctx):
    """PB preprocessing fixes an objective literal to false only when its weight alone exceeds the
    remaining budget: guard ⇒ weight + constant_term > k (decided on a window)"""
    import itertools
    from ..predalg import ev, Unknown
    p = ctx.bin
    f = None
    for x in p.fns.values():
        if x.name == "initialise_and_preprocess" and "/maxsat/encoders/" in x.file:
            f = x
    if f is None:
        raise AnchorMissing("initialise_and_preprocess")
    R = resolver(f)
    n = 0
    OPS = {"Lt": lambda a, b: a < b, "Le": lambda a, b: a <= b, "Gt": lambda a, b: a > b, "Ge": lambda a, b: a >= b}
    for c in f.calls_named("add_clause"):
        for g in guards_of(f, c.bb):
            rf = rel_fact(g)
            if not rf or rf[0] not in OPS:
                continue
            fl = set(rf[1].fields()) | set(rf[2].fields())
            if "weight" not in fl or "constant_term" not in fl:
                continue
            n += 1
            bad = None
            try:
                for w, k, ct in itertools.product(range(0, 7), range(0, 7), range(0, 7)):
                    if ct > k:
                        continue

                    def leaf(x):
                        x = peel(x, calls=None)
                        fs = list(x.fields()) if x.k == "proj" else []
                        if fs and fs[-1] == "weight":
                            return w
                        if fs and fs[-1] == "constant_term":
                            return ct
                        if x.k == "arg":
                            return k
                        return None
                    gv = OPS[rf[0]](ev(rf[1], leaf), ev(rf[2], leaf))
                    if gv and not (w + ct > k):
                        bad = "weight %d, constant term %d, bound %d" % (w, ct, k)
                        break
            except Unknown as u:
                bad = "an expression the rule cannot evaluate (%s)" % u
            led.check(bad is None, rid, "preprocess:fixes-only-overweight-literals", c.span,
                      "guard ⇒ weight + constant_term > k",
                      "initialise_and_preprocess fixes an objective literal to false under `%s %s %s`, which "
                      "holds for %s although the literal fits into the bound: solutions of cost exactly k are "
                      "cut off and a non-optimal solution is declared optimal"
                      % (show(rf[1])[:40], rf[0], show(rf[2])[:50], bad))
    led.floor(rid, "root fixings in PB preprocessing", n, 1)


def w9(led, rid, ctx):
    """the `--time-limit` option (documented in milliseconds) reaches the solvers through
    Duration::from_millis"""
    import json
    p = ctx.bin
    n = 0
    for f in p.fns.values():
        if not f.file.endswith("bin/pumpkin-solver/main.rs") or "/tests" in f.file:
            continue
        for g in f.with_closures():
            R = resolver(g)
            for c in g.calls:
                if c.name != "map" or len(c.args) < 2:
                    continue
                recv = R.operand(c.args[0])
                if "time_limit" not in recv.fields():
                    continue
                n += 1
                conv = show(R.operand(c.args[1]))
                led.check("from_millis" in conv, rid, "time-limit-in-milliseconds", c.span, "Duration::from_millis",
                          "the time limit is converted with %s: the budget handed to the search is off by a factor "
                          "of 1000 and the solver stops (or never stops) long before the user's limit" % conv[:60])
    led.floor(rid, "conversions of the --time-limit option", n, 1)


def run(ctx, led):
    run_rule(led, "W1", "GUARDED-SUB over the MaxSAT code (weak form, one call level, table for "
             "arithmetic arguments)", w1, ctx)
    run_rule(led, "W2", "Optimal only on {incumbent == constant term, encoder error, unsatisfiable}; "
             "interrupted → Satisfiable(best); result rows of the two solve functions", w2, ctx)
    run_rule(led, "W3", "soft clause → objective TABLE and the sign convention of Function", w3, ctx)
    run_rule(led, "W4", "no accumulation into a field inside a re-entered inner loop without a reset "
             "in the enclosing loop", w4, ctx)
    run_rule(led, "W5", "no variable is created after a hard clause failed", w5, ctx)
    run_rule(led, "W6", "the root-satisfaction test of a soft clause sees the whole mapped clause", w6, ctx)
    run_rule(led, "W7", "encoder loops that post a clause per element do not stop after posting one", w7, ctx)
    run_rule(led, "W3b", "the objective Function accumulates weights per literal and constants", w3b, ctx)
    run_rule(led, "W8", "PB preprocessing only fixes literals whose weight alone exceeds the remaining budget", w8, ctx)
    from . import kernel as _kernel
    _kernel.run_bundle(led, ctx, "W")
    from . import kernel as _kernel4
    _kernel4.run_lifecycle(led, ctx, "W")
    run_rule(led, "W10", "LSU-STEP: the linear search tightens the bound by exactly one", w10, ctx)
    run_rule(led, "W11", "WHO-MAY-DROP-SIGN: only the code→literal translation takes the absolute value of a DIMACS code", w11, ctx)
    run_rule(led, "W12", "ENCODER-BOUND: right-hand sides handed to the encoders are k or k − constant term on every state transition", w12, ctx)
    from . import C14 as _C14
    run_rule(led, "W13", "every hard clause reaches the solver; status lines only inside the arms of the solve result (shared with C14-G8)", _C14.g8, ctx)
    run_rule(led, "W9", "the time limit is interpreted in milliseconds", w9, ctx)

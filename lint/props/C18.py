"""C18 — built-in branchers propose only undecided decisions and cover all variables."""
import re

from ..main import run_rule
from ..flow import (resolver, peel, root_local, guards_of, call_guarded, rel_fact, aggregates, show,
                    edge_facts, E)
from ..facts import AnchorMissing, op_const_int

LEVEL = ('decides the structural discipline of the branching module: every variable selector tests '
         'fixedness before proposing (N1); the VSIDS search returns a predicate only on the unassigned'
         ' edge (N2); every wrapper forwards every event hook its wrapped trait offers, computed from '
         'the trait declarations (N3); an event hook with an effect is declared in subscribe_to_events'
         " and wrappers chain their children's declarations; the dynamic brancher dispatches each hook"
         ' through its own tag (N4); the autonomous search falls back while variables are unassigned '
         'and the dynamic brancher gives up only after every child (N5); tie-breakers reset on select '
         '(N6); the sparse-set protocol used by the random selector is honoured by the container (N7);'
         " every value selector's predicate has one of the confirmed undecided shapes (N8). "
         'Assignments::evaluate_predicate, by which decidedness is judged, is exact on every domain '
         'shape of a 5-value universe (N10). ProportionalDomainSize indexes its variables only through'
         ' the weight→variable map (N11 INDEX-SPACE). SparseSet insert/remove keep the index map '
         'consistent on every path (N7b); view contains applies the inverse map (N12 = C12-V1d); life-'
         'cycle bundle (NL<n>). Selectors with a tie-breaker leave only through its select (N13 MUST-'
         'PASS). Does not decide undecidedness for every domain shape')
TECHNIQUE = "static analysis: FORWARD-ALL / OVERRIDE⇒DECLARE sibling rules, dominance and shape tables over rustc MIR"

TRAITS = {"Brancher": "branching::brancher::Brancher",
          "VariableSelector": "branching::variable_selection::variable_selector::VariableSelector",
          "ValueSelector": "branching::value_selection::value_selector::ValueSelector"}
# which_trait also recognises the propagator trait so that C09 can reuse the FORWARD-ALL helpers
ALL_TRAITS = dict(TRAITS, Propagator="engine::cp::propagation::propagator::Propagator")
OBSERVATIONAL = {"log_statistics"}
EVENT_OF = {"on_conflict": "Conflict", "on_backtrack": "Backtrack", "on_solution": "Solution",
            "on_unassign_integer": "UnassignInteger",
            "on_appearance_in_conflict_predicate": "AppearanceInConflictPredicate",
            "on_restart": "Restart", "synchronise": "Synchronise"}


def trait_of(lib, short):
    for p, t in lib.traits.items():
        if p.endswith("::" + short):
            return t
    raise AnchorMissing("trait " + short)


def trait_methods(lib, short):
    return {it["name"]: it for it in trait_of(lib, short)["items"] if it["kind"] == "fn"}


def impls(lib, short):
    out = []
    for imp in lib.impls:
        if (imp.get("trait") or "").endswith("::" + short):
            if "/tests" in imp["span"]:
                continue
            out.append(imp)
    return out


def which_trait(path):
    for s in ALL_TRAITS:
        if path and path.endswith("::" + s):
            return s
    return None


def self_field(fn, operand):
    """name of the field of `self` a receiver operand is rooted at (None if not a field of self)"""
    e = peel(resolver(fn).operand(operand), calls=None)
    # walk through index / deref_mut / iter adaptors to the field
    seen = 0
    while e is not None and seen < 8:
        seen += 1
        if e.k == "proj":
            names = [p.get("name") for p in e.b if "field" in p and p.get("name")]
            base = peel(e.a, calls=None)
            if base.k == "arg" and base.a == 1 and names:
                return names[0]
            e = base
            continue
        if e.k == "call" and e.b:
            e = peel(e.b[0], calls=None)
            continue
        break
    return None


def children(lib, imp):
    """{field: wrapped trait short name} — fields of self on which a method of one of the three
    branching traits is invoked anywhere in the impl (that is what makes the type a wrapper)"""
    out = {}
    for it in imp["items"]:
        f = lib.fns.get(it["def"])
        if f is None:
            continue
        for g in f.with_closures():
            for c in g.calls:
                t = which_trait(c.trait)
                if t is None or not c.args:
                    continue
                if g is f:
                    fld = self_field(g, c.args[0])
                    if fld:
                        out.setdefault(fld, t)
    return out


def forwards(lib, f, method, trait_short, field, field_ty):
    """does f (incl. closures) call trait_short::method on the child stored in `field`?"""
    for g in f.with_closures():
        for c in g.calls:
            if c.name != method or which_trait(c.trait) != trait_short or not c.args:
                continue
            if g is f:
                fld = self_field(g, c.args[0])
                if fld == field:
                    return True
                if fld is None:
                    # receiver produced by iterating the field (for child in self.children.iter_mut())
                    e = resolver(g).operand(c.args[0])
                    if field in e.fields():
                        return True
                    st = c.self_ty or ""
                    if st and st in (field_ty or ""):
                        return True
            else:
                # inside a closure: match by the receiver's static type against the field's type
                st = c.self_ty or ""
                if st and (st in (field_ty or "") or (field_ty or "") in st):
                    return True
    return False


QUERIES = {"is_restart_pointless": "a query the wrapper may answer itself (e.g. the VSIDS search "
                                   "always benefits from restarts), not an event"}


def raised_hooks(lib):
    """(trait short, method) pairs that somebody other than a same-named forwarding
    implementation actually calls — the computed event set"""
    out = set()
    for f in lib.fns.values():
        own = f.trait_method or ""
        root = lib.fns.get(f.parent) if f.parent else f
        own_name = (root.trait_method or "").rsplit("::", 1)[-1] if root is not None else ""
        own_trait = which_trait((root.impl_trait or "")) if root is not None else None
        for c in f.calls:
            t = which_trait(c.trait)
            if t is None:
                continue
            if own_name == c.name and own_trait == t:
                continue      # forwarding inside an implementation of the same hook
            out.add((t, c.name))
    return out


def dynamic_brancher_collects(lib):
    ok = True
    for name in ("new", "add_brancher"):
        f = lib.method("DynamicBrancher", name)
        found = False
        for g in f.with_closures():
            for c in g.calls:
                if c.name == "subscribe_to_events" and which_trait(c.trait) == "Brancher":
                    found = True
        ok = ok and found
    return ok


def n3(led, rid, ctx):
    lib = ctx.lib
    n_wrappers = 0
    n_rows = 0
    raised = raised_hooks(lib)
    for tshort in TRAITS:
        tm = trait_methods(lib, tshort)
        for imp in impls(lib, tshort):
            ch = children(lib, imp)
            if not ch:
                continue
            n_wrappers += 1
            adt = lib.find_adt(imp["self_adt"]) if imp.get("self_adt") else None
            ftypes = {}
            if adt:
                for v in adt["variants"]:
                    for fld in v["fields"]:
                        ftypes[fld["name"]] = fld["ty"]
            own = {it["name"]: lib.fns.get(it["def"]) for it in imp["items"] if it["kind"] == "fn"}
            wname = (imp.get("self_adt") or "?").rsplit("::", 1)[-1]
            for field, ct in sorted(ch.items()):
                cm = trait_methods(lib, ct)
                for m, item in sorted(tm.items()):
                    if m in OBSERVATIONAL or m not in cm:
                        continue
                    # the primary operation is checked by other rules; hooks are the event set
                    if not item["has_default"] and m != "subscribe_to_events":
                        continue
                    if m in QUERIES:
                        continue
                    if (ct, m) not in raised:
                        led.note("hook %s::%s is never raised by the engine or a brancher: it imposes "
                                 "no forwarding obligation" % (ct, m))
                        continue
                    n_rows += 1
                    key = "%s.%s:%s" % (wname, field, m)
                    if wname == "DynamicBrancher" and m == "subscribe_to_events":
                        # the dispatcher caches its children's subscriptions when they are added
                        ok = dynamic_brancher_collects(lib)
                        led.check(ok, rid, key, imp["span"], "children's subscriptions are collected "
                                  "in new() and add_brancher()", "DynamicBrancher no longer collects "
                                  "its children's subscriptions when they are added")
                        continue
                    f = own.get(m)
                    if f is None:
                        led.bad(rid, key, imp["span"],
                                "%s wraps a %s in `%s` but does not override `%s`: the trait default "
                                "(a no-op) swallows the event, the wrapped %s never sees it"
                                % (wname, ct, field, m, ct))
                        continue
                    ok = forwards(lib, f, m, ct, field, ftypes.get(field))
                    led.check(ok, rid, key, f.span, "forwards to %s.%s" % (field, m),
                              "%s::%s never reaches `%s.%s`: the wrapped %s misses the event"
                              % (wname, m, field, m, ct))
    led.floor(rid, "wrappers", n_wrappers, 6)
    led.floor(rid, "forwarding rows", n_rows, 30)


def has_effect(f):
    """writes a field of self, or calls something with a &mut borrow rooted at self"""
    for g in f.with_closures():
        for b in g.blocks:
            if b.get("cleanup"):
                continue
            for s in b["stmts"]:
                if s["s"] == "assign" and s["dst"]["proj"] and "deref" in s["dst"]["proj"][0] and g is f \
                        and s["dst"]["local"] == 1:
                    return True
                if s["s"] == "assign" and s["rv"]["r"] == "ref" and s["rv"].get("mut"):
                    pl = s["rv"]["place"]
                    if pl["local"] == 1 and any("field" in e for e in pl["proj"]) and g is f:
                        return True
        if g is not f:
            for c in g.calls:
                if any(t.startswith("&mut ") for t in c.term.get("arg_tys", [])[:1]):
                    return True
    return False


def declared_events(lib, f):
    """BrancherEvent variants constructed in subscribe_to_events (own declarations) and whether it
    chains a child's subscribe_to_events per field"""
    ev = set()
    chained = set()
    for g in f.with_closures():
        for bb, i, s in aggregates(g, "BrancherEvent"):
            ev.add(s["rv"]["variant"])
        for c in g.calls:
            if c.name == "subscribe_to_events" and c.args and g is f:
                fld = self_field(g, c.args[0])
                if fld:
                    chained.add(fld)
                else:
                    e = resolver(g).operand(c.args[0])
                    for x in e.fields():
                        chained.add(x)
    return ev, chained


def n4(led, rid, ctx):
    lib = ctx.lib
    n = 0
    for tshort in TRAITS:
        for imp in impls(lib, tshort):
            own = {it["name"]: lib.fns.get(it["def"]) for it in imp["items"] if it["kind"] == "fn"}
            sub = own.get("subscribe_to_events")
            wname = (imp.get("self_adt") or "?").rsplit("::", 1)[-1]
            if sub is None:
                continue
            ev, chained = declared_events(lib, sub)
            ch = children(lib, imp)
            for field in sorted(ch):
                n += 1
                if wname == "DynamicBrancher":
                    led.check(dynamic_brancher_collects(lib), rid, "%s:chains:%s" % (wname, field), sub.span,
                              "subscriptions collected when children are added", "DynamicBrancher no "
                              "longer collects its children's subscriptions")
                    continue
                led.check(field in chained, rid, "%s:chains:%s" % (wname, field), sub.span,
                          "chains %s.subscribe_to_events()" % field,
                          "%s::subscribe_to_events does not include the events of its child `%s`: a "
                          "dispatcher that filters by subscription will never deliver them" % (wname, field))
            if wname == "DynamicBrancher":
                continue   # dispatcher: checked by its own table below
            for m, event in EVENT_OF.items():
                f = own.get(m)
                if f is None or not has_effect(f):
                    continue
                # an effect that is only the forwarding to children is covered by the chaining
                only_forward = bool(ch) and all(
                    (c.name == m and which_trait(c.trait)) or c.callee.get("local") is False or True
                    for c in f.calls) and not writes_own_state(f, set(ch))
                if only_forward:
                    continue
                n += 1
                led.check(event in ev, rid, "%s:declares:%s" % (wname, event), f.span,
                          "%s changes the implementor's state and %s is declared" % (m, event),
                          "%s::%s changes its own state but subscribe_to_events does not return "
                          "BrancherEvent::%s" % (wname, m, event))
    led.floor(rid, "declaration rows", n, 12)
    # DynamicBrancher: method m dispatches through relevant_event_to_index[tag(m)]
    rows = 0
    for imp in impls(lib, "Brancher"):
        if not (imp.get("self_adt") or "").endswith("::DynamicBrancher"):
            continue
        for it in imp["items"]:
            m = it["name"]
            if m not in EVENT_OF:
                continue
            f = lib.fns.get(it["def"])
            tags = set()
            for g in f.with_closures():
                for bb, i, s in aggregates(g, "BrancherEvent"):
                    tags.add(s["rv"]["variant"])
            rows += 1
            led.check(tags == {EVENT_OF[m]}, rid, "DynamicBrancher:%s->%s" % (m, "/".join(sorted(tags)) or "-"),
                      f.span, "dispatches through its own tag",
                      "DynamicBrancher::%s selects its children with the tag %s instead of %s"
                      % (m, sorted(tags), EVENT_OF[m]))
    led.floor(rid, "dispatcher rows", rows, 6)


def n4b(led, rid, ctx):
    """DynamicBrancher registration: every subscribed event of a child maps to the child's index"""
    lib = ctx.lib
    for name in ("new", "add_brancher"):
        f = lib.method("DynamicBrancher", name)
        n = 0
        for g in f.with_closures():
            R = resolver(g)
            for c in g.calls:
                if c.name != "push" or not c.args:
                    continue
                e = R.operand(c.args[0])
                if "relevant_event_to_index" not in e.fields() and \
                        not any("relevant_event_to_index" in (x.b[0].fields() if x.b else []) for x in e.walk() if x.k == "call"):
                    # inside the closure of new() the map is a captured local
                    if not any(x.name in ("index_mut",) for x in e.calls()):
                        continue
                    tys = " ".join(c.term.get("arg_tys", []))
                    if "Vec<usize>" not in tys:
                        continue
                n += 1
                cond = [fa for fa in guards_of(g, c.bb) if fa.kind == "bool" and
                        peel(fa.atom, calls=None).k == "call" and peel(fa.atom, calls=None).a.name == "contains"]
                led.check(not cond, rid, "DynamicBrancher::%s:index-registered-for-every-event" % name, c.span,
                          "the child's index is recorded for each of its events unconditionally",
                          "DynamicBrancher::%s records the child's index only when the event is new to the "
                          "dispatcher: a child that shares an event with an earlier child never receives "
                          "it" % name)
        led.check(n >= 1, rid, "DynamicBrancher::%s:registers" % name, f.span, "",
                  "DynamicBrancher::%s no longer records which child subscribed to which event" % name)


def n9(led, rid, ctx):
    """a hook of a (non-wrapping) selector that restores state does so on every path"""
    lib = ctx.lib
    n = 0
    for t in TRAITS:
        for imp in impls(lib, t):
            if children(lib, imp):
                continue
            own = {it["name"]: lib.fns.get(it["def"]) for it in imp["items"] if it["kind"] == "fn"}
            w = (imp["self_adt"] or "?").rsplit("::", 1)[-1]
            for m in EVENT_OF:
                f = own.get(m)
                if f is None or not has_effect(f):
                    continue
                eff = set()
                for b in f.blocks:
                    if b.get("cleanup"):
                        continue
                    for s in b["stmts"]:
                        if s["s"] == "assign" and s["dst"]["proj"] and s["dst"]["local"] == 1:
                            eff.add(b["id"])
                    t_ = b["term"]
                    if t_["t"] == "call" and t_.get("arg_tys") and t_["arg_tys"][0].startswith("&mut "):
                        eff.add(b["id"])
                cfg = f.cfg
                n += 1
                ok = all(not cfg.reaches(0, [r], avoid=eff, strict=False) for r in cfg.returns)
                led.check(ok, rid, "%s::%s" % (w, m), f.span, "restores its state on every path",
                          "%s::%s has a path that returns without updating the selector's state: "
                          "variables unfixed by that backtrack are never offered again" % (w, m))
    led.floor(rid, "restoring hooks", n, 2)


def writes_own_state(f, child_fields):
    """does f write a field of self other than through a child?"""
    for b in f.blocks:
        if b.get("cleanup"):
            continue
        for s in b["stmts"]:
            if s["s"] == "assign" and s["dst"]["local"] == 1 and s["dst"]["proj"]:
                names = [e.get("name") for e in s["dst"]["proj"] if "field" in e]
                if names and names[0] not in child_fields:
                    return True
    R = resolver(f)
    for c in f.calls:
        tys = c.term.get("arg_tys", [])
        if tys and tys[0].startswith("&mut ") and c.args:
            fld = self_field(f, c.args[0])
            if fld and fld not in child_fields:
                return True
            e = peel(R.operand(c.args[0]), calls=None)
            if e.k == "arg" and e.a == 1 and c.callee.get("local") and not which_trait(c.trait):
                return True   # calls a &mut self helper of its own
    return False


FIXED_TESTS = ("is_integer_fixed", "is_predicate_assigned", "is_fixed")


def n1(led, rid, ctx):
    lib = ctx.lib
    n = 0
    for imp in impls(lib, "VariableSelector"):
        own = {it["name"]: lib.fns.get(it["def"]) for it in imp["items"] if it["kind"] == "fn"}
        f = own.get("select_variable")
        if f is None:
            continue
        wname = (imp.get("self_adt") or "?").rsplit("::", 1)[-1]
        var = (imp.get("trait_ref") or "")
        key = "%s<%s>" % (wname, "Literal" if "Literal" in var else "DomainId" if "DomainId" in var else "?")
        if children(lib, imp):
            continue
        n += 1
        tests = []
        for g in f.with_closures():
            for c in g.calls:
                if c.name in FIXED_TESTS:
                    tests.append((g, c))
        if not tests:
            led.bad(rid, key, f.span, "%s::select_variable never tests whether a variable is fixed "
                    "before proposing it" % wname)
            continue
        ok = True
        detail = []
        for g, c in tests:
            if g is f:
                # a branch on the test inside a loop: the fixed edge must not lead to a proposal;
                # accepted shape: the call result feeds a SwitchInt
                used = any(b["term"]["t"] == "switch" for b in g.blocks)
                detail.append("branch on %s" % c.name)
                ok = ok and used
            else:
                # closure predicate for filter/find: must return !fixed
                R = resolver(g)
                r = R.local(0)
                nots = 0
                e = r
                while e.k == "unop" and e.a == "Not":
                    nots += 1
                    e = e.b
                e = peel(e, calls=None)
                if e.k == "call" and e.a is c:
                    detail.append("closure returns %s%s" % ("!" * nots, c.name))
                    if g.defn.rsplit("::", 1)[-1].startswith("{closure") and nots % 2 == 0:
                        # all(..fixed..) style assertions are not selection filters: only flag
                        # closures that are handed to filter / find / position
                        user = [u for u in f.calls for a in u.args
                                if resolver(f).operand(a).k == "closure" and resolver(f).operand(a).a == g.defn]
                        if any(u.name in ("filter", "find", "position", "skip_while", "take_while") for u in user):
                            ok = False
                            detail[-1] += " [selects FIXED variables]"
        led.check(ok, rid, key, f.span, "; ".join(detail),
                  "%s::select_variable: %s" % (wname, "; ".join(detail)))
    led.floor(rid, "variable selectors", n, 11)


def n2(led, rid, ctx):
    lib = ctx.lib
    f = lib.method("AutonomousSearch", "next_candidate_predicate")
    somes = aggregates(f, "Option", "Some")
    led.floor(rid, "Some returns", len(somes), 1)
    for bb, i, s in somes:
        if s["dst"]["local"] != 0:
            continue
        ok = call_guarded(f, bb, "is_predicate_assigned", False) is not None
        led.check(ok, rid, "Some-only-if-unassigned", "%s:%d" % (f.file, s["line"]),
                  "Some(predicate) on the false edge of is_predicate_assigned",
                  "next_candidate_predicate can return a predicate without having seen that it is "
                  "unassigned")
    g = lib.method("AutonomousSearch", "determine_polarity")
    # returns the predicate or its negation only
    R = resolver(g)
    ok = True
    for d in g.defs.get(0, []):
        if d[0] == "stmt":
            e = peel(R.rvalue(d[3]["rv"]), calls=None)
            ok = ok and (e.k == "arg" and e.a == 2)
        elif d[0] == "call":
            c = d[2]
            ok = ok and c.name == "not" and root_local(g, c.args[0]) == 2
    led.check(ok, rid, "polarity-is-p-or-not-p", g.span, "returns predicate or !predicate",
              "determine_polarity returns something other than the candidate or its negation")


def n5(led, rid, ctx):
    lib = ctx.lib
    f = lib.method("AutonomousSearch", "next_decision", "Brancher")
    backups = [c for c in f.calls if c.name == "next_decision" and self_field(f, c.args[0]) == "backup_brancher"]
    led.check(len(backups) == 1, rid, "backup-called", f.span, "", "the autonomous search never "
              "consults its backup brancher")
    for c in backups:
        g1 = call_guarded(f, c.bb, "is_none", True)
        g2 = call_guarded(f, c.bb, "are_all_variables_assigned", False)
        led.check(g1 is not None and g2 is not None, rid, "backup-when-none-and-unassigned", c.span,
                  "backup consulted when no candidate and some variable unassigned",
                  "the backup brancher is not consulted exactly when there is no candidate predicate "
                  "and some variable is still unassigned")
    # the non-backup return is the candidate (possibly None) — None is returned only when all assigned
    # DynamicBrancher: None only after every child
    d = lib.method("DynamicBrancher", "next_decision", "Brancher")
    nones = [x for x in aggregates(d, "Option", "None") if x[2]["dst"]["local"] == 0]
    led.check(len(nones) >= 1, rid, "dynamic-none", d.span, "", "DynamicBrancher::next_decision never returns None")
    for bb, i, s in nones:
        ok = False
        for g in guards_of(d, bb):
            rf = rel_fact(g)
            if rf is None:
                continue
            op, l, r = rf
            txt = show(l) + " " + show(r)
            if op in ("Ge", "Gt", "Eq") and "brancher_index" in txt and "branchers" in txt:
                ok = True
            if op in ("Le", "Lt") and "brancher_index" in show(r) and "branchers" in show(l):
                ok = True
        led.check(ok, rid, "dynamic-none-after-all-children", "%s:%d" % (d.file, s["line"]),
                  "None only when brancher_index ≥ number of children",
                  "DynamicBrancher gives up before having asked every child")
    incs = 0
    for b in d.blocks:
        for s in b["stmts"]:
            if s["s"] == "assign" and s["rv"]["r"] == "binop" and s["rv"]["op"].startswith("Add") and \
                    op_const_int(s["rv"]["b"]) == 1:
                incs += 1
    led.check(incs >= 1, rid, "dynamic-advances-by-one", d.span, "", "DynamicBrancher no longer advances child by child")


def n6(led, rid, ctx):
    lib = ctx.lib
    n = 0
    for imp in lib.impls:
        if not (imp.get("trait") or "").endswith("::TieBreaker"):
            continue
        own = {it["name"]: lib.fns.get(it["def"]) for it in imp["items"] if it["kind"] == "fn"}
        f = own.get("select")
        if f is None:
            continue
        n += 1
        wname = (imp.get("self_adt") or "?").rsplit("::", 1)[-1]
        resets = f.calls_named("reset")
        ok = bool(resets) and any(all(f.cfg.dominates(c.bb, r) for r in f.cfg.returns) for c in resets)
        # or the fields are cleared inline
        if not ok:
            took = [c for c in f.calls if c.name in ("take", "replace")]
            ok = bool(took)
        led.check(ok, rid, "%s::select" % wname, f.span, "select() resets the tie-breaker on every path",
                  "%s::select does not reset: a stale selection would be proposed again after the "
                  "variable got fixed" % wname)
    led.floor(rid, "tie breakers", n, 2)


def n7(led, rid, ctx):
    lib = ctx.lib
    users = []
    for f in lib.fns.values():
        if not f.self_adt or "/containers/" in f.file:
            continue
        for c in f.calls:
            if c.name in ("remove_temporarily", "insert", "restore_temporarily_removed") and \
                    "SparseSet" in (c.self_ty or "") and c.args:
                fld = self_field(f, c.args[0])
                users.append((f.self_adt, fld, c.name, c))
    mixed = {}
    for adt, fld, name, c in users:
        mixed.setdefault((adt, fld), set()).add(name)
    needs = [(k, v) for k, v in mixed.items() if "remove_temporarily" in v and "insert" in v]
    led.count("N7:sparse-set clients", len(mixed))
    ins = lib.method("SparseSet", "insert")
    # does insert handle an element that is still stored (temporarily removed)?
    pushes = [c for c in ins.calls if c.name == "push"]
    handled = False
    for p in pushes:
        for g in guards_of(ins, p.bb):
            rf = rel_fact(g)
            if rf is None:
                continue
            op, l, r = rf
            txt = show(l) + " | " + show(r)
            if "indices" in txt and ("domain" in txt or "len" in txt):
                handled = True
    for (adt, fld), v in needs:
        led.check(handled, rid, "%s.%s:insert-after-remove_temporarily" % (adt.rsplit("::", 1)[-1], fld),
                  ins.span, "SparseSet::insert recognises an element that is only temporarily removed",
                  "%s undoes SparseSet::remove_temporarily on `%s` with insert, but insert pushes the "
                  "element a second time (its push is not guarded by a look at the element's stored "
                  "index): the set then holds a stale copy and remove_temporarily stops working — the "
                  "selector can draw a fixed variable forever" % (adt.rsplit("::", 1)[-1], fld))
    if not needs:
        led.ok(rid, "no-mixed-client", None, "no client mixes remove_temporarily with insert")


# ---- N8: value selectors ---------------------------------------------------------------------

# (selector, predicate constructor) -> (pattern the bound must have, arithmetic reason it is
# undecided).  The pattern is part of the entry: a different formula needs a new argument.
N8_TABLE = {
    ("InDomainSplit", "upper_bound_predicate"):
        ("lb+floor(size/2)", "bound = lb + floor((ub−lb)/2) < ub whenever ub > lb"),
    ("ReverseInDomainSplit", "lower_bound_predicate"):
        ("lb+ceil(size/2)", "bound = lb + ceil((ub−lb)/2) > lb whenever ub > lb"),
    ("InDomainInterval", "upper_bound_predicate"):
        ("hole-1", "the hole is searched in lb+1..ub, so hole−1 ∈ [lb, ub)"),
    ("InDomainSplitRandom", "upper_bound_predicate"):
        ("lb+floor(size/2)", "bound = lb + floor((ub−lb)/2) < ub whenever ub > lb (and = lb on the "
                             "early-return branch)"),
}


def matches_pattern(f, c, pattern):
    R = resolver(f)
    var = root_local(f, c.args[0])
    e = peel(R.operand(c.args[1]), calls=None, casts=False)

    def bound_call(x, which):
        x = peel(x, calls=None, casts=False)
        return x.k == "call" and x.a.name == which and len(x.a.args) >= 2 and root_local(f, x.a.args[1]) == var
    if pattern in ("lb+floor(size/2)", "lb+ceil(size/2)"):
        rnd = "floor" if "floor" in pattern else "ceil"
        if not (e.k == "binop" and e.a == "Add" and bound_call(e.b, "lower_bound")):
            return False
        h = peel(e.c, calls=None, casts=True)
        if not (h.k == "call" and h.a.name == rnd and h.b):
            return False
        d = peel(h.b[0], calls=None, casts=False)
        if not (d.k == "binop" and d.a == "Div"):
            return False
        num = peel(d.b, calls=None, casts=True)
        den = peel(d.c, calls=None, casts=False)
        return bound_call(num, "get_size_of_domain") and den.k == "const" and str(den.c) in ("2", "2.0")
    if pattern == "hole-1":
        if not (e.k == "binop" and e.a == "Sub" and e.c.k == "const" and e.c.a == 1):
            return False
        src = e.b
        finds = [x for x in src.calls() if x.name == "find"]
        if len(finds) != 1:
            return False
        rng = R.operand(finds[0].args[0])
        # Range { start: lb + 1, end: ub }
        for x in rng.walk():
            if x.k == "agg" and x.b == "Range" and len(x.c) == 2:
                lo = peel(x.c[0], calls=None, casts=False)
                hi = peel(x.c[1], calls=None, casts=False)
                return (lo.k == "binop" and lo.a == "Add" and bound_call(lo.b, "lower_bound") and
                        lo.c.k == "const" and lo.c.a == 1 and bound_call(hi, "upper_bound"))
        return False
    return False


def bound_shape(f, c, kind):
    """classify the bound operand of a predicate constructor call inside a value selector"""
    R = resolver(f)
    var = root_local(f, c.args[0])
    e = peel(R.operand(c.args[1]), calls=None, casts=False)

    def is_bound_call(x, which):
        x = peel(x, calls=None, casts=False)
        return x.k == "call" and x.a.name == which and len(x.a.args) >= 2 and \
            root_local(f, x.a.args[1]) == var
    if kind == "upper_bound_predicate":       # [x <= b] needs b < ub (and b >= lb)
        if is_bound_call(e, "lower_bound"):
            return "a:[x<=lb]"
        if e.k == "binop" and e.a == "Sub" and is_bound_call(e.b, "upper_bound") and e.c.k == "const" \
                and (e.c.a or 0) >= 1:
            return "b:[x<=ub-c]"
    if kind == "lower_bound_predicate":       # [x >= b] needs b > lb
        if is_bound_call(e, "upper_bound"):
            return "a:[x>=ub]"
        if e.k == "binop" and e.a == "Add" and is_bound_call(e.b, "lower_bound") and e.c.k == "const" \
                and (e.c.a or 0) >= 1:
            return "b:[x>=lb+c]"
    # (e) guarded by an equality test against the bound that would make it trivial
    for g in guards_of(f, c.bb):
        rf = rel_fact(g)
        if rf is None:
            continue
        op, l, r = rf
        for x, y in ((l, r), (r, l)):
            same = show(peel(x, calls=None, casts=False)) == show(e)
            if not same:
                continue
            if kind == "lower_bound_predicate":
                if op == "Ne" and is_bound_call(y, "lower_bound"):
                    return "e:guarded b!=lb"
                if op == "Eq" and is_bound_call(y, "upper_bound"):
                    return "e:b==ub"
            if kind == "upper_bound_predicate":
                if op == "Ne" and is_bound_call(y, "upper_bound"):
                    return "e:guarded b!=ub"
                if op == "Eq" and is_bound_call(y, "lower_bound"):
                    return "e:b==lb"
    return None


def value_from_domain(f, c):
    """equality / disequality value comes from a collection filtered by contains(x, ·) or is
    guarded by contains(x, v) being true"""
    R = resolver(f)
    e = R.operand(c.args[1])
    if call_guarded(f, c.bb, "contains", True) is not None:
        return "c:guarded by contains"
    # value read from a vector built by .filter(|v| contains(x, v)).collect()
    for x in e.walk():
        if x.k == "call" and x.a.name in ("collect", "filter"):
            for g in f.closures:
                if any(cc.name == "contains" for cc in g.calls):
                    return "c:from values filtered by contains"
    for g in f.closures:
        if any(cc.name == "contains" for cc in g.calls):
            # the filtered collection may be a multi-definition local
            return "c:from values filtered by contains"
    return None


def n8(led, rid, ctx):
    lib = ctx.lib
    n = 0
    for imp in impls(lib, "ValueSelector"):
        own = {it["name"]: lib.fns.get(it["def"]) for it in imp["items"] if it["kind"] == "fn"}
        f = own.get("select_value")
        if f is None or children(lib, imp):
            continue
        wname = (imp.get("self_adt") or "?").rsplit("::", 1)[-1]
        fns = [f]
        # helpers of the same type called from select_value (get_predicate_excluding_upper_half)
        for c in f.calls:
            for g in lib.callees(c):
                if g.self_adt and "/value_selection/" in g.file and g is not f:
                    fns.append(g)
        seen_pred = False
        for g in fns:
            gname = (g.self_adt or "?").rsplit("::", 1)[-1]
            for c in g.calls:
                if c.name not in ("lower_bound_predicate", "upper_bound_predicate", "equality_predicate",
                                  "disequality_predicate", "get_true_predicate", "get_false_predicate"):
                    continue
                seen_pred = True
                n += 1
                key = "%s:%s" % (gname, c.name)
                if c.name in ("get_true_predicate", "get_false_predicate"):
                    led.ok(rid, key, c.span, "d: a literal's own predicate")
                    continue
                if c.name in ("equality_predicate", "disequality_predicate"):
                    sh = value_from_domain(g, c)
                    led.check(sh is not None, rid, key, c.span, sh,
                              "%s proposes [x %s v] with a value that is not taken from the current "
                              "domain (no contains filter / guard)" % (gname, "=" if c.name[0] == "e" else "≠"))
                    continue
                sh = bound_shape(g, c, c.name)
                if sh is None and (gname, c.name) in N8_TABLE:
                    pat, why = N8_TABLE[(gname, c.name)]
                    if matches_pattern(g, c, pat):
                        sh = "f:table %s — %s" % (pat, why)
                led.check(sh is not None, rid, key, c.span, sh,
                          "%s proposes [x %s bound] with bound = %s, which is none of the shapes known "
                          "to be undecided on an unfixed variable (bound read directly, bound ± "
                          "constant, guarded by bound ≠ lb/ub, or a table entry with its arithmetic "
                          "argument)" % (gname, "≥" if c.name[0] == "l" else "≤",
                                         show(peel(resolver(g).operand(c.args[1]), calls=None))))
        led.check(seen_pred, rid, "%s:builds-a-predicate" % wname, f.span, "",
                  "%s::select_value builds no predicate the rule recognises" % wname)
    led.floor(rid, "predicate sites in value selectors", n, 18)


def n13(led, rid, ctx):
    """MUST-PASS: a variable selector that feeds a tie-breaker (`consider`) leaves only through
    `select`, which is what empties the tie-breaker: an early return keeps the candidates of this
    call for the next one, where they may be fixed"""
    lib = ctx.lib
    n = 0
    for imp in lib.impls_of("VariableSelector"):
        if "/tests" in imp["span"]:
            continue
        f = lib.impl_fn(imp, "select_variable")
        if f is None:
            continue
        if not any(c.name == "consider" for g in f.with_closures() for c in g.calls):
            continue
        who = (imp.get("self_adt") or "?").rsplit("::", 1)[-1]
        sel = f.calls_named("select")
        n += 1
        ok = bool(sel) and all(any(f.cfg.dominates(s_.bb, r) for s_ in sel) for r in f.cfg.returns)
        led.check(ok, rid, "%s:leaves-through-select" % who, f.span, "select dominates every return",
                  "%s::select_variable can return without calling the tie-breaker's select: the candidates it "
                  "considered stay cached, and a later call can return one of them although it has been fixed "
                  "since — the value selector then proposes a predicate that is already true" % who)
    led.floor(rid, "selectors with a tie-breaker", n, 5)


def n11(led, rid, ctx):
    """INDEX-SPACE: ProportionalDomainSize keeps the weights compact (swap_remove) and maps a weight
    position to a variable position through weights_idx_to_variables; `variables` is only indexed
    with a mapped position (or a position that ranges over the variables themselves)"""
    lib = ctx.lib
    fns = [f for f in lib.fns.values() if (f.self_adt or "").endswith("ProportionalDomainSize")
           and "/tests" not in f.file and f.kind != "Closure"]
    if not fns:
        raise AnchorMissing("ProportionalDomainSize")
    n = 0
    for f in fns:
        Rp = resolver(f)
        for g in f.with_closures():
            R = resolver(g)
            capmap = {}
            if g is not f:
                for b in f.blocks:
                    for st in b["stmts"]:
                        if st["s"] == "assign" and st["rv"]["r"] == "closure" and st["rv"]["def"] == g.defn:
                            e = Rp.rvalue(st["rv"])
                            for i, cap in enumerate(e.b):
                                fl = cap.fields()
                                if fl:
                                    capmap["arg1.%d" % i] = list(fl)[-1]

            def container(e):
                s_ = show(peel(e, calls=None)).replace("*", "").replace("&", "")
                if s_ in capmap:
                    return capmap[s_]
                fl = peel(e, calls=None).fields()
                return list(fl)[-1] if fl else None
            for c in g.calls:
                if c.name not in ("index", "index_mut", "get", "get_unchecked") or len(c.args) < 2:
                    continue
                if container(R.operand(c.args[0])) != "variables":
                    continue
                n += 1
                idx = R.operand(c.args[1])
                mapped = any(x.k == "call" and x.a.name in ("index", "get") and
                             container(x.b[0]) == "weights_idx_to_variables" for x in idx.walk())
                ranged = any(x.k == "agg" and (x.a or "").split("::")[-1] == "Range" and
                             any(y.k == "call" and y.a.name == "len" and container(y.b[0]) == "variables"
                                 for y in x.c[1].walk()) for x in idx.walk())
                led.check(mapped or ranged, rid, "%s:variables[..]" % ((g.parent or g.defn).rsplit("::", 1)[-1]), c.span,
                          "indexed through weights_idx_to_variables",
                          "ProportionalDomainSize indexes `variables` with %s, a position in the compacted "
                          "weight arrays: after a fixed variable has been swap-removed the two index spaces "
                          "differ, and a variable that is already fixed is selected (the proposed decision is "
                          "already decided)" % show(idx)[:80])
    led.floor(rid, "indexings of ProportionalDomainSize::variables", n, 2)
    # on_backtrack re-establishes the identity map over all variables: both compacted vectors are
    # cleared and refilled from a range over 0..variables.len()
    ob = [f for f in fns if f.name == "on_backtrack"]
    if not ob:
        raise AnchorMissing("ProportionalDomainSize::on_backtrack")
    f = ob[0]
    R = resolver(f)
    cleared = set()
    for c in f.calls:
        if c.name in ("clear", "truncate") and c.args:
            fl = peel(R.operand(c.args[0]), calls=None).fields()
            if fl:
                cleared.add(list(fl)[-1])
    full = False
    from ..flow import aggregates as _aggs
    for bb, i, st in _aggs(f, None):
        e = R.rvalue(st["rv"])
        if e.k == "agg" and (e.a or "").split("::")[-1] == "Range":
            lo = peel(e.c[0], calls=None)
            hi_fields = [q for x in e.c[1].walk() for q in (x.fields() if x.k == "proj" else [])]
            if lo.k == "const" and lo.a == 0 and "variables" in hi_fields and \
                    any(c.name == "len" for c in e.c[1].calls()):
                full = True
    pushes = {list(peel(R.operand(c.args[0]), calls=None).fields())[-1] for c in f.calls
              if c.name == "push" and c.args and peel(R.operand(c.args[0]), calls=None).fields()}
    ok = {"domain_sizes", "weights_idx_to_variables"} <= cleared and full and \
        {"domain_sizes", "weights_idx_to_variables"} <= pushes
    led.check(ok, rid, "on_backtrack:rebuilds-identity-map", f.span, "clear both, refill from 0..variables.len()",
              "ProportionalDomainSize::on_backtrack does not rebuild the weight→variable map from scratch "
              "(cleared: %s, full range: %s): after swap_remove the surviving positions are not a prefix, so "
              "variables are duplicated or lost and the selector proposes nothing while a variable is unfixed"
              % (sorted(cleared), full))


def n7b(led, rid, ctx):
    """SparseSet::insert brings the element to position `size` on every path before it grows the
    active part (the active part is the prefix [0, size) — an element that is merely counted in
    is not the one that was asked for)"""
    lib = ctx.lib
    f = lib.method("SparseSet", "insert")
    R = resolver(f)
    cfg = f.cfg
    incs = []
    for b in f.blocks:
        for st in b["stmts"]:
            if st["s"] == "assign" and st["dst"]["proj"] and \
                    [x.get("name") for x in st["dst"]["proj"] if "field" in x][-1:] == ["size"]:
                e = R.rvalue(st["rv"])
                if "size" in e.fields():
                    incs.append(b["id"])
    swaps = []
    for c in f.calls:
        if c.name != "swap":
            continue
        fl = set()
        for a in c.args[1:]:
            fl |= set(R.operand(a).fields())
        if "size" in fl:
            swaps.append(c.bb)
    led.check(bool(incs), rid, "SparseSet::insert:grows", f.span, "", "SparseSet::insert no longer grows the active part")
    for ib in incs:
        ok = bool(swaps) and not cfg.reaches(0, [ib], avoid=swaps, strict=False)
        led.check(ok, rid, "SparseSet::insert:swap-before-grow", "%s:%d" % (f.file, f.blocks[ib]["line"]),
                  "every path to `size += 1` passes swap(size, index)",
                  "SparseSet::insert can grow the active part without moving the inserted element to position "
                  "`size`: re-inserting a temporarily removed element that is not stored right behind the active "
                  "part activates a different element, and the one asked for is lost — the random selector then "
                  "proposes nothing while that variable is unfixed")


def run(ctx, led):
    run_rule(led, "N1", "every variable selector tests fixedness before proposing; filter/find "
             "closures keep the unfixed ones", n1, ctx)
    run_rule(led, "N2", "the VSIDS search returns Some(p) only on the unassigned edge; polarity is p "
             "or !p", n2, ctx)
    run_rule(led, "N3", "FORWARD-ALL: a type that wraps a Brancher / VariableSelector / ValueSelector "
             "overrides every hook the wrapped trait also has and reaches the child's same-named "
             "hook (event set computed from the trait declarations)", n3, ctx)
    run_rule(led, "N4", "OVERRIDE⇒DECLARE: a hook that changes its implementor's own state is declared "
             "in subscribe_to_events; wrappers chain every child's declaration; the dynamic brancher "
             "dispatches each hook through its own tag", n4, ctx)
    run_rule(led, "N4b", "the dynamic brancher records a child's index for every event the child "
             "subscribes to (new and add_brancher agree)", n4b, ctx)
    run_rule(led, "N9", "a selector's restoring hook updates its state on every path (no early "
             "return)", n9, ctx)
    run_rule(led, "N5", "the autonomous search consults its backup exactly when it has no candidate "
             "and some variable is unassigned; the dynamic brancher gives up only after every child", n5, ctx)
    run_rule(led, "N6", "TieBreaker::select resets on every path", n6, ctx)
    run_rule(led, "N7", "sparse-set protocol: a client that undoes remove_temporarily with insert "
             "needs an insert that recognises stored-but-removed elements", n7, ctx)
    run_rule(led, "N8", "every predicate a value selector builds has a shape that is undecided on an "
             "unfixed variable (auto-classified, or table entry with arithmetic reason)", n8, ctx)
    from . import predrules
    run_rule(led, "N10", "Assignments::evaluate_predicate, by which a proposal is judged decided or not, is exact (shared with C02-U10)", predrules.evaluate_exact, ctx)
    run_rule(led, "N11", "INDEX-SPACE: ProportionalDomainSize indexes its variables only through the weight→variable map", n11, ctx)
    run_rule(led, "N7b", "SparseSet::insert moves the element to position `size` before growing the active part", n7b, ctx)
    from . import kernel as _kernel
    _kernel.run_lifecycle(led, ctx, "N")
    from . import C12 as _C12
    run_rule(led, "N13", "MUST-PASS: selectors with a tie-breaker leave only through its select (which resets it)", n13, ctx)
    run_rule(led, "N12", "view `contains` (used by the value selectors) keeps its divisibility guard (shared with C12-V1d)", _C12.v1_divis, ctx)

"""Finite protocol abstraction of a stateful API object (TYPESTATE over its own fields).

The path summaries of one method are read as a transition relation over the boolean abstraction of
the object's flag fields (a `bool` field: its value; an `Option` field: is it Some).  Results of
calls into the solver are left free.  The reachable (state, ghost) pairs are explored from the
state the constructor builds; the ghost bit records what the caller has been told so far.

Used for SolutionIterator::next_solution: once a solution has been handed out, exhausting the
search is `Finished`; `Unsatisfiable` is only ever reported when no solution was handed out.
"""
from ..flow import show, peel
from ..symexec import SymExec
from ..facts import AnchorMissing


class Opaque(Exception):
    pass


def _field(e):
    """name of the self field a place expression denotes (arg1.F, any derefs), else None"""
    e0 = e
    while e0.k in ("ref", "cast"):
        e0 = e0.a if e0.k == "ref" else e0.b
    if e0.k == "proj" and e0.a.k == "arg" and e0.a.a == 1:
        names = [x.get("name") for x in e0.b if "field" in x]
        if len(names) == 1 and not any("downcast" in x for x in e0.b):
            return names[0]
    return None


def _mentions(e, fields):
    return any(_field(x) in fields for x in e.walk() if x.k == "proj")


def _eval(e, st, fields):
    """truth value (int) of a condition atom over the abstract state, None if free"""
    e = peel(e, calls=None) if e.k != "discr" else e
    if e.k == "discr":
        inner = e.a
        while inner.k in ("ref", "cast"):
            inner = inner.a if inner.k == "ref" else inner.b
        if inner.k == "call" and inner.a.name in ("take", "as_ref", "as_mut", "clone", "as_deref") and inner.b:
            f = _field(inner.b[0])
            if f in fields:
                return int(st[f])
        f = _field(inner)
        if f in fields:
            return int(st[f])
        if _mentions(inner, fields):
            if inner.k == "call" and inner.a.name not in ("take", "as_ref", "as_mut", "clone", "as_deref", "is_some", "is_none"):
                return None          # the result of a call that merely receives the taken value
            raise Opaque(show(e)[:80])
        return None
    if e.k == "call" and e.a.name in ("is_some", "is_none") and e.b:
        f = _field(e.b[0])
        if f in fields:
            return int(st[f]) if e.a.name == "is_some" else int(not st[f])
    if e.k == "unop" and e.a == "Not":
        v = _eval(e.b, st, fields)
        return None if v is None else int(not v)
    f = _field(e)
    if f in fields:
        return int(st[f])
    if _mentions(e, fields):
        # a call result that merely receives the taken value (add_clause(take(..)@Some.0)) is free
        if e.k == "call" and e.a.name not in ("is_some", "is_none"):
            return None
        raise Opaque(show(e)[:80])
    return None


def transitions(f, fields):
    out = []
    for p in SymExec(f, max_paths=400).run():
        if p.diverged or p.ret is None:
            continue
        r = peel(p.ret, calls=None)
        variant = r.b if r.k == "agg" else None
        taken = set()
        for c, a, res in p.calls:
            if c.name == "take" and a:
                fl = _field(a[0])
                if fl in fields:
                    taken.add(fl)
        stores = []
        for pl, e in p.stores:
            names = [x.get("name") for x in pl["proj"] if "field" in x]
            base = p.env.get(pl["local"]) if pl["local"] != 1 else None
            while base is not None and base.k in ("ref", "cast"):
                base = base.a if base.k == "ref" else base.b
            is_self = pl["local"] == 1 or (base is not None and base.k == "arg" and base.a == 1) or \
                (base is not None and base.k == "proj" and base.a.k == "arg" and base.a.a == 1 and all("deref" in x for x in base.b))
            if is_self and len(names) == 1 and names[0] in fields:
                e = peel(e, calls=None)
                if e.k == "const" and e.a in (0, 1):
                    stores.append((names[0], [bool(e.a)]))
                elif e.k == "agg" and e.b in ("Some", "None"):
                    stores.append((names[0], [e.b == "Some"]))
                else:
                    stores.append((names[0], None))          # value computed: decided at exploration
                    stores[-1] = (names[0], ("expr", e))
        out.append((p, variant, taken, stores))
    return out


def explore(init, trans, fields, ghost_of, check):
    """BFS; returns (#states, first violation text | None)"""
    seen = set()
    todo = [(tuple(sorted(init.items())), False, ())]
    bad = None
    while todo:
        key, ghost, hist = todo.pop()
        if (key, ghost) in seen:
            continue
        seen.add((key, ghost))
        st = dict(key)
        for p, variant, taken, stores in trans:
            ok = True
            for cond, val, others in p.conds:
                v = _eval(cond, st, fields)
                if v is None:
                    continue
                if val is not None:
                    if v != val:
                        ok = False
                elif others and v in others:
                    ok = False
                if not ok:
                    break
            if not ok:
                continue
            msg = check(variant, ghost)
            if msg and bad is None:
                bad = "%s after the calls [%s] (flags then: %s)" % (
                    msg, ", ".join(hist) or "none", ", ".join("%s=%s" % kv for kv in sorted(st.items())))
            nxt = [dict(st)]
            for fl in taken:
                for s in nxt:
                    s[fl] = False
            for fl, vals in stores:
                if isinstance(vals, tuple):
                    v = None
                    try:
                        v = _eval(vals[1], st, fields)
                    except Opaque:
                        v = None
                    vals = [bool(v)] if v is not None else [False, True]
                nn = []
                for s in nxt:
                    for v in vals:
                        s2 = dict(s)
                        s2[fl] = v
                        nn.append(s2)
                nxt = nn
            for s in nxt:
                if len(hist) < 6:
                    todo.append((tuple(sorted(s.items())), ghost_of(variant, ghost), hist + (variant or "?",)))
                else:
                    todo.append((tuple(sorted(s.items())), ghost_of(variant, ghost), hist))
    return len(seen), bad


def iterator_protocol(led, rid, ctx):
    lib = ctx.lib
    new = lib.method("SolutionIterator", "new")
    from .C03 import next_solution as _ns
    f = _ns(lib)
    init = None
    for p in SymExec(new).run():
        r = peel(p.ret, calls=None) if p.ret is not None else None
        if r is not None and r.k == "agg":
            init = {}
            for name, v in zip(r.d or [], r.c):
                v = peel(v, calls=None)
                if v.k == "const" and v.a in (0, 1):
                    init[name] = bool(v.a)
                elif v.k == "agg" and v.b in ("None", "Some"):
                    init[name] = v.b == "Some"
    if init is None:
        raise AnchorMissing("the aggregate built by SolutionIterator::new")
    fields = set(init)
    try:
        trans = transitions(f, fields)
        variants = {v for _, v, _, _ in trans}
        if not {"Solution", "Finished", "Unsatisfiable"} <= variants:
            raise AnchorMissing("IteratedSolution::{Solution, Finished, Unsatisfiable} in next_solution")

        def check(variant, ghost):
            if variant == "Unsatisfiable" and ghost:
                return ("next_solution reports Unsatisfiable for a model of which this iterator has already "
                        "handed out a solution")
            if variant == "Finished" and not ghost:
                return "next_solution reports Finished although it never handed out a solution"
            return None
        n, bad = explore(init, trans, fields, lambda v, g: g or v == "Solution", check)
    except Opaque as o:
        n, bad = 0, "a condition over the iterator's flags could not be interpreted: %s" % o
    led.check(bad is None and n > 0, rid, "SolutionIterator:Finished-vs-Unsatisfiable", f.span,
              "%d (flags, told-a-solution) states explored over %d path summaries; flags %s"
              % (n, len(trans) if bad is None or n else 0, sorted(fields)),
              "SolutionIterator: %s" % bad)
    led.floor(rid, "iterator flag fields", len(fields), 1)

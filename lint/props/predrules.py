"""Predicate-algebra rules (TABLE rows decided over a small integer window, see lint/predalg.py).
Registered by several properties under their own rule ids."""
from ..symexec import SymExec, variant_name
from ..flow import show, peel, E
from ..predalg import ev, holds, feasible, Unknown, XS, CS, TS, is_pred_adt


def _field(e):
    """(shown base, variant, field) for `base@Variant.field` expressions"""
    if e.k != "proj" or not e.b:
        return None
    idx = [i for i, x in enumerate(e.b) if "downcast" in x]
    if not idx or idx[-1] + 1 >= len(e.b) or "field" not in e.b[idx[-1] + 1]:
        return None
    i = idx[-1]
    base = E("proj", e.a, list(e.b[:i])) if i > 0 else e.a
    return show(peel(base, calls=None)), e.b[i]["downcast"], e.b[i + 1].get("name")


def _variants(f, p):
    """{shown predicate place: variant} from the discriminant conditions of a path"""
    out = {}
    for cond, val, others in p.conds:
        if cond.k == "discr" and is_pred_adt(cond.b):
            out[show(peel(cond.a, calls=None))] = variant_name(f, cond, val, others)
    return out


def _leaf_for(bases):
    """leaf valuation: bases = {shown base: {'c': int, 'dom': int}}"""
    def leaf(e):
        fl = _field(e)
        if fl is None:
            return None
        b, _, name = fl
        if b not in bases:
            return None
        if name == "domain_id":
            return None
        return bases[b]["c"]
    return leaf


def _pred_of_agg(e, leaf):
    """(variant, shown domain expr, constant) of a `Predicate::V{dom, c}` aggregate"""
    if e.k != "agg" or not is_pred_adt(e.a):
        return None
    dom, c = None, None
    for fe, name in zip(e.c, e.d or []):
        if name == "domain_id":
            dom = show(peel(fe, calls=None))
        else:
            c = ev(fe, leaf)
    return e.b, dom, c


# ---------------------------------------------------------------------------------------------

def negation_exact(led, rid, ctx):
    """!p holds exactly where p does not, on the same domain"""
    lib = ctx.lib
    f = lib.method("Predicate", "not", "*")
    n = 0
    for p in SymExec(f).run():
        if p.diverged:
            continue
        vs = _variants(f, p)
        iv = vs.get("arg1")
        if iv is None or p.ret is None:
            led.bad(rid, "not:undecided-row", f.span, "a path of Predicate::not does not match on the "
                    "variant of its operand or returns nothing decidable")
            continue
        n += 1
        bad = None
        for c in CS:
            leaf = _leaf_for({"arg1": {"c": c}})
            try:
                r = _pred_of_agg(peel(p.ret, calls=None), leaf)
            except Unknown as u:
                r = None
            if r is None:
                bad = "returns %s, not a predicate built from the operand" % show(p.ret)[:120]
                break
            rv, rdom, rc = r
            if rdom != "arg1@%s.domain_id" % iv and rdom is not None and not rdom.endswith(".domain_id"):
                bad = "the negation is on another domain (%s)" % rdom
                break
            for x in XS:
                if holds(rv, rc, x) == holds(iv, c, x):
                    bad = "![x %s %d] evaluates to [x %s %d], and x=%d %s both" % (
                        iv, c, rv, rc, x, "satisfies" if holds(iv, c, x) else "falsifies")
                    break
            if bad:
                break
        led.check(bad is None, rid, "not:%s" % iv, f.span, "negation of %s is its exact complement" % iv,
                  "Predicate::not on %s: %s" % (iv, bad))
    led.floor(rid, "rows of Predicate::not", n, 4)


def mutex_sound(led, rid, ctx):
    """is_mutually_exclusive_with answers true only for predicates no value satisfies together"""
    lib = ctx.lib
    f = lib.method("Predicate", "is_mutually_exclusive_with")
    n = 0
    for p in SymExec(f).run():
        if p.diverged:
            continue
        vs = _variants(f, p)
        a, b = vs.get("arg1"), vs.get("arg2")
        if p.ret is None:
            continue
        same_dom = None
        for cond, val, others in p.conds:
            if cond.k == "call" and cond.a.name == "eq" and "domain_id" in show(cond):
                truth = (val != 0) if val is not None else (0 in (others or []))
                same_dom = truth
        n += 1
        inst = "mutex:%s/%s/%s" % (a, b, {True: "same-domain", False: "other-domain", None: "any-domain"}[same_dom])
        bad = None
        if a is None or b is None:
            try:
                if ev(p.ret, lambda e: None) != 0:
                    bad = "answers true without looking at both variants"
            except Unknown:
                bad = "answers %s without looking at both variants" % show(p.ret)[:100]
            led.check(bad is None, rid, inst, f.span, "", "is_mutually_exclusive_with %s" % bad)
            continue
        for ca in CS:
            for cb in CS:
                leaf = _leaf_for({"arg1": {"c": ca}, "arg2": {"c": cb}})
                if not feasible(p.conds, leaf):
                    continue
                try:
                    r = ev(p.ret, leaf)
                except Unknown:
                    bad = "returns the undecidable expression %s" % show(p.ret)[:120]
                    break
                if not r:
                    continue
                if same_dom is not True:
                    bad = ("answers true for [x %s %d] and [y %s %d] without having established that "
                           "x and y are the same variable" % (a, ca, b, cb))
                    break
                wit = [x for x in XS if holds(a, ca, x) and holds(b, cb, x)]
                if wit:
                    bad = ("calls [x %s %d] and [x %s %d] mutually exclusive although x=%d satisfies both: "
                           "a consistent pair of assumptions is reported as a conflicting pair"
                           % (a, ca, b, cb, wit[0]))
                    break
            if bad:
                break
        led.check(bad is None, rid, inst, f.span, "true only when no value satisfies both",
                  "is_mutually_exclusive_with %s" % bad)
    led.floor(rid, "rows of is_mutually_exclusive_with", n, 16)


# ---------------------------------------------------------------------------------------------

def _reason_items(e, trail_shown, leaf, out, unknown):
    e0 = e
    e = peel(e, calls=None)
    if e.k == "agg" and is_pred_adt(e.a):
        out.append(("agg", e))
        return
    if show(e) == trail_shown:
        out.append(("trail", e))
        return
    if e.k == "call" and e.a.name in ("once", "into_iter", "iter", "copied", "cloned", "from", "into"):
        for a in e.b:
            _reason_items(a, trail_shown, leaf, out, unknown)
        return
    if e.k in ("array", "tuple"):
        for a in e.a:
            _reason_items(a, trail_shown, leaf, out, unknown)
        return
    if e.k == "ref":
        _reason_items(e.a, trail_shown, leaf, out, unknown)
        return
    unknown.append(show(e0)[:120])


def implicit_reasons(led, rid, ctx):
    """every reason the kernel makes up for a predicate that is true without being on the trail
    (holes, equalities) implies that predicate"""
    lib = ctx.lib
    f = lib.method("ConflictAnalysisContext", "get_propagation_reason")
    paths = SymExec(f, max_paths=4000, max_visits=1).run()
    n = 0
    rows = {}
    for p in paths:
        if p.diverged:
            continue
        vs = _variants(f, p)
        iv = vs.get("arg1")
        if iv is None:
            continue       # the predicate is on the trail itself: explicit reason
        trail = [k for k in vs if k != "arg1"]
        if len(trail) != 1:
            led.bad(rid, "implicit:%s:no-trail-variant" % iv, f.span,
                    "an implicit-reason path for %s does not match on the trail predicate" % iv)
            continue
        tshown, tv = trail[0], vs[trail[0]]
        pushes = [(c, args) for c, args, res in p.calls if c.name in ("extend", "push", "extend_from_slice")]
        items, unknown = [], []
        for c, args in pushes:
            for a in args[1:]:
                _reason_items(a, tshown, None, items, unknown)
        key = (tv, iv, tuple(sorted(
            "trail" if k == "trail" else show(e) for k, e in items)))
        # constants: c for the input, t for the trail predicate
        bad = None
        checked = 0
        if unknown:
            bad = "pushes %s, which is not a predicate built in this function" % unknown[0]
        elif not items:
            bad = "gives no reason at all"
        else:
            for c in CS:
                for t in TS:
                    leaf = _leaf_for({"arg1": {"c": c}, tshown: {"c": t}})
                    if not feasible(p.conds, leaf):
                        continue
                    checked += 1
                    R = []
                    for k, e in items:
                        if k == "trail":
                            R.append((tv, t, None))
                        else:
                            try:
                                rv, rdom, rc = _pred_of_agg(e, leaf)
                            except Unknown as u:
                                bad = "builds a reason from the undecidable value %s" % u
                                break
                            if rdom is not None and not (rdom.startswith("arg1@") or rdom.startswith(tshown + "@")):
                                bad = "builds a reason over another variable (%s)" % rdom
                                break
                            R.append((rv, rc, rdom))
                    if bad:
                        break
                    for x in XS:
                        if all(holds(v, k_, x) for v, k_, _ in R) and not holds(iv, c, x):
                            bad = ("explains [x %s %d] (trail entry [x %s %d]) by %s, but x=%d satisfies the "
                                   "reason and not the predicate: conflict analysis learns a nogood that "
                                   "does not follow" % (iv, c, tv, t,
                                                        " & ".join("[x %s %d]" % (v, k_) for v, k_, _ in R), x))
                            break
                    if bad:
                        break
                    # no circular reason
                    for v, k_, _ in R:
                        if all(holds(v, k_, x) == holds(iv, c, x) for x in XS) and (v, k_) != (tv, t):
                            bad = ("explains [x %s %d] by the equivalent [x %s %d]: the reason of a "
                                   "predicate must be strictly earlier facts" % (iv, c, v, k_))
                    if bad:
                        break
                if bad:
                    break
            if not bad and not checked:
                continue      # a path whose constant conditions contradict each other
        n += 1
        inst = "implicit:%s<-%s:%s" % (iv, tv, ",".join(key[2]).replace("arg1@", "").replace(tshown, "trail")[:120])
        if bad:
            led.bad(rid, inst, f.span, "get_propagation_reason %s" % bad)
        else:
            rows[inst] = True
    for inst in sorted(rows):
        led.ok(rid, inst, f.span, "reason implies the predicate for all constants in the window")
    led.floor(rid, "implicit-reason rows", n, 11)


# ---------------------------------------------------------------------------------------------

class _Dom:
    """a concrete domain over a small universe, answering the Assignments getters"""

    def __init__(self, values):
        self.v = sorted(values)

    def call(self, name, args):
        if name == "get_lower_bound":
            return self.v[0]
        if name == "get_upper_bound":
            return self.v[-1]
        return None


def evaluate_exact(led, rid, ctx):
    """Assignments::evaluate_predicate answers Some(true) exactly when every value of the domain
    satisfies the predicate, Some(false) exactly when none does"""
    import itertools
    lib = ctx.lib
    f = lib.method("Assignments", "evaluate_predicate")
    paths = [p for p in SymExec(f).run() if not p.diverged]
    n = 0
    U = list(range(-2, 3))
    doms = [set(s) for k in range(1, len(U) + 1) for s in itertools.combinations(U, k)]
    by_variant = {}
    for p in paths:
        vs = _variants(f, p)
        by_variant.setdefault(vs.get("arg2"), []).append(p)
    for iv, ps in sorted(by_variant.items(), key=str):
        if iv is None:
            led.bad(rid, "evaluate:no-variant", f.span, "a path of evaluate_predicate does not match on the predicate")
            continue
        bad = None
        decided = 0
        for D in doms:
            lo, hi = min(D), max(D)
            for c in range(-3, 4):
                def leaf(e, D=D, c=c, lo=lo, hi=hi):
                    fl = _field(e)
                    if fl is not None and fl[0] == "arg2" and fl[2] != "domain_id":
                        return c
                    if e.k == "call":
                        nm = e.a.name
                        if nm == "get_lower_bound":
                            return lo
                        if nm == "get_upper_bound":
                            return hi
                        if nm == "is_value_in_domain":
                            return int(ev(e.b[2], leaf) in D)
                        if nm == "is_domain_assigned":
                            return int(lo == hi)
                    return None
                # which path does this state take?
                taken = []
                for p in ps:
                    ok = True
                    for cond, val, others in p.conds:
                        if cond.k == "discr":
                            pl = peel(cond.a, calls=None)
                            if pl.k == "call" and pl.a.name == "get_assigned_value":
                                # Option<i32>: Some iff assigned
                                w = 1 if lo == hi else 0
                                if (val is not None and w != val) or (val is None and w in (others or [])):
                                    ok = False
                            continue
                        try:
                            w = ev(cond, leaf)
                        except Unknown:
                            continue
                        if (val is not None and w != val) or (val is None and others and w in others):
                            ok = False
                    if ok:
                        taken.append(p)
                want = "Some(true)" if all(holds(iv, c, x) for x in D) else \
                    "Some(false)" if not any(holds(iv, c, x) for x in D) else "None"
                for p in taken:
                    r = peel(p.ret, calls=None) if p.ret is not None else None
                    got = None
                    if r is not None and r.k == "agg" and (r.a or "").endswith("Option"):
                        if r.b == "None":
                            got = "None"
                        elif r.c and r.c[0].k == "const":
                            got = "Some(%s)" % ("true" if r.c[0].a else "false")
                    if got is None:
                        bad = "returns the undecidable %s" % (show(p.ret)[:80] if p.ret is not None else None)
                        break
                    decided += 1
                    if got != want:
                        bad = ("answers %s for [x %s %d] on the domain %s (it should be %s)"
                               % (got, iv, c, sorted(D), want))
                        break
                if bad:
                    break
            if bad:
                break
        n += 1
        led.check(bad is None and decided > 0, rid, "evaluate:%s" % iv, f.span,
                  "exact on all %d domains over %s" % (len(doms), U),
                  "evaluate_predicate %s" % (bad or "has no decidable path for this variant"))
    led.floor(rid, "variants of evaluate_predicate", n, 4)


# ---------------------------------------------------------------------------------------------
# every three-valued evaluator of a predicate is sound

def _closure_value(lib, e, leaf, depth=0):
    """value of `call(&closure, (args))` by evaluating the closure's path summaries"""
    if depth > 3:
        raise Unknown("closure nesting")
    clo = e.b[0]
    while clo.k in ("ref", "cast"):
        clo = clo.a if clo.k == "ref" else clo.b
    if clo.k != "closure":
        raise Unknown(show(e)[:60])
    g = lib.fns.get(clo.a)
    if g is None:
        raise Unknown("closure body")
    caps = clo.b or []
    tup = e.b[1] if len(e.b) > 1 else None
    while tup is not None and tup.k in ("ref", "cast"):
        tup = tup.a if tup.k == "ref" else tup.b
    args = tup.a if tup is not None and tup.k in ("tuple", "array") else ([tup] if tup is not None else [])

    def gl(x):
        if x.k == "arg" and x.a >= 2 and x.a - 2 < len(args):
            return ev(args[x.a - 2], leaf)
        if x.k == "proj" and x.a.k == "arg" and x.a.a == 1:
            fs = [p["field"] for p in x.b if "field" in p]
            if fs and fs[0] < len(caps):
                return ev(caps[fs[0]], leaf)
        if x.k == "call" and x.a.name in ("call", "call_mut", "call_once"):
            return _closure_value(lib, x, gl, depth + 1)
        return leaf(x)
    for p in SymExec(g, max_paths=64).run():
        if p.diverged or p.ret is None:
            continue
        if feasible(p.conds, gl):
            return ev(p.ret, gl)
    raise Unknown("no feasible path in closure")


def evaluators_sound(led, rid, ctx):
    """DISCOVERED by signature: every function that takes a Predicate and returns Option<bool> is a
    three-valued evaluator.  On every domain over a 5-value universe and every constant:
    Some(true) only if all values of the domain satisfy the predicate, Some(false) only if none
    does.  Functions that merely forward to another evaluator are covered through their callee."""
    import itertools
    lib = ctx.lib
    U = list(range(-2, 3))
    doms = [set(s) for k in range(1, len(U) + 1) for s in itertools.combinations(U, k)]
    n = 0
    for f in sorted(lib.fns.values(), key=lambda g: g.defn):
        if "/tests" in f.file or f.kind == "Closure" or "Option<bool>" not in (f.rec.get("ret") or ""):
            continue
        pk = [i + 1 for i, a in enumerate(f.args) if is_pred_adt(a["ty"].lstrip("&").strip())]
        if len(pk) != 1:
            continue
        base = "arg%d" % pk[0]
        paths = [p for p in SymExec(f, max_paths=400).run() if not p.diverged and p.ret is not None]
        if paths and all(peel(p.ret, calls=None).k == "call" for p in paths):
            continue                                    # a forwarder
        n += 1
        bad = None
        decided = 0
        for D in doms:
            lo, hi = min(D), max(D)
            for c in range(-3, 4):
                def leaf(e, D=D, c=c, lo=lo, hi=hi):
                    fl = _field(e)
                    if fl is not None and fl[0].lstrip("*&") == base and fl[2] != "domain_id":
                        return c
                    if e.k == "call":
                        nm = e.a.name
                        if nm in ("lower_bound", "get_lower_bound", "lower_bound_at_root"):
                            return lo
                        if nm in ("upper_bound", "get_upper_bound", "upper_bound_at_root"):
                            return hi
                        if nm in ("contains", "is_value_in_domain") and e.b:
                            return int(ev(e.b[-1], leaf) in D)
                        if nm in ("is_fixed", "is_domain_assigned"):
                            return int(lo == hi)
                        if nm in ("call", "call_mut", "call_once"):
                            return _closure_value(lib, e, leaf)
                    return None
                for p in paths:
                    vs = _variants(f, p)
                    iv = None
                    for k_, v_ in vs.items():
                        if k_.lstrip("*&") == base:
                            iv = v_
                    if iv is None or iv not in ("LowerBound", "UpperBound", "NotEqual", "Equal"):
                        continue
                    skip = False
                    for cond, val, others in p.conds:
                        if cond.k != "discr" or is_pred_adt(cond.b):
                            continue
                        pl = peel(cond.a, calls=None)
                        if pl.k == "call" and pl.a.name.startswith("get_assigned"):
                            w = 1 if lo == hi else 0            # Option: Some iff the variable is fixed
                            if (val is not None and w != val) or (val is None and w in (others or [])):
                                skip = True
                        else:
                            skip = True                         # a discriminant this rule cannot value
                    if skip:
                        continue
                    try:
                        if not feasible(p.conds, leaf):
                            continue
                    except Unknown:
                        continue
                    r = peel(p.ret, calls=None)
                    if not (r.k == "agg" and (r.a or "").endswith("Option")):
                        continue
                    if r.b == "None":
                        decided += 1
                        continue
                    try:
                        val = ev(r.c[0], leaf)
                    except Unknown:
                        continue
                    decided += 1
                    sat = [holds(iv, c, x) for x in D]
                    if (val and not all(sat)) or (not val and any(sat)):
                        bad = bad or ("answers Some(%s) for [x %s %d] on the domain %s although %s"
                                      % ("true" if val else "false", iv, c, sorted(D),
                                         "x=%d violates it" % [x for x in sorted(D) if not holds(iv, c, x)][0] if val
                                         else "x=%d satisfies it" % [x for x in sorted(D) if holds(iv, c, x)][0]))
        who = f.defn.rsplit("::", 2)
        led.check(bad is None and decided > 0, rid, "evaluator:%s::%s" % (who[-2], who[-1]), f.span,
                  "%d (domain, constant, path) rows sound" % decided,
                  "%s::%s %s" % (who[-2], who[-1], bad or "has no row that could be decided"))
    led.floor(rid, "three-valued predicate evaluators", n, 1)

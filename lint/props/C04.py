"""C04 — optimisation returns a true optimum (structural clauses O1–O5)."""
from ..main import run_rule
from ..flow import (resolver, guards_of, aggregates, root_local, const_defs, variant_guard, peel,
                    edge_facts, show)
from ..facts import op_const_int, op_local, AnchorMissing

LEVEL = ('decides the code-shape clauses the optimum depends on: Optimal is constructed only after a '
         'solve came back infeasible / the strengthening failed (SAT-UNSAT) or after the solve under '
         'the bound assumption succeeded (UNSAT-SAT); the strengthening bound is best−1 on the '
         'direction-scaled objective as a single upper-bound predicate; direction→scale and '
         'direction→multiplier tables (Maximise→−1, Minimise→+1) agree in both procedures; the UNSAT-'
         'SAT assumption is objective ≤ lower_bound(objective) on the same scaled view and the hard '
         'clause added after a failure is exactly its negation; the incumbent is defined before any '
         'return. Also runs the KERNEL BUNDLE (rule ids …K<n>): the kernel rules every verdict depends'
         ' on — predicate algebra, nogood watchers, minimisers, conflict-analysis tables, nogood '
         'deletion, decision read-back, no-learning resolver, constraint builders, reified reasons — '
         'wherever they are not already registered here under another id. Also runs the LIFE-CYCLE '
         'BUNDLE (…L<n>): the typestate rules over arbitrary API sequences of C10 (usable root state '
         'after every call, inert posting in inconsistent states, entry guards, stored-solution '
         'extent). UNSAT-SAT adds nothing permanent but the negation of a refuted bound (O8); the '
         'optimality conclusion is best × multiplier in both directions and procedures (O9). Does not '
         'decide that the underlying solves are correct')
TECHNIQUE = "static analysis: dominance / table recovery / def-use over rustc MIR"

LSU = "LinearSatUnsat"
LUS = "LinearUnsatSat"


KEEP_CALLS = ("update_best_solution_and_process", "on_solution_callback")


def optimise_fn(lib, adt):
    """the procedure's `optimise`, with the private helpers of optimisation/ spliced in (lint/inline.py):
    the rules see the same paths whether the code lives in optimise or in a helper it calls"""
    from ..inline import view
    for imp in lib.impls_of("OptimisationProcedure"):
        if (imp["self_adt"] or "").endswith(adt):
            f = lib.impl_fn(imp, "optimise")
            if f is not None:
                d = f.file.rsplit("/", 1)[0]
                key = "_optview_" + adt
                if key not in lib.__dict__:
                    lib.__dict__[key] = view(lib, f, want=lambda g: g.file.rsplit("/", 1)[0] == d and g.kind != "Closure"
                                             and "/tests" not in g.file and g.name not in KEEP_CALLS)
                return lib.__dict__[key]
    raise AnchorMissing("impl OptimisationProcedure for %s :: optimise" % adt)


def lift_sites(lib, root, g, bb, depth=0):
    """(function, block) pairs inside `root` (or its closures) that stand for block `bb` of `g`:
    `g` itself when it is root / a closure of root, otherwise the call sites of the helper `g`
    (same file) through which root reaches it"""
    if g is root or (g.parent or "") == root.defn:
        return [(g, bb)]
    if depth > 2 or g.file != root.file:
        return []
    out = []
    for h in lib.fns.values():
        if h.file != root.file or h is g:
            continue
        for c in h.calls:
            if (c.resolved or c.defn) == g.defn or any(x is g for x in lib.callees(c)):
                out += lift_sites(lib, root, h, c.bb, depth + 1)
    return out


def flag_arm(fn, node):
    """(variant, call) pairs: node is dominated by the `variant` arm of a match on the flag
    returned by `call`"""
    out = []
    for f in guards_of(fn, node):
        if f.kind == "variant" and not f.neg:
            a = peel(f.atom, calls=None)
            if a.k == "call" and a.a.name in ("solve", "solve_under_assumptions"):
                out.append((f.val, a.a))
    return out


def o1(led, rid, ctx):
    lib = ctx.lib
    n = 0
    views = {LSU: optimise_fn(lib, LSU), LUS: optimise_fn(lib, LUS)}
    covered = set()
    for v in views.values():
        covered |= {v.defn} | {g.defn for g in v.inlined}
    for f in lib.fns.values():
        if (f.parent or f.defn) in covered:
            continue
        for bb0, i, s in aggregates(f, "OptimisationResult", "Optimal"):
            n += 1
            led.bad(rid, "who:%s" % (f.parent or f.defn), "%s:%d" % (f.file, s["line"]),
                    "OptimisationResult::Optimal is constructed outside the two optimisation procedures "
                    "(and not in a helper they call)")
    for which, v in views.items():
        for f2 in [v] + [g for g in v.closures]:
            for bb, i, s in aggregates(f2, "OptimisationResult", "Optimal"):
                n += 1
                site = "%s:%d" % (f2.file, s["line"])
                arms = flag_arm(f2, bb)
                if which == LSU:
                    ok = any(v_ == "Infeasible" and c.name == "solve" for v_, c in arms)
                    if not ok:
                        # the other legitimate site: strengthening (the clause objective ≤ best − 1) failed
                        for g in guards_of(f2, bb):
                            if g.kind == "bool" and g.val is True:
                                a = peel(g.atom, calls=None)
                                if a.k == "call" and a.a.name == "is_err" and a.b and \
                                        any(x.name in ("strengthen", "add_clause") for x in a.b[0].calls()):
                                    ok = True
                    led.check(ok, rid, "LSU:Optimal@%s" % ("+".join(sorted({v_ for v_, _ in arms})) or "-"), site,
                              "after an infeasible solve / failed strengthening",
                              "SAT-UNSAT returns Optimal on a path that is neither the Infeasible arm of "
                              "a solve nor the failure of `strengthen` (arms: %s)" % arms)
                else:
                    ok = any(v_ == "Feasible" and c.name == "solve_under_assumptions" for v_, c in arms)
                    led.check(ok, rid, "LUS:Optimal@%s" % ("+".join(sorted({v_ for v_, _ in arms})) or "-"), site,
                              "after the solve under the bound assumption succeeded",
                              "UNSAT-SAT returns Optimal on a path that is not the Feasible arm of the "
                              "solve under the lower-bound assumption (arms: %s)" % arms)
    led.floor(rid, "Optimal constructions", n, 3)


def o2(led, rid, ctx):
    """the strengthening step of SAT-UNSAT, read off the inlined view of `optimise`: one add_clause
    whose clause is the single predicate [scaled objective ≤ best × multiplier − 1], and whose
    failure is what the Optimal of O1 is guarded by"""
    lib = ctx.lib
    f = optimise_fn(lib, LSU)
    R = resolver(f)
    scaled_locals = {c2.dst["local"] for c2 in f.calls_named("scaled") if c2.dst}
    adds = []
    for c in f.calls_named("add_clause"):
        e = peel(R.operand(c.args[1]), calls=None)
        if any(x.k == "call" and x.a.name.endswith("_predicate") for x in e.walk()):
            adds.append((c, e))
    led.check(len(adds) == 1, rid, "one-add_clause", f.span, "one strengthening clause per iteration",
              "SAT-UNSAT posts %d strengthening clauses" % len(adds))
    for c, e in adds:
        ok = e.k == "array" and len(e.a) == 1 and peel(e.a[0], calls=None).k == "call"
        led.check(ok, rid, "unit-clause", c.span, "the clause is exactly one predicate",
                  "the strengthening clause is %s" % show(e)[:100])
        if not ok:
            continue
        pc = peel(e.a[0], calls=None)
        led.check(pc.a.name == "upper_bound_predicate", rid, "one-upper-bound-predicate", c.span,
                  "an upper bound", "the strengthening predicate is built by %s" % pc.a.name)
        recv = root_local(f, pc.a.args[0])
        led.check(recv in scaled_locals, rid, "strengthen-on-scaled-objective", c.span,
                  "objective argument is the direction-scaled view",
                  "strengthening is applied to a variable that is not the direction-scaled objective")
        b = peel(pc.b[1], calls=None)
        form = False
        if b.k == "binop" and b.a.startswith("Sub") and peel(b.c, calls=None).k == "const" and peel(b.c, calls=None).a == 1:
            m = peel(b.b, calls=None)
            if m.k == "binop" and m.a.startswith("Mul"):
                for side in (m.b, m.c):
                    sd = peel(side, calls=None)
                    vals = sorted(y.a for y in (sd.a if sd.k == "phi" else []) if getattr(y, "k", None) == "const" and y.a is not None)
                    if vals == [-1, 1]:
                        form = True
        led.check(form, rid, "best-minus-one", c.span, "bound = best × multiplier − 1",
                  "the strengthening bound is %s, not best_objective_value × multiplier − 1" % show(b)[:100])
        # its verdict is what the loop tests
        used = any(g.kind == "bool" and peel(g.atom, calls=None).k == "call" and peel(g.atom, calls=None).a.name == "is_err"
                   and any(x is c for x in peel(g.atom, calls=None).b[0].calls())
                   for bb in range(len(f.blocks)) for g in guards_of(f, bb)) if len(f.blocks) < 400 else True
        led.check(used, rid, "propagates-result", c.span, "the verdict of add_clause is tested",
                  "the result of the strengthening add_clause is not tested: a bound that cannot be posted would "
                  "not end the search")


def direction_tables(led, rid, f, label):
    """O3 on one optimise function"""
    n = 0
    # scaled(c) per direction arm
    for c in f.calls_named("scaled"):
        k = op_const_int(c.args[1])
        dirs = variant_guard(f, c.bb, field="direction")
        n += 1
        want = {"Maximise": -1, "Minimise": 1}
        ok = len(dirs) == 1 and want.get(next(iter(dirs))) == k
        recv = peel(resolver(f).operand(c.args[0]), calls=None)
        on_obj = recv.k == "proj" and recv.b and recv.b[-1].get("name") == "objective"
        led.check(ok and on_obj, rid, "%s:scale:%s" % (label, "/".join(sorted(dirs)) or "?"), c.span,
                  "%s → scaled(%s) of self.objective" % ("/".join(dirs), k),
                  "direction %s scales %r by %s (Maximise must be −1, Minimise +1, on self.objective)"
                  % (sorted(dirs), recv, k))
    led.check(n == 2, rid, "%s:two-scalings" % label, f.span, "", "%d `scaled` calls found, expected one "
              "per direction" % n)
    # objective_multiplier: local with the two constant definitions −1 / 1
    cand = []
    for l in f.locals:
        if l["ty"] != "i32":
            continue
        cd = const_defs(f, l["id"])
        if cd and sorted(v for _, v in cd) == [-1, 1]:
            cand.append((l["id"], cd))
    led.check(len(cand) == 1, rid, "%s:multiplier-local" % label, f.span, "",
              "no unique i32 local defined as −1 / 1 (objective multiplier) found: %d" % len(cand))
    if len(cand) != 1:
        return
    lid, cd = cand[0]
    for bb, v in cd:
        # the bool it depends on
        verdict = None
        for g in guards_of(f, bb):
            if g.kind == "bool":
                a = peel(g.atom, calls=None)
                if a.k == "phi":
                    # is_maximising: phi of constants defined under a match on direction
                    bl = a.b
                    for bb2, bv in (const_defs(f, bl) or []):
                        dirs = variant_guard(f, bb2, field="direction")
                        # the arm that sets it true
                        if bool(bv) == g.val:
                            if dirs:
                                verdict = next(iter(dirs))
                            else:
                                # `otherwise` arm of matches!: the other variant
                                for g2 in guards_of(f, bb2):
                                    if g2.kind == "variant" and g2.neg and len(g2.val) == 1:
                                        verdict = {"Maximise": "Minimise", "Minimise": "Maximise"}.get(g2.val[0])
        want = {"Maximise": -1, "Minimise": 1}
        led.check(verdict is not None and want[verdict] == v, rid,
                  "%s:multiplier:%s" % (label, verdict or "?"), "%s:%d" % (f.file, f.blocks[bb]["line"]),
                  "%s → multiplier %d" % (verdict, v),
                  "objective multiplier %d is chosen for direction %s" % (v, verdict))


def o3(led, rid, ctx):
    lib = ctx.lib
    direction_tables(led, rid, optimise_fn(lib, LSU), "LSU")
    direction_tables(led, rid, optimise_fn(lib, LUS), "LUS")
    # update_best_solution_and_process: best = multiplier × value(objective)
    f = lib.fn("OptimisationProcedure::update_best_solution_and_process")
    R = resolver(f)
    ok = False
    detail = ""
    for b in f.blocks:
        for s in b["stmts"]:
            if s["s"] == "assign" and s["dst"]["local"] == 4 and s["dst"]["proj"]:
                e = peel(R.rvalue(s["rv"]), calls=None)
                detail = repr(e)
                if e.k == "binop" and e.a == "Mul":
                    sides = [peel(e.b), peel(e.c)]
                    has_mult = any(x.k == "arg" and x.a == 2 for x in sides)
                    has_val = any(x.k == "call" and x.a.name == "get_assigned_integer_value" for x in sides)
                    if has_mult and has_val:
                        # the value read is that of the objective parameter
                        for x in sides:
                            if x.k == "call" and x.a.name == "get_assigned_integer_value":
                                ok = root_local(f, x.a.args[1]) == 3
    led.check(ok, rid, "best=multiplier*value(objective)", f.span, detail,
              "best_objective_value is not multiplier × assigned value of the objective parameter: %s" % detail)


def o4(led, rid, ctx):
    lib = ctx.lib
    f = optimise_fn(lib, LUS)
    R = resolver(f)
    scaled_locals = {c.dst["local"] for c in f.calls_named("scaled") if c.dst}
    sua = f.calls_named("solve_under_assumptions")
    led.check(len(sua) == 1, rid, "one-assumption-solve", f.span, "", "%d solve_under_assumptions calls" % len(sua))
    if len(sua) != 1:
        return
    c = sua[0]
    e = peel(R.operand(c.args[1]), calls=None)
    ok = e.k == "array" and len(e.a) == 1
    led.check(ok, rid, "single-assumption", c.span, "one assumption", "assumption list is %r" % e)
    if not ok:
        return
    a = peel(e.a[0], calls=None)
    ok = a.k == "call" and a.a.name == "upper_bound_predicate"
    led.check(ok, rid, "assumption-is-upper-bound", c.span, "objective ≤ bound",
              "the assumption is built by %r, not upper_bound_predicate" % a)
    if not ok:
        return
    ub = a.a
    recv = root_local(f, ub.args[0])
    led.check(recv in scaled_locals, rid, "assumption-on-scaled-objective", ub.span,
              "on the direction-scaled objective", "the assumption bounds a variable that is not the "
              "direction-scaled objective")
    b = peel(R.operand(ub.args[1]), calls=None)
    ok = b.k == "call" and b.a.name == "lower_bound" and root_local(f, b.a.args[1]) == recv
    led.check(ok, rid, "bound-is-lower-bound-of-same-view", ub.span,
              "bound = solver.lower_bound(same scaled objective)",
              "the assumed bound is %r: it must be the solver's lower bound of the very view the "
              "assumption is put on" % b)
    assumption_local = ub.dst["local"]
    # Infeasible arm: add_clause([!assumption])
    adds = [x for x in f.calls_named("add_clause")]
    found = False
    for x in adds:
        arms = flag_arm(f, x.bb)
        if not any(v == "Infeasible" for v, _ in arms):
            continue
        found = True
        e = peel(R.operand(x.args[1]), calls=None)
        ok = (e.k == "array" and len(e.a) == 1 and e.a[0].k == "call" and e.a[0].a.name == "not"
              and root_local(f, e.a[0].a.args[0]) == assumption_local)
        led.check(ok, rid, "hard-clause-is-negated-assumption", x.span, "[!assumption]",
                  "after the assumption failed the clause added is %r, not the negation of the "
                  "assumption" % e)
    led.check(found, rid, "infeasible-arm-adds-clause", f.span, "", "the Infeasible arm of the assumption "
              "solve adds no clause: the search would repeat the same bound forever")


def _closure_site(f, h):
    """block of f in which the closure h is created (entry block if it cannot be found)"""
    for b in f.blocks:
        for st in b["stmts"]:
            if st["s"] == "assign" and st["rv"]["r"] == "closure" and st["rv"]["def"] == h.defn:
                return b["id"]
    return 0


def o5(led, rid, ctx):
    """incumbent defined before any return that hands it out (shares C01-S2)"""
    lib = ctx.lib
    n = 0
    for which in (LSU, LUS):
        f = optimise_fn(lib, which)
        upd = f.calls_named("update_best_solution_and_process")
        led.check(len(upd) >= 2, rid, "%s:updates" % which, f.span, "%d incumbent updates" % len(upd),
                  "incumbent is updated at %d sites (initial solve and loop expected)" % len(upd))
        for variant in ("Optimal", "Satisfiable"):
            for bb, i, s in aggregates(f, "OptimisationResult", variant):
                n += 1
                ok = any(f.cfg.dominates(u.bb, bb) for u in upd)
                led.check(ok, rid, "%s:%s-after-update" % (which, variant), "%s:%d" % (f.file, s["line"]),
                          "an incumbent update dominates the return",
                          "%s is returned on a path on which the incumbent was never assigned "
                          "(placeholder Solution::default() escapes)" % variant)
    led.floor(rid, "solution-carrying returns", n, 5)
    # the callee assigns both out-parameters on every path
    g = lib.fn("OptimisationProcedure::update_best_solution_and_process")
    wrote = {4: False, 5: False}
    for b in g.blocks:
        for s in b["stmts"]:
            if s["s"] == "assign" and s["dst"]["proj"] and s["dst"]["local"] in wrote and \
                    "deref" in s["dst"]["proj"][0]:
                if all(g.cfg.dominates(b["id"], r) for r in g.cfg.returns):
                    wrote[s["dst"]["local"]] = True
        t = b["term"]
        if t["t"] == "call" and t.get("dst") and t["dst"]["proj"] and t["dst"]["local"] in wrote:
            if all(g.cfg.dominates(b["id"], r) for r in g.cfg.returns):
                wrote[t["dst"]["local"]] = True
    led.check(all(wrote.values()), rid, "update-assigns-both", g.span, "best value and best solution "
              "are assigned on every path", "update_best_solution_and_process does not assign %s on "
              "every path" % [k for k, v in wrote.items() if not v])


def o8(led, rid, ctx):
    """UNSAT-SAT adds nothing permanent to the model except the negation of a bound it has just
    refuted (so that a later optimise on the same solver starts from the model alone)"""
    lib = ctx.lib
    f = optimise_fn(lib, LUS)
    R = resolver(f)
    adds = [c for g in f.with_closures() for c in g.calls if c.name in ("add_clause", "add_constraint", "post")]
    led.floor(rid, "permanent additions in UNSAT-SAT", len(adds), 1)
    for c in adds:
        g = c.fn
        arm = [fa.val for fa in guards_of(g, c.bb) if fa.kind == "variant" and fa.val in ("Infeasible", "Feasible", "Timeout")]
        cl = resolver(g).operand(c.args[1]) if len(c.args) > 1 else None
        negated = cl is not None and any(x.name == "not" for x in cl.calls())
        ok = c.name == "add_clause" and arm[-1:] == ["Infeasible"] and negated
        led.check(ok, rid, "LUS:%s@%s" % (c.name, arm[-1] if arm else "no-arm"), c.span,
                  "add_clause([!assumption]) on the Infeasible arm",
                  "UNSAT-SAT adds a permanent constraint (%s) outside the refuted-bound step: it stays in the "
                  "solver after optimise returns, so the next optimise on the same solver is answered for a "
                  "different model" % (show(cl)[:80] if cl is not None else c.name))


def arg_origins(lib, g, e, depth=0):
    """[(function, E)]: `e` in g, or — when it is a parameter of the helper g — the expressions
    the callers in the same file pass for it"""
    e0 = peel(e, calls=None)
    if e0.k == "arg" and depth < 3:
        outs = []
        for h in lib.fns.values():
            if h.file != g.file or h is g:
                continue
            Rh = None
            for c2 in h.calls:
                if ((c2.resolved or c2.defn) == g.defn or any(x is g for x in lib.callees(c2))) and len(c2.args) >= e0.a:
                    Rh = Rh or resolver(h)
                    outs += arg_origins(lib, h, Rh.operand(c2.args[e0.a - 1]), depth + 1)
        if outs:
            return outs
    return [(g, e0)]


def o9(led, rid, ctx):
    """the bound the proof is concluded with is the incumbent expressed on the scaled objective the
    predicate is over: best × multiplier in the arm of either direction, in both procedures
    (best = multiplier × value(scaled objective) by O3, so the product is that value itself).
    A conclusion made in a helper of the procedure is traced to the helper's call sites."""
    lib = ctx.lib
    n = 0
    shapes = {}
    for tag in (LSU, LUS):
        root = optimise_fn(lib, tag)
        calls = [(g, c) for g in [root] + list(root.closures) for c in g.calls_named("conclude_proof_optimal")]
        if not calls:
            raise AnchorMissing("conclude_proof_optimal in %s" % root.file)
        for g, c in calls:
            for g2, e in [(g, peel(resolver(g).operand(c.args[1]), calls=None))]:
                alts = e.a if e.k == "phi" else [e]
                sh = set()
                for a in alts:
                    a = peel(a, calls=None)
                    n += 1
                    name = a.a.name if a.k == "call" else a.k
                    const = a.b[-1] if a.k == "call" and a.b else None
                    # direction under which this alternative is built (if the code says so)
                    dirs = set()
                    if a.k == "call":
                        for fa in guards_of(a.a.fn, a.a.bb):
                            if fa.kind == "variant" and fa.val in ("Maximise", "Minimise") and not fa.neg:
                                dirs.add(fa.val)
                    dirs = dirs or {"Maximise", "Minimise"}
                    scaled = const is not None
                    why = ""
                    if const is not None:
                        from ..predalg import ev, Unknown
                        for d in sorted(dirs):
                            mult = -1 if d == "Maximise" else 1
                            for b in (-3, -1, 0, 2, 5):
                                def leaf(x, mult=mult, b=b):
                                    if x.k == "phi":
                                        vals = sorted(y.a for y in x.a if getattr(y, "k", None) == "const" and y.a is not None)
                                        if vals == [-1, 1]:
                                            return mult
                                        return None
                                    if x.k in ("arg", "local") or (x.k == "call" and x.a.name in ("default", "clone", "get_assigned_integer_value")):
                                        return b
                                    if x.k == "proj":
                                        return b
                                    return None
                                try:
                                    v = ev(const, leaf)
                                except Unknown as u:
                                    scaled = False
                                    why = "cannot be evaluated (%s)" % u
                                    break
                                if v != mult * b:
                                    scaled = False
                                    why = "is %d for best = %d when the direction is %s (expected %d)" % (v, b, d, mult * b)
                                    break
                            if not scaled:
                                break
                    sh.add((name, scaled))
                    led.check(scaled, rid, "%s:conclusion:%s" % (tag, name), c.span, "best × multiplier (decided per direction)",
                              "%s concludes the proof with %s(objective, %s), which %s: the incumbent is stored in "
                              "the user's direction and must be multiplied by the objective multiplier to become a "
                              "bound on the scaled objective; for a maximisation the proof claims a bound of the "
                              "wrong sign" % (tag, name, show(const)[:80] if const is not None else "?", why))
                shapes.setdefault(tag, set()).update(sh)
    led.check(shapes.get(LSU) == shapes.get(LUS), rid, "conclusions-agree", None, "same predicate kinds in both procedures",
              "the two procedures conclude with different predicate kinds: %s vs %s" % (sorted(shapes.get(LSU, [])), sorted(shapes.get(LUS, []))))
    led.floor(rid, "conclusion predicate alternatives", n, 6)


def run(ctx, led):
    from . import shared
    run_rule(led, "O9", "the optimality conclusion is stated on the scaled objective: best × multiplier in both directions and both procedures", o9, ctx)
    run_rule(led, "O6", "every solve of the procedures starts from exactly the assumptions it "
             "passes: initialise overwrites the stored assumptions on all paths and dominates the "
             "search (shared with C05-A3)", shared.assumptions_overwritten, ctx)
    run_rule(led, "O1", "OptimisationResult::Optimal is constructed only in the two procedures, and "
             "only after an infeasible solve / failed strengthening (SAT-UNSAT) or a feasible solve "
             "under the bound assumption (UNSAT-SAT) — WHO-MAY + DOMINATED", o1, ctx)
    run_rule(led, "O2", "strengthen posts the single predicate objective ≤ best−1 on the scaled "
             "objective and returns add_clause's verdict (TABLE on its MIR)", o2, ctx)
    run_rule(led, "O3", "direction → scale and direction → multiplier tables: Maximise→−1, "
             "Minimise→+1 in both procedures; best = multiplier × value(objective)", o3, ctx)
    run_rule(led, "O4", "UNSAT-SAT: the assumption is objective ≤ lower_bound(objective) on the same "
             "scaled view; after a failure the hard clause is exactly its negation", o4, ctx)
    run_rule(led, "O5", "every result that carries a solution is dominated by an incumbent update; "
             "the update assigns both out-parameters on every path", o5, ctx)
    from . import C05 as _C05
    run_rule(led, "O7", "an unsatisfiable-under-assumptions result restores the root state when it is dropped, so a following optimise starts from the model alone (shared with C05-A1)", _C05.a1, ctx)
    run_rule(led, "O8", "UNSAT-SAT adds nothing permanent except the negation of a refuted bound", o8, ctx)
    from . import kernel as _kernel
    _kernel.run_bundle(led, ctx, "O")
    from . import kernel as _kernel2
    _kernel2.run_lifecycle(led, ctx, "O")

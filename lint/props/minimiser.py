"""The semantic minimiser's domain description: every step is exact (small-window TABLE decision).

A nogood ¬(p1 ∧ … ∧ pk) is rewritten by folding the pi into one (lower bound, upper bound, holes,
inconsistent) record per variable and emitting predicates that describe the record relative to
the root domain.  The rewritten nogood is implied by the original one iff the emitted conjunction
Q satisfies Q ⇒ P under the root domains, and it is still falsified where the original was iff
P ⇒ Q.  Both follow if (1) every folding step maps the set of values the record stands for,
γ(lb, ub, H, inc) = ∅ if inc or lb > ub else {lb..ub} \\ H, to exactly γ ∩ [[p]], and (2) the emission
describes γ exactly relative to the root record.  The rows of the five loop-free functions are
extracted by the symbolic executor and decided for every record over a 5-value window.
"""
import itertools
from ..symexec import SymExec, variant_name
from ..flow import show, peel, resolver
from ..predalg import ev, holds, Unknown
from ..facts import AnchorMissing

W = list(range(0, 5))
CTOR = {"lower_bound_predicate": "LowerBound", "upper_bound_predicate": "UpperBound",
        "equality_predicate": "Equal", "disequality_predicate": "NotEqual"}


def gamma(lb, ub, H, inc):
    if inc or lb > ub:
        return frozenset()
    return frozenset(x for x in range(lb, ub + 1) if x not in H)


def _records(max_holes=2):
    for lb in W:
        for ub in W:
            for k in range(0, max_holes + 1):
                for H in itertools.combinations(W, k):
                    yield lb, ub, frozenset(H)


def _field_leaf(state, arg_val, extra=None):
    """valuation of `*arg1.<field>` reads and of the scalar argument"""
    def leaf(e):
        if e.k == "proj" and e.b:
            base = peel(e.a, calls=None)
            names = [x.get("name") for x in e.b if "field" in x]
            if base.k == "arg" and names:
                rec = state.get(base.a)
                if rec is not None and names[-1] in rec:
                    return rec[names[-1]]
        if e.k == "arg" and e.a == 2 and arg_val is not None:
            return arg_val
        if extra:
            return extra(e)
        return None
    return leaf


def _feasible(f, p, leaf, holes_iter=None):
    k = 0
    for cond, val, others in p.conds:
        if cond.k == "discr":
            pl = peel(cond.a, calls=None)
            if pl.k == "call" and pl.a.name == "next" and holes_iter is not None:
                want = "Some" if k < len(holes_iter) else "None"
                k += 1
                if variant_name(f, cond, val, others) != want:
                    return False
            continue
        try:
            w = ev(cond, leaf)
        except Unknown:
            return None
        if (val is not None and w != val) or (val is None and others and w in others):
            return False
    return True


def _apply_path(p, lb, ub, H, inc, leaf):
    """record after the stores / set insertions of a path"""
    H = set(H)
    for dst, val in p.stores:
        names = [x.get("name") for x in dst["proj"] if "field" in x]
        if not names:
            continue
        v = ev(val, leaf)
        if names[-1] == "lower_bound":
            lb = v
        elif names[-1] == "upper_bound":
            ub = v
        elif names[-1] == "inconsistent":
            inc = bool(v)
    for c, args, res in p.calls:
        if c.name == "insert" and "holes" in show(args[0]):
            H.add(ev(args[1], leaf))
    return lb, ub, frozenset(H), inc


def steps_exact(led, rid, ctx):
    lib = ctx.lib
    n = 0
    spec = {"tighten_lower_bound": "LowerBound", "tighten_upper_bound": "UpperBound",
            "add_hole": "NotEqual", "assign": "Equal"}
    for name, variant in spec.items():
        f = lib.method("SimpleIntegerDomain", name)
        paths = [p for p in SymExec(f).run() if not p.diverged]
        bad = None
        checked = 0
        for lb, ub, H in _records():
            for inc in (False, True):
                for v in range(-1, 6):
                    state = {1: {"lower_bound": lb, "upper_bound": ub, "inconsistent": int(inc)}}

                    def extra(e):
                        if e.k == "call" and e.a.name in ("max", "min") and len(e.b) == 2:
                            a, b = ev(e.b[0], leaf), ev(e.b[1], leaf)
                            return max(a, b) if e.a.name == "max" else min(a, b)
                        return None
                    leaf = _field_leaf(state, v, extra)
                    taken = [p for p in paths if _feasible(f, p, leaf)]
                    und = [p for p in paths if _feasible(f, p, leaf) is None]
                    if und or len(taken) != 1:
                        bad = "has %d feasible paths for the record (lb=%d, ub=%d, holes=%s) and value %d" % (
                            len(taken), lb, ub, sorted(H), v)
                        break
                    try:
                        after = _apply_path(taken[0], lb, ub, H, inc, leaf)
                    except Unknown as u:
                        bad = "stores the undecidable value %s" % u
                        break
                    checked += 1
                    want = frozenset(x for x in gamma(lb, ub, H, inc) if holds(variant, v, x))
                    got = gamma(*after)
                    if got != want:
                        bad = ("maps the record (lb=%d, ub=%d, holes=%s%s), i.e. the values %s, with [x %s %d] to "
                               "(lb=%d, ub=%d, holes=%s%s), i.e. %s — it should stand for %s: the minimised "
                               "nogood is %s than the learned one"
                               % (lb, ub, sorted(H), ", inconsistent" if inc else "", sorted(gamma(lb, ub, H, inc)),
                                  variant, v, after[0], after[1], sorted(after[2]), ", inconsistent" if after[3] else "",
                                  sorted(got), sorted(want),
                                  "weaker (unsound)" if not got <= want else "stronger"))
                        break
                if bad:
                    break
            if bad:
                break
        n += 1
        led.check(bad is None and checked > 0, rid, "step:%s" % name, f.span,
                  "γ(after) = γ(before) ∩ [[%s]] on %d (record, value) pairs" % (variant, checked),
                  "SimpleIntegerDomain::%s %s" % (name, bad or "could not be evaluated"))
    # update_consistency never clears the flag and sets it exactly when the bounds cross
    f = lib.method("SimpleIntegerDomain", "update_consistency")
    paths = [p for p in SymExec(f).run() if not p.diverged]
    bad = None
    for lb in W:
        for ub in W:
            for inc in (0, 1):
                leaf = _field_leaf({1: {"lower_bound": lb, "upper_bound": ub, "inconsistent": inc}}, None)
                taken = [p for p in paths if _feasible(f, p, leaf)]
                if len(taken) != 1:
                    bad = "has %d feasible paths" % len(taken)
                    break
                a = _apply_path(taken[0], lb, ub, frozenset(), bool(inc), leaf)
                if a[3] != (bool(inc) or lb > ub):
                    bad = "leaves inconsistent=%s for lb=%d, ub=%d, inconsistent=%d" % (a[3], lb, ub, inc)
    n += 1
    led.check(bad is None, rid, "step:update_consistency", f.span, "flag = old flag or lb > ub",
              "SimpleIntegerDomain::update_consistency %s" % bad)
    led.floor(rid, "folding steps", n, 5)


def emission_exact(led, rid, ctx):
    """add_domain_description_to_vector describes the record exactly, relative to the root record"""
    lib = ctx.lib
    f = lib.method("SimpleIntegerDomain", "add_domain_description_to_vector")
    paths = [p for p in SymExec(f, max_paths=2000, max_visits=2).run() if not p.diverged]
    if not paths:
        raise AnchorMissing("paths of add_domain_description_to_vector")
    n = 0
    for mode in ("EnableEqualityMerging", "DisableEqualityMerging"):
        bad = None
        checked = 0
        for olb, oub, OH in _records(1):
            if olb > oub:
                continue
            for lb in range(olb, oub + 1):
                for ub in range(lb, oub + 1):
                    inner = [h for h in range(lb + 1, ub)]
                    for H in [frozenset()] + [frozenset([h]) for h in inner]:
                        # the record is a tightening of the root record; holes of the root inside the
                        # bounds are holes of the record
                        if any(lb < h < ub and h not in H for h in OH):
                            continue
                        if lb in OH or ub in OH:
                            continue
                        hs = sorted(H)
                        state = {1: {"lower_bound": lb, "upper_bound": ub, "inconsistent": 0},
                                 3: {"lower_bound": olb, "upper_bound": oub, "inconsistent": 0}}

                        def extra(e):
                            if e.k == "proj" and peel(e.a, calls=None).k == "call" and \
                                    peel(e.a, calls=None).a.name == "next":
                                return hs[0] if hs else None
                            if e.k == "call" and e.a.name == "contains" and "arg3" in show(e.b[0]):
                                return int(ev(e.b[1], leaf) in OH)
                            if e.k == "call" and e.a.name == "contains" and "arg1" in show(e.b[0]):
                                return int(ev(e.b[1], leaf) in H)
                            return None
                        leaf = _field_leaf(state, None, extra)
                        taken = []
                        for p in paths:
                            mv = [variant_name(f, c, v, o) for c, v, o in p.conds
                                  if c.k == "discr" and (c.b or "").endswith("Mode")]
                            if mv and mv[0] != mode:
                                continue
                            r = _feasible(f, p, leaf, holes_iter=hs)
                            if r is None:
                                bad = "tests an undecidable value"
                            if r:
                                taken.append(p)
                        if bad:
                            break
                        if len(taken) != 1:
                            bad = "has %d feasible paths for record (lb=%d, ub=%d, holes=%s) of root (lb=%d, ub=%d, holes=%s)" % (
                                len(taken), lb, ub, hs, olb, oub, sorted(OH))
                            break
                        emitted = []
                        for c, args, res in taken[0].calls:
                            if c.name == "push":
                                x = peel(args[1], calls=None)
                                if x.k == "call" and x.a.name in CTOR:
                                    try:
                                        emitted.append((CTOR[x.a.name], ev(x.b[1], leaf)))
                                    except Unknown as u:
                                        bad = "emits a predicate on the undecidable value %s" % u
                                else:
                                    bad = "emits %s" % show(x)[:80]
                        if bad:
                            break
                        checked += 1
                        root = gamma(olb, oub, OH, False)
                        S = frozenset(x for x in root if all(holds(v, c, x) for v, c in emitted))
                        G = frozenset(x for x in gamma(lb, ub, H, False) if x in root)
                        if S != G:
                            bad = ("describes the record (lb=%d, ub=%d, holes=%s) of a variable with root domain %s by %s, "
                                   "which admits %s instead of %s: the minimised nogood is %s than the learned one"
                                   % (lb, ub, hs, sorted(root), ["[x %s %d]" % e for e in emitted] or "nothing",
                                      sorted(S), sorted(G), "stronger" if S < G else "weaker (unsound)" if S > G else "different"))
                            break
                    if bad:
                        break
                if bad:
                    break
            if bad:
                break
        n += 1
        led.check(bad is None and checked > 0, rid, "emission:%s" % mode, f.span,
                  "exact on %d (root record, record) pairs" % checked,
                  "SimpleIntegerDomain::add_domain_description_to_vector (%s) %s" % (mode, bad or "could not be evaluated"))
    # ORDER: holes are pushed off the bounds before the redundant ones are dropped
    from .shared import method_view as _mv
    g = _mv(lib, "SemanticMinimiser", "apply_predicates", keep=("propagate_holes_on_lower_bound", "propagate_holes_on_upper_bound", "remove_redundant_holes", "update_consistency", "tighten_lower_bound", "tighten_upper_bound", "add_hole", "assign", "set_lower_bound", "set_upper_bound", "insert", "grow"))
    cfg = g.cfg
    def one(nm):
        cs = g.calls_named(nm)
        return cs[0] if cs else None
    a, b, c, d = one("propagate_holes_on_lower_bound"), one("propagate_holes_on_upper_bound"), \
        one("remove_redundant_holes"), one("update_consistency")
    ok = all(x is not None for x in (a, b, c, d)) and cfg.dominates(a.bb, c.bb) and cfg.dominates(b.bb, c.bb) \
        and cfg.dominates(a.bb, d.bb) and cfg.dominates(b.bb, d.bb)
    n += 1
    led.check(ok, rid, "apply_predicates:holes-leave-the-bounds-first", g.span,
              "propagate_holes_on_{lower,upper}_bound before remove_redundant_holes and update_consistency",
              "apply_predicates drops the holes outside the open interval before the bounds have been moved off "
              "the holes (or judges consistency before): a hole sitting on a bound is forgotten and the "
              "description admits a removed value")
    # every predicate's variable is registered as present before its predicate is folded, so that
    # clean_up resets exactly the records that were touched (also the ones that became inconsistent)
    ins = [c for c in g.calls if c.name == "insert" and "present_ids" in show(resolver(g).operand(c.args[0]))]
    steps = [c for c in g.calls if c.name in ("tighten_lower_bound", "tighten_upper_bound", "add_hole", "assign")]
    ok2 = bool(ins) and len(steps) >= 4 and all(any(cfg.dominates(i_.bb, s_.bb) for i_ in ins) for s_ in steps)
    n += 1
    led.check(ok2, rid, "apply_predicates:registers-before-folding", g.span,
              "present_ids.insert dominates every folding step",
              "apply_predicates folds a predicate into a variable's record before (or without) registering the "
              "variable in present_ids: a record that became inconsistent is never reset by clean_up, and every "
              "later nogood that mentions the variable is dropped as trivially satisfied (blocking clauses "
              "disappear, solutions repeat)")
    led.floor(rid, "emission modes + order", n, 4)


def scratch_reset(led, rid, ctx):
    """SCRATCH-RESET: the vectors the semantic minimiser fills while compiling a nogood are empty
    when the next call starts: either a clear of the field dominates every place that fills it
    (directly or in a method of the minimiser that `minimise` calls first), or no return of
    `minimise` is reachable from a filling site without passing a clear / take of that field.
    Otherwise predicates of an earlier nogood are prepended to the next one, which then never
    fires (for solution enumeration: the blocking clause is lost and a solution repeats)."""
    lib = ctx.lib
    f = lib.method("SemanticMinimiser", "minimise")
    R = resolver(f)
    cfg = f.cfg

    def vec_field(g, Rg, c, i):
        tys = c.term.get("arg_tys", [])
        if i >= len(tys) or "std::vec::Vec<" not in tys[i] or not tys[i].lstrip().startswith("&mut"):
            return None
        e = Rg.operand(c.args[i])
        fl = e.fields()
        root = [x for x in e.walk() if x.k == "arg"]
        if fl and root and all(x.a == 1 for x in root):
            return fl[-1]
        return None

    GROW = ("push", "extend", "extend_from_slice", "insert", "append", "resize")
    CLEAR = ("clear", "take", "truncate", "drain")

    def summarise(g, depth=0):
        """(fields g may fill, fields g clears on every path)"""
        Rg = resolver(g)
        fills, clears = set(), set()
        for c in g.calls:
            for i in range(len(c.args)):
                fl = vec_field(g, Rg, c, i)
                if fl is None:
                    continue
                if c.name in CLEAR:
                    if all(g.cfg.dominates(c.bb, r) for r in g.cfg.returns):
                        clears.add(fl)
                else:
                    fills.add(fl)          # pushes, or hands the vector out mutably
            if depth < 2 and (c.self_ty or "").endswith("SemanticMinimiser") or "SemanticMinimiser" in (c.target_def or ""):
                for h in lib.callees(c):
                    if h is not g and "semantic_minimiser" in h.file:
                        a, b = summarise(h, depth + 1)
                        fills |= a
                        if all(g.cfg.dominates(c.bb, r) for r in g.cfg.returns):
                            clears |= b
        return fills, clears

    # sites in minimise
    fill_sites, clear_sites = {}, {}
    for c in f.calls:
        for i in range(len(c.args)):
            fl = vec_field(f, R, c, i)
            if fl is None:
                continue
            (clear_sites if c.name in CLEAR else fill_sites).setdefault(fl, []).append(c)
        if "SemanticMinimiser" in (c.target_def or "") or (c.self_ty or "").endswith("SemanticMinimiser"):
            for h in lib.callees(c):
                if h is not f and "semantic_minimiser" in h.file:
                    a, b = summarise(h)
                    for fl in a:
                        fill_sites.setdefault(fl, []).append(c)
                    for fl in b:
                        clear_sites.setdefault(fl, []).append(c)
    n = 0
    for fl, sites in sorted(fill_sites.items()):
        n += 1
        cl = clear_sites.get(fl, [])
        entry_clear = any(all(cfg.dominates(x.bb, s.bb) and x.bb != s.bb for s in sites) for x in cl)
        exit_clear = all(not cfg.reaches(s.bb, cfg.returns, avoid=[x.bb for x in cl if x.bb != s.bb], strict=True)
                         for s in sites) and bool(cl)
        led.check(entry_clear or exit_clear, rid, "SemanticMinimiser.%s:reset-per-call" % fl, sites[0].span,
                  "cleared before it is filled" if entry_clear else "cleared on every way out",
                  "SemanticMinimiser::minimise fills `%s` but neither clears it before filling nor on every way "
                  "out (an early return leaves what was collected): the next nogood that is minimised starts with "
                  "the predicates of this one" % fl)
    led.floor(rid, "scratch vectors of the semantic minimiser", n, 1)

"""C12 — root bounds reported by the solver never exclude a solution (structural clauses)."""
from ..main import run_rule
from ..flow import E, show, peel, resolver, call_guarded, guards_of, rel_fact, root_local
from ..symexec import SymExec, variant_name
from ..facts import AnchorMissing
from . import C10

LEVEL = ('TABLE rules with mathematical oracles: the affine view y = a·x+b maps every bound query, '
         'bound setter and bound predicate to the inner operation and rounding dictated by the sign of'
         ' a (all 8 functions × 2 signs, siblings dual to each other); map/invert/scaled/offset '
         'compute a·v+b, ⌈(v−b)/a⌉ / ⌊(v−b)/a⌋, (a·k, b·k), b+k; div_ceil/div_floor are decided by '
         'abstract evaluation over all 14 sign/divisibility cases; the value tests guard with a '
         'divisibility test of v−b by a (seen through private helpers of the view; a scale = ±1 fast '
         'path counts as guarded when the value it hands on normalises to (v−b)/a); Literal delegates '
         'to the same-named method; posting propagates before returning Ok; bounds only tighten; '
         'bounds are only readable at decision level 0 (typestate, shared with C10). Also runs the '
         'LIFE-CYCLE BUNDLE (…L<n>): the typestate rules over arbitrary API sequences of C10 (usable '
         'root state after every call, inert posting in inconsistent states, entry guards, stored-'
         'solution extent). A negative-scale view exchanges exactly LowerBound and UpperBound when it '
         'registers, decided over all event sets (V9 EVENT-FLIP TABLE). Also runs the KERNEL BUNDLE '
         '(VK<n>). Does not decide that root propagation is sound')
TECHNIQUE = "static analysis: path-wise symbolic table recovery + abstract sign evaluation over rustc MIR"

VIEW = "AffineView"


def view_method(lib, name, trait):
    for f in lib.fns.values():
        if f.name == name and f.kind == "AssocFn" and (f.self_adt or "").endswith("::" + VIEW):
            if trait is None and f.impl_trait is None:
                return f
            if trait and f.impl_trait and f.impl_trait.endswith(trait):
                return f
    raise AnchorMissing("%s::%s (%s)" % (VIEW, name, trait))


def field_of_self(e, name):
    e = peel(e, calls=None)
    return e.k == "proj" and e.b and e.b[-1].get("name") == name and \
        peel(e.a, calls=None).k == "arg" and peel(e.a, calls=None).a == 1


def subst(e, args):
    """replace arg i by args[i-1] in an expression"""
    if e.k == "arg":
        if 1 <= e.a <= len(args):
            return args[e.a - 1]
        return e
    k = e.k
    if k == "call":
        return E("call", e.a, [subst(x, args) for x in e.b])
    if k == "binop":
        return E("binop", e.a, subst(e.b, args), subst(e.c, args), e.d)
    if k in ("unop",):
        return E("unop", e.a, subst(e.b, args), e.c)
    if k == "cast":
        return E("cast", e.a, subst(e.b, args), e.c, e.d)
    if k == "discr":
        return E("discr", subst(e.a, args), e.b)
    if k == "agg":
        return E("agg", e.a, e.b, [subst(x, args) for x in e.c], e.d)
    if k in ("tuple", "array"):
        return E(k, [subst(x, args) for x in e.a])
    if k == "ref":
        return E("ref", subst(e.a, args), e.b)
    if k == "proj":
        base = subst(e.a, args)
        proj = list(e.b)
        while proj and "deref" in proj[0] and base.k == "ref":
            base = base.a
            proj = proj[1:]
        if not proj:
            return base
        if base.k == "proj":
            return E("proj", base.a, list(base.b) + proj)
        return E("proj", base, proj)
    return e


def make_inliner(lib):
    """inline tiny pure helpers of the view (single path, no calls) so that a guard moved into a
    helper is still seen as the expression it computes"""
    cache = {}

    def inline(call, args):
        tgt = call.resolved or call.defn
        g = lib.fns.get(tgt) if tgt else None
        if g is None or not (g.self_adt or "").endswith("::" + VIEW) or g.name in ("invert", "map"):
            return None
        if tgt not in cache:
            ps = [p for p in SymExec(g, max_paths=8).run() if not p.diverged]
            cache[tgt] = ps[0].ret if (len(ps) == 1 and not ps[0].calls and ps[0].ret is not None) else None
        r = cache[tgt]
        return None if r is None else subst(r, args)
    return inline


def scale_class(path):
    """'neg' / 'nonneg' from the path condition on self.scale, or None"""
    for cond, val, others in path.conds:
        truth = None
        if val is not None:
            truth = bool(val)
        elif others is not None and len(others) == 1:
            truth = not bool(others[0])
        c = cond
        while c.k == "unop" and c.a == "Not":
            c = c.b
            truth = None if truth is None else (not truth)
        if c.k == "binop" and field_of_self(c.b, "scale") and c.c.k == "const" and c.c.a == 0:
            op = c.a if truth else {"Lt": "Ge", "Ge": "Lt", "Gt": "Le", "Le": "Gt"}.get(c.a)
            if op in ("Lt", "Le"):
                return "neg"
            if op in ("Ge", "Gt"):
                return "nonneg"
        if c.k == "call" and c.a.name == "is_negative" and c.b and field_of_self(c.b[0], "scale"):
            return "neg" if truth else "nonneg"
        if c.k == "call" and c.a.name == "is_positive" and c.b and field_of_self(c.b[0], "scale"):
            return "nonneg" if truth else "neg"
    return None


BOUND_TABLE = {
    # fn: (trait, kind, {class: (inner op, rounding)})
    "lower_bound": ("IntegerVariable", "get", {"nonneg": ("lower_bound", None), "neg": ("upper_bound", None)}),
    "upper_bound": ("IntegerVariable", "get", {"nonneg": ("upper_bound", None), "neg": ("lower_bound", None)}),
    "lower_bound_at_trail_position": ("IntegerVariable", "get", {
        "nonneg": ("lower_bound_at_trail_position", None), "neg": ("upper_bound_at_trail_position", None)}),
    "upper_bound_at_trail_position": ("IntegerVariable", "get", {
        "nonneg": ("upper_bound_at_trail_position", None), "neg": ("lower_bound_at_trail_position", None)}),
    "set_lower_bound": ("IntegerVariable", "set", {"nonneg": ("set_lower_bound", "Up"), "neg": ("set_upper_bound", "Down")}),
    "set_upper_bound": ("IntegerVariable", "set", {"nonneg": ("set_upper_bound", "Down"), "neg": ("set_lower_bound", "Up")}),
    "lower_bound_predicate": ("PredicateConstructor", "set", {
        "nonneg": ("lower_bound_predicate", "Up"), "neg": ("upper_bound_predicate", "Down")}),
    "upper_bound_predicate": ("PredicateConstructor", "set", {
        "nonneg": ("upper_bound_predicate", "Down"), "neg": ("lower_bound_predicate", "Up")}),
}
INNER_OPS = {v[0] for row in BOUND_TABLE.values() for v in row[2].values()}


def value_param(f):
    for a in f.args[1:]:
        if a["ty"] == "i32" or a["ty"].endswith("::Value") or "Value" in a["ty"]:
            return a["local"]
    return None


def v1(led, rid, ctx):
    lib = ctx.lib
    inline = make_inliner(lib)
    rows = 0
    for name, (trait, kind, want) in BOUND_TABLE.items():
        f = view_method(lib, name, trait)
        vp = value_param(f) if kind == "set" else None
        paths = [p for p in SymExec(f, inline=inline).run() if not p.diverged]
        seen = {}
        for p in paths:
            cls = scale_class(p)
            inner = [(c, a, r) for (c, a, r) in p.calls if c.name in INNER_OPS and c.trait and a
                     and peel(a[0], calls=None).k == "proj"
                     and peel(a[0], calls=None).b[-1].get("name") == "inner"]
            key = "%s:%s" % (name, cls or "?")
            if cls is None or len(inner) != 1:
                led.bad(rid, key, f.span, "path of AffineView::%s not classified by the sign of the "
                        "scale, or not exactly one inner bound operation on it (class %s, inner ops %s)"
                        % (name, cls, [c.name for c, _, _ in inner]))
                continue
            c, a, r = inner[0]
            rounding = None
            ok_wire = True
            if kind == "set":
                inv = p.called("invert")
                if len(inv) != 1:
                    ok_wire = False
                else:
                    ic, ia, ir = inv[0]
                    rr = peel(ia[2], calls=None)
                    rounding = rr.b if rr.k == "agg" else None
                    v_in = peel(ia[1], calls=None)
                    # the value inverted is the function's value parameter; the inverted value is
                    # what the inner operation receives; the inner result is returned
                    ok_wire = (v_in.k == "arg" and v_in.a == vp and
                               any(x is ir or (x.k == "call" and x.a is ic) for x in a[1:]) and
                               p.ret is not None and p.ret.k == "call" and p.ret.a is c)
            else:
                m = p.called("map")
                ok_wire = (len(m) == 1 and m[0][1][1].k == "call" and m[0][1][1].a is c and
                           p.ret is not None and p.ret.k == "call" and p.ret.a is m[0][0])
            got = (c.name, rounding)
            seen[cls] = got
            rows += 1
            led.check(got == want[cls] and ok_wire, rid, key, c.span,
                      "scale %s → inner.%s%s" % (cls, got[0], " with rounding %s" % rounding if rounding else ""),
                      "AffineView::%s with %s scale uses inner.%s%s%s — the oracle (y=a·x+b) demands "
                      "inner.%s%s" % (name, "negative" if cls == "neg" else "non-negative", got[0],
                                      " rounding %s" % rounding if rounding else "",
                                      "" if ok_wire else " [value/result wiring broken]",
                                      want[cls][0], " rounding %s" % want[cls][1] if want[cls][1] else ""))
        for cls in ("neg", "nonneg"):
            if cls not in seen:
                led.bad(rid, "%s:%s" % (name, cls), f.span, "AffineView::%s has no path for %s scale" % (name, cls))
    led.floor(rid, "table rows", rows, 16)


def v1_arith(led, rid, ctx):
    lib = ctx.lib
    # map: scale * value + offset
    f = view_method(lib, "map", None)
    ps = [p for p in SymExec(f).run() if not p.diverged]
    ok = False
    if len(ps) == 1 and ps[0].ret is not None:
        e = ps[0].ret
        if e.k == "binop" and e.a == "Add":
            sides = [e.b, e.c]
            mul = [x for x in sides if x.k == "binop" and x.a == "Mul"]
            off = [x for x in sides if field_of_self(x, "offset")]
            if mul and off:
                ms = [mul[0].b, mul[0].c]
                ok = any(field_of_self(x, "scale") for x in ms) and \
                    any(peel(x, calls=None).k == "arg" and peel(x, calls=None).a == 2 for x in ms)
    led.check(ok, rid, "map", f.span, "scale·value + offset",
              "AffineView::map does not compute scale·value + offset: %r" % (ps[0].ret if ps else None))
    # invert: (value − offset) then Up → div_ceil(·, scale), Down → div_floor(·, scale)
    f = view_method(lib, "invert", None)
    ps = [p for p in SymExec(f).run() if not p.diverged]
    seen = {}
    for p in ps:
        var = None
        for cond, val, others in p.conds:
            if cond.k == "discr" and (cond.b or "").endswith("Rounding"):
                var = variant_name(f, cond, val, others)
        divs = [(c, a) for (c, a, r) in p.calls if c.name in ("div_ceil", "div_floor")]
        if var is None or len(divs) != 1:
            led.bad(rid, "invert:?", f.span, "invert: path without a rounding case or without exactly "
                    "one division (%s, %s)" % (var, [c.name for c, _ in divs]))
            continue
        c, a = divs[0]
        num = peel(a[0], calls=None)
        num_ok = (num.k == "binop" and num.a == "Sub" and peel(num.b, calls=None).k == "arg"
                  and peel(num.b, calls=None).a == 2 and field_of_self(num.c, "offset"))
        den_ok = field_of_self(a[1], "scale")
        want = {"Up": "div_ceil", "Down": "div_floor"}[var] if var in ("Up", "Down") else None
        ret_ok = p.ret is not None and p.ret.k == "call" and p.ret.a is c
        seen[var] = c.name
        led.check(c.name == want and num_ok and den_ok and ret_ok, rid, "invert:%s" % var, c.span,
                  "%s → %s(value − offset, scale)" % (var, c.name),
                  "invert with rounding %s computes %s(%r, %r) — expected %s(value − offset, scale)"
                  % (var, c.name, a[0], a[1], want))
    led.check(set(seen) == {"Up", "Down"}, rid, "invert:both-roundings", f.span, "",
              "invert does not handle both roundings: %s" % sorted(seen))
    # scaled / offset on a view, and the constructors on plain variables
    f = view_method(lib, "scaled", "TransformableVariable")
    muls = {}
    adds = {}
    for b in f.blocks:
        for s in b["stmts"]:
            if s["s"] == "assign" and s["rv"]["r"] == "binop":
                op = s["rv"]["op"].replace("WithOverflow", "")
                from ..facts import op_place
                pa = op_place(s["rv"]["a"])
                if pa and pa["proj"]:
                    nm = [e.get("name") for e in pa["proj"] if "field" in e]
                    if nm:
                        (muls if op == "Mul" else adds)[nm[-1]] = root_local(f, s["rv"]["b"])
    ok = set(muls) == {"scale", "offset"} and all(v == 2 for v in muls.values()) and not adds
    led.check(ok, rid, "view.scaled", f.span, "scale·k and offset·k",
              "AffineView::scaled(k) must multiply both scale and offset by k (found ×:%s +:%s)"
              % (sorted(muls), sorted(adds)))
    f = view_method(lib, "offset", "TransformableVariable")
    muls, adds = {}, {}
    for b in f.blocks:
        for s in b["stmts"]:
            if s["s"] == "assign" and s["rv"]["r"] == "binop":
                op = s["rv"]["op"].replace("WithOverflow", "")
                from ..facts import op_place
                pa = op_place(s["rv"]["a"])
                if pa and pa["proj"]:
                    nm = [e.get("name") for e in pa["proj"] if "field" in e]
                    if nm:
                        (muls if op == "Mul" else adds if op == "Add" else {})[nm[-1]] = root_local(f, s["rv"]["b"])
    ok = set(adds) == {"offset"} and not muls and adds["offset"] == 2
    led.check(ok, rid, "view.offset", f.span, "offset + k",
              "AffineView::offset(k) must add k to the offset only (found ×:%s +:%s)" % (sorted(muls), sorted(adds)))
    for adt in ("DomainId", "Literal"):
        for meth, want in (("scaled", ("arg2", 0)), ("offset", (1, "arg2"))):
            g = lib.method(adt, meth, "TransformableVariable")
            R = resolver(g)
            news = [c for c in g.calls if c.name == "new" and "AffineView" in (c.self_ty or "")]
            ok = len(news) == 1
            if ok:
                sc = peel(R.operand(news[0].args[1]), calls=None)
                of = peel(R.operand(news[0].args[2]), calls=None)

                def m(e, w):
                    if w == "arg2":
                        return e.k == "arg" and e.a == 2
                    return e.k == "const" and e.a == w
                ok = m(sc, want[0]) and m(of, want[1])
            led.check(ok, rid, "%s.%s" % (adt, meth), g.span, "AffineView::new(self, %s, %s)" % want,
                      "%s::%s must build AffineView::new(self, %s, %s)" % (adt, meth, want[0], want[1]))


# ---- abstract sign evaluation of div_ceil / div_floor --------------------------------------

class CannotEvaluate(Exception):
    pass


def sign_cases():
    cases = []
    for s2 in (-1, 1):
        cases.append({"s1": 0, "s2": s2, "mag": "lt", "exact": True})
        for s1 in (-1, 1):
            cases.append({"s1": s1, "s2": s2, "mag": "lt", "exact": False})
            cases.append({"s1": s1, "s2": s2, "mag": "ge", "exact": True})
            cases.append({"s1": s1, "s2": s2, "mag": "ge", "exact": False})
    return cases


def sgn(e, case):
    e = peel(e, calls=None, casts=False)
    if e.k == "arg":
        return case["s1"] if e.a == 1 else case["s2"] if e.a == 2 else None
    if e.k == "const" and e.a is not None:
        return (e.a > 0) - (e.a < 0)
    if e.k == "binop" and e.a in ("Div", "Rem"):
        a, b = peel(e.b, calls=None), peel(e.c, calls=None)
        if a.k == "arg" and a.a == 1 and b.k == "arg" and b.a == 2:
            if e.a == "Div":
                return 0 if case["mag"] == "lt" else case["s1"] * case["s2"]
            return 0 if case["exact"] else case["s1"]
    return None


def beval(e, case):
    if e.k == "const" and e.b == "bool":
        return bool(e.a)
    if e.k == "unop" and e.a == "Not":
        return not beval(e.b, case)
    if e.k == "binop":
        op = e.a
        if op in ("BitAnd", "BitOr", "BitXor") or (op in ("Eq", "Ne") and e.d == "bool"):
            x, y = beval(e.b, case), beval(e.c, case)
            return {"BitAnd": x and y, "BitOr": x or y, "BitXor": x != y, "Eq": x == y, "Ne": x != y}[op]
        if op in ("Lt", "Le", "Gt", "Ge", "Eq", "Ne"):
            l, r = e.b, e.c
            lc = peel(l, calls=None)
            rc = peel(r, calls=None)
            if rc.k == "const" and rc.a == 0:
                s = sgn(l, case)
                if s is None:
                    raise CannotEvaluate(show(e))
                return {"Lt": s < 0, "Le": s <= 0, "Gt": s > 0, "Ge": s >= 0, "Eq": s == 0, "Ne": s != 0}[op]
            if lc.k == "const" and lc.a == 0:
                s = sgn(r, case)
                if s is None:
                    raise CannotEvaluate(show(e))
                return {"Lt": 0 < s, "Le": 0 <= s, "Gt": 0 > s, "Ge": 0 >= s, "Eq": s == 0, "Ne": s != 0}[op]
            # sign(x) vs sign(y) comparisons such as (r < 0) == (other < 0) arrive as bool Eq above
    raise CannotEvaluate(show(e))


def v1_div(led, rid, ctx):
    lib = ctx.lib
    for name, oracle in (("div_ceil", lambda c: 1 if (not c["exact"] and c["s1"] * c["s2"] > 0) else 0),
                         ("div_floor", lambda c: -1 if (not c["exact"] and c["s1"] * c["s2"] < 0) else 0)):
        f = None
        for g in lib.fns.values():
            if g.name == name and g.impl_trait and g.impl_trait.endswith("NumExt") and g.self_ty == "i32":
                f = g
        if f is None:
            raise AnchorMissing("<i32 as NumExt>::%s" % name)
        n = 0
        for case in sign_cases():
            def decide(cond, term, case=case):
                return 1 if beval(cond, case) else 0
            try:
                ps = SymExec(f, decide=decide).run()
            except CannotEvaluate as ex:
                led.bad(rid, "%s:unrecognised-condition" % name, f.span,
                        "%s branches on `%s`, which the sign analysis cannot evaluate — the rounding "
                        "rule cannot be vouched for" % (name, ex))
                break
            ps = [p for p in ps if not p.diverged]
            k = None
            if len(ps) == 1 and ps[0].ret is not None:
                e = peel(ps[0].ret, calls=None)
                if e.k == "binop" and e.a in ("Div",):
                    k = 0
                elif e.k == "binop" and e.a in ("Add", "Sub") and peel(e.b, calls=None).k == "binop" \
                        and peel(e.b, calls=None).a == "Div" and e.c.k == "const":
                    k = e.c.a if e.a == "Add" else -e.c.a
            n += 1
            desc = "dividend %s, divisor %s, |dividend|%s|divisor|, %s" % (
                {-1: "<0", 0: "=0", 1: ">0"}[case["s1"]], {-1: "<0", 1: ">0"}[case["s2"]],
                "<" if case["mag"] == "lt" else "≥", "exact" if case["exact"] else "inexact")
            led.check(k == oracle(case), rid, "%s:%s" % (name, "%+d%+d%s%s" % (
                case["s1"], case["s2"], case["mag"], "e" if case["exact"] else "i")), f.span,
                "%s → truncated quotient %+d" % (desc, k or 0),
                "%s (%s) returns truncated quotient %s, the %s of the exact quotient is truncated "
                "quotient %+d" % (name, desc, "%+d" % k if k is not None else "an unrecognised value",
                                  "ceiling" if name == "div_ceil" else "floor", oracle(case)))
        led.count("V1c:%s sign cases" % name, n)


DIVIS_TABLE = {
    # fn: (trait, inner op, what the non-divisible branch must yield)
    "contains": ("IntegerVariable", "contains", ("const", 0)),
    "contains_at_trail_position": ("IntegerVariable", "contains_at_trail_position", ("const", 0)),
    "remove": ("IntegerVariable", "remove", ("agg", "Ok")),
    "equality_predicate": ("PredicateConstructor", "equality_predicate", ("call", "trivially_false")),
    "disequality_predicate": ("PredicateConstructor", "disequality_predicate", ("call", "trivially_true")),
}


def is_divisibility_test(cond, vp):
    """cond ≡ ((value − offset) rem scale == 0); returns (recognised, polarity-of-true)"""
    c = cond
    pol = True
    while c.k == "unop" and c.a == "Not":
        c = c.b
        pol = not pol
    if c.k != "binop" or c.a not in ("Eq", "Ne"):
        return False, None
    if c.a == "Ne":
        pol = not pol
    l, r = peel(c.b, calls=None), peel(c.c, calls=None)
    if l.k == "const":
        l, r = r, l
    if not (r.k == "const" and r.a == 0):
        return False, None
    num = den = None
    if l.k == "binop" and l.a == "Rem":
        num, den = l.b, l.c
    elif l.k == "call" and l.a.name in ("rem_euclid", "wrapping_rem", "checked_rem") and len(l.b) == 2:
        num, den = l.b
    if num is None:
        return False, None
    num = peel(num, calls=None)
    ok = (num.k == "binop" and num.a == "Sub" and peel(num.b, calls=None).k == "arg"
          and peel(num.b, calls=None).a == vp and field_of_self(num.c, "offset")
          and field_of_self(den, "scale"))
    return ok, pol


def _unit_scale_fact(cond, val, others):
    """c ∈ {1, −1} if the path fact says `self.scale == c` holds"""
    c = cond
    pol = True
    while c.k == "unop" and c.a == "Not":
        c = c.b
        pol = not pol
    if c.k != "binop" or c.a not in ("Eq", "Ne"):
        return None
    if c.a == "Ne":
        pol = not pol
    l, r = peel(c.b, calls=None), peel(c.c, calls=None)
    if l.k == "const":
        l, r = r, l
    if not (r.k == "const" and r.a in (1, -1) and field_of_self(l, "scale")):
        return None
    truth = bool(val) if val is not None else (not bool(others[0]) if others else None)
    return r.a if truth is not None and truth == pol else None


def _lin(e, vp, c):
    """e as a·value + b·offset + k with self.scale = c, or None if e is not linear in those"""
    from fractions import Fraction as Fr
    e = peel(e, calls=None)
    if e.k == "arg" and e.a == vp:
        return (Fr(1), Fr(0), Fr(0))
    if field_of_self(e, "offset"):
        return (Fr(0), Fr(1), Fr(0))
    if field_of_self(e, "scale"):
        return (Fr(0), Fr(0), Fr(c))
    if e.k == "const" and isinstance(e.a, int):
        return (Fr(0), Fr(0), Fr(e.a))
    if e.k == "unop" and e.a == "Neg":
        x = _lin(e.b, vp, c)
        return None if x is None else tuple(-t for t in x)
    if e.k == "binop":
        op = e.a.replace("WithOverflow", "").replace("Unchecked", "")
        x, y = _lin(e.b, vp, c), _lin(e.c, vp, c)
        if x is None or y is None:
            return None
        if op == "Add":
            return tuple(p + q for p, q in zip(x, y))
        if op == "Sub":
            return tuple(p - q for p, q in zip(x, y))
        if op == "Mul":
            if x[0] == 0 and x[1] == 0:
                return tuple(x[2] * q for q in y)
            if y[0] == 0 and y[1] == 0:
                return tuple(y[2] * p for p in x)
            return None
        if op == "Div" and y[0] == 0 and y[1] == 0 and y[2] in (1, -1):
            return tuple(p / y[2] for p in x)
    if e.k == "proj" and e.b and e.b[-1].get("index") == 0 and len(e.b) == 1:
        return _lin(e.a, vp, c)          # the value half of a checked-arithmetic pair
    return None


def v1_divis(led, rid, ctx):
    from ..inline import view as _view
    lib = ctx.lib
    inline = make_inliner(lib)
    for name, (trait, inner_op, other) in DIVIS_TABLE.items():
        f = _view(lib, view_method(lib, name, trait), want=lambda g: (g.self_adt or "").endswith("::" + VIEW)
                  and g.kind != "Closure" and g.vis != "pub" and g.impl_trait is None
                  and g.name not in ("invert", "map"))
        vp = None
        for a in f.args[1:]:
            if a["ty"] == "i32" or "Value" in a["ty"]:
                vp = a["local"]
        paths = [p for p in SymExec(f, inline=inline).run() if not p.diverged]
        n_div = n_not = 0
        for p in paths:
            verdict = None
            for cond, val, others in p.conds:
                rec, pol = is_divisibility_test(cond, vp)
                if rec:
                    truth = bool(val) if val is not None else (not bool(others[0]) if others else None)
                    verdict = (truth == pol)
            unit = None
            if verdict is None:
                for cond, val, others in p.conds:
                    u = _unit_scale_fact(cond, val, others)
                    if u is not None:
                        unit = u
                if unit is not None:
                    # scale = ±1: every value has a pre-image; the fast path must hand the inner
                    # variable (value − offset) / scale, in whatever arithmetic spelling
                    n_div += 1
                    inner = [(c, a, r) for (c, a, r) in p.calls if c.name == inner_op and c.trait]
                    ok = len(inner) == 1 and p.ret is not None and p.ret.k == "call" and p.ret.a is inner[0][0]
                    if ok:
                        from fractions import Fraction as Fr
                        want = (Fr(1, unit), Fr(-1, unit), Fr(0))
                        ok = any(_lin(x, vp, unit) == want or
                                 (peel(x, calls=None).k == "call" and peel(x, calls=None).a.name == "invert")
                                 for x in inner[0][1][1:])
                    led.check(ok, rid, "%s:unit-scale(%d)" % (name, unit), f.span,
                              "inner.%s((value − offset)/scale)" % inner_op,
                              "on the scale == %d fast path AffineView::%s must return inner.%s of "
                              "(value − offset)/scale" % (unit, name, inner_op))
                    continue
            if verdict is None:
                led.bad(rid, "%s:guard" % name, f.span,
                        "AffineView::%s is not guarded by a divisibility test of (value − offset) by "
                        "scale (path conditions: %s)" % (name, [show(c) for c, _, _ in p.conds]))
                continue
            inner = [(c, a, r) for (c, a, r) in p.calls if c.name == inner_op and c.trait]
            if verdict:
                n_div += 1
                inv = p.called("invert")
                ok = (len(inner) == 1 and len(inv) == 1 and
                      peel(inv[0][1][1], calls=None).k == "arg" and peel(inv[0][1][1], calls=None).a == vp and
                      any(x.k == "call" and x.a is inv[0][0] for x in inner[0][1][1:]) and
                      p.ret is not None and p.ret.k == "call" and p.ret.a is inner[0][0])
                led.check(ok, rid, "%s:divisible" % name, f.span, "inner.%s(invert(value))" % inner_op,
                          "on the divisible branch AffineView::%s must return inner.%s(invert(value))"
                          % (name, inner_op))
            else:
                n_not += 1
                r = p.ret
                ok = not inner and r is not None
                if ok:
                    if other[0] == "const":
                        ok = r.k == "const" and r.a == other[1]
                    elif other[0] == "agg":
                        ok = r.k == "agg" and r.b == other[1]
                    else:
                        ok = r.k == "call" and r.a.name == other[1]
                led.check(ok, rid, "%s:not-divisible" % name, f.span, "yields %s" % (other[1],),
                          "for a value the view cannot take AffineView::%s must yield %s and leave "
                          "the inner variable alone (returns %r)" % (name, other[1], r))
        led.check(n_div >= 1 and n_not >= 1, rid, "%s:both-branches" % name, f.span, "",
                  "AffineView::%s lacks the divisible or the non-divisible branch" % name)


def v1b(led, rid, ctx):
    """Literal delegates every IntegerVariable / PredicateConstructor method to the same-named
    method of its integer_variable"""
    lib = ctx.lib
    n = 0
    for imp in lib.impls:
        if not (imp.get("self_adt") or "").endswith("::Literal"):
            continue
        tr = imp.get("trait") or ""
        if not (tr.endswith("::IntegerVariable") or tr.endswith("::PredicateConstructor")):
            continue
        for it in imp["items"]:
            if it["kind"] != "fn":
                continue
            f = lib.fns.get(it["def"])
            if f is None:
                continue
            n += 1
            same = []
            other = []
            R = resolver(f)
            for c in f.calls:
                if not c.trait or not c.args:
                    continue
                recv = peel(R.operand(c.args[0]), calls=None)
                if recv.k == "proj" and recv.b and recv.b[-1].get("name") == "integer_variable":
                    (same if c.name == f.name else other).append(c)
            led.check(len(same) == 1 and not other, rid, "Literal::%s" % f.name, f.span,
                      "delegates to integer_variable.%s" % f.name,
                      "Literal::%s delegates to %s instead of integer_variable.%s"
                      % (f.name, [c.name for c in other] or "nothing", f.name))
    led.floor(rid, "delegating methods", n, 14)


def v2(led, rid, ctx):
    lib = ctx.lib
    from ..flow import aggregates
    for name in ("add_propagator", "add_nogood"):
        f = lib.method("ConstraintSatisfactionSolver", name)
        cfg = f.cfg
        props = f.calls_named("propagate")
        led.check(len(props) >= 1, rid, "%s:propagates" % name, f.span, "",
                  "%s never runs propagation: root bounds would not reflect the new constraint" % name)
        for bb, i, s in aggregates(f, "Result", "Ok"):
            dom = any(cfg.dominates(c.bb, bb) for c in props)
            early = call_guarded(f, bb, "is_inconsistent", False) is None and False
            led.check(dom, rid, "%s:Ok-after-propagate" % name, "%s:%d" % (f.file, s["line"]),
                      "Ok(()) is dominated by propagate()",
                      "%s can return Ok(()) without having propagated" % name)
    f = lib.method("ConstraintSatisfactionSolver", "add_propagator")
    enq = [c for c in f.calls if c.name in ("enqueue_propagator", "initialise_at_root")]
    led.check(len(enq) >= 2, rid, "add_propagator:init+enqueue", f.span, "",
              "add_propagator must initialise the propagator at the root and enqueue it")


def v3(led, rid, ctx):
    """a weaker bound is never written"""
    lib = ctx.lib
    for name, weaker in (("tighten_lower_bound", ("Le", "Lt")), ("tighten_upper_bound", ("Ge", "Gt"))):
        f = lib.method("Assignments", name)
        writes = [c for c in f.calls if c.name in ("set_lower_bound", "set_upper_bound")]
        led.check(len(writes) >= 1, rid, "%s:writes" % name, f.span, "", "%s no longer writes the domain" % name)
        for c in writes:
            ok = False
            for g in guards_of(f, c.bb):
                rf = rel_fact(g)
                if rf is None:
                    continue
                op, l, r = rf
                lp, rp = peel(l), peel(r)
                # new bound strictly tighter than the current one: new > lb / new < ub
                new_is_l = lp.k == "arg"
                cur = rp if new_is_l else lp
                if cur.k == "call" and cur.a.name in ("get_lower_bound", "get_upper_bound", "lower_bound", "upper_bound"):
                    strict = {"tighten_lower_bound": "Gt", "tighten_upper_bound": "Lt"}[name]
                    flip = {"Gt": "Lt", "Lt": "Gt", "Ge": "Le", "Le": "Ge"}
                    eff = op if new_is_l else flip.get(op)
                    if eff == strict:
                        ok = True
            led.check(ok, rid, "%s:only-tighter" % name, c.span, "write dominated by new bound strictly tighter",
                      "%s can write a bound that is not strictly tighter than the current one" % name)


def v_level(led, rid, ctx):
    res = C10.explore(ctx.lib)
    it, apis, B, trans, guards = res
    bad = set()
    for label, b, st2, rt in trans:
        is_guard = rt is not None and rt[0] == "enum" and rt[2] == "UnsatisfiableUnderAssumptions"
        if is_guard or label.startswith("UnsatisfiableUnderAssumptions::extract_core"):
            continue
        if st2[1] != 0:
            key = "%s->L%s" % (label, st2[1])
            if key not in bad:
                bad.add(key)
                led.bad(rid, key, next((f.span for l, f, _ in apis if l == label), None),
                        "`%s` can return with decisions still on the trail: lower_bound / upper_bound / "
                        "get_literal_value would then report search-state values as root bounds" % label)
    if not bad:
        led.ok(rid, "all-api-returns-at-root", None, "%d API transitions end at decision level 0" % len(trans))
    led.floor(rid, "API transitions", len(trans), 30)


def v9(led, rid, ctx):
    """EVENT-FLIP TABLE: a view with a negative scale exchanges lower- and upper-bound events when it
    registers a propagator with its inner variable, and only those: for every subset S of
    {LowerBound, UpperBound, Assign, Removal} and both signs of the scale, the set handed to the inner
    watch_all / watch_all_backtrack is S with LowerBound and UpperBound exchanged (negative) or S
    itself (non-negative).  The path summaries are evaluated over Python sets; nothing is run."""
    import itertools
    from ..symexec import SymExec
    lib = ctx.lib
    EV = ("LowerBound", "UpperBound", "Assign", "Removal")

    class Undec(Exception):
        pass

    def ev(e, S, neg):
        e = peel(e, calls=None)
        if e.k == "arg" and e.a == 3:
            return frozenset(S)
        if e.k == "agg" and (e.a or "").endswith("IntDomainEvent"):
            return frozenset([e.b])
        if e.k == "const" and e.a is not None:
            return e.a
        if e.k == "call":
            n_ = e.a.name
            a = [ev(x, S, neg) for x in e.b]
            if n_ == "bitor":
                return frozenset(a[0]) | frozenset(a[1])
            if n_ == "intersection" or n_ == "bitand":
                return frozenset(a[0]) & frozenset(a[1])
            if n_ in ("union",):
                return frozenset(a[0]) | frozenset(a[1])
            if n_ in ("symmetrical_difference", "bitxor"):
                return frozenset(a[0]) ^ frozenset(a[1])
            if n_ in ("difference", "sub"):
                return frozenset(a[0]) - frozenset(a[1])
            if n_ == "complement":
                return frozenset(EV) - frozenset(a[0])
            if n_ == "len":
                return len(a[0])
            if n_ == "is_empty":
                return int(len(a[0]) == 0)
            if n_ == "contains":
                return int(next(iter(a[1])) in a[0]) if isinstance(a[1], frozenset) and len(a[1]) == 1 else int(a[1] <= a[0])
            if n_ == "is_negative":
                return int(neg)
            if n_ == "is_positive":
                return int(not neg)
            if n_ in ("clone", "into", "from"):
                return a[0]
            raise Undec(n_)
        if e.k == "binop":
            x, y = ev(e.b, S, neg), ev(e.c, S, neg)
            op = e.a
            if op == "Eq":
                return int(x == y)
            if op == "Ne":
                return int(x != y)
            if op in ("Lt", "Le", "Gt", "Ge"):
                return int({"Lt": x < y, "Le": x <= y, "Gt": x > y, "Ge": x >= y}[op])
            if op in ("BitAnd",):
                return int(bool(x) and bool(y))
            if op in ("BitOr",):
                return int(bool(x) or bool(y))
            raise Undec(op)
        if e.k == "unop" and e.a == "Not":
            return int(not ev(e.b, S, neg))
        if e.k == "proj" and "scale" in e.fields():
            return -1 if neg else 1
        raise Undec(show(e)[:60])

    n = 0
    for f in lib.fns.values():
        if f.name not in ("watch_all", "watch_all_backtrack") or "affine_view" not in f.file:
            continue
        paths = [p for p in SymExec(f, max_paths=200).run() if not p.diverged]
        bad = None
        rows = 0
        try:
            for k in range(len(EV) + 1):
                for S in itertools.combinations(EV, k):
                    for neg in (False, True):
                        got = None
                        for p in paths:
                            ok = True
                            for cond, val, others in p.conds:
                                if cond.k == "discr":
                                    raise Undec("discriminant")
                                w = ev(cond, S, neg)
                                if (val is not None and w != val) or (val is None and others and w in others):
                                    ok = False
                                    break
                            if not ok:
                                continue
                            inner = [(c, a) for c, a, r in p.calls if c.name == f.name]
                            if len(inner) != 1:
                                raise Undec("%d forwarding calls" % len(inner))
                            got = ev(inner[0][1][-1], S, neg)
                            break
                        if got is None:
                            raise Undec("no path for %s" % (S,))
                        rows += 1
                        swap = {"LowerBound": "UpperBound", "UpperBound": "LowerBound"}
                        want = frozenset(swap.get(x, x) for x in S) if neg else frozenset(S)
                        if got != want and bad is None:
                            bad = ("registers %s with the inner variable for the events %s on a view with a %s scale "
                                   "(expected %s)" % (sorted(got), sorted(S), "negative" if neg else "non-negative", sorted(want)))
        except Undec as u:
            bad = "uses %s, which this rule cannot evaluate" % u
        n += 1
        led.check(bad is None, rid, "AffineView::%s:event-flip" % f.name, f.span, "%d (event set, sign) rows" % rows,
                  "AffineView::%s %s: a propagator that asked for bound events of the view is not told about the "
                  "corresponding change of the inner variable (for watch_all_backtrack: not told when it is undone), "
                  "and incremental propagators keep stale state" % (f.name, bad))
    led.floor(rid, "event registrations of AffineView", n, 2)


def run(ctx, led):
    run_rule(led, "V1", "affine view bound functions: sign of scale → inner operation and rounding "
             "(8 functions × 2 signs) against the oracle of y = a·x + b, incl. value/result wiring", v1, ctx)
    run_rule(led, "V1a", "map / invert / scaled / offset compute a·v+b, div_ceil|div_floor((v−b), a), "
             "(a·k, b·k), b+k; plain variables become AffineView::new(x, k, 0) / (x, 1, k)", v1_arith, ctx)
    run_rule(led, "V1c", "div_ceil / div_floor: abstract evaluation over the 14 sign × magnitude × "
             "divisibility cases equals ⌈·⌉ / ⌊·⌋ of the exact quotient", v1_div, ctx)
    run_rule(led, "V1d", "contains / remove / equality / disequality on a view are guarded by a "
             "divisibility test of (value − offset) by scale; the non-divisible branch answers "
             "false / no-op / trivially false / trivially true", v1_divis, ctx)
    run_rule(led, "V1b", "Literal delegates each IntegerVariable / PredicateConstructor method to the "
             "same-named method of its integer_variable", v1b, ctx)
    run_rule(led, "V2", "posting propagates to a fix-point before returning Ok(())", v2, ctx)
    run_rule(led, "V3", "Assignments::tighten_* write only strictly tighter bounds", v3, ctx)
    run_rule(led, "V4", "every API function returns at decision level 0, so bounds read between "
             "calls are root bounds (TYPESTATE, shared with C10)", v_level, ctx)
    from . import C09 as _C09
    run_rule(led, "V5", "a reified propagator forgets its cached inconsistency on every synchronise, so a conflict of an abandoned branch cannot fix the reification literal at the root (shared with C09-R3)", _C09.r3, ctx)
    from . import fznrules as _fz
    run_rule(led, "V9", "EVENT-FLIP TABLE: a negative-scale view exchanges exactly LowerBound and UpperBound when registering (watch_all, watch_all_backtrack)", v9, ctx)
    run_rule(led, "V6", "ZIP-ALIGNMENT: weights and variables are paired position by position (shared with C13-F11)", _fz.zip_alignment, ctx)
    from . import kernel as _kernel2
    _kernel2.run_lifecycle(led, ctx, "V")
    _kernel2.run_bundle(led, ctx, "V")

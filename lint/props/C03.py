"""C03 — solution iteration yields every solution exactly once (structural clauses B1–B3)."""
from ..main import run_rule
from ..flow import resolver, peel, root_local, guards_of, show
from ..symexec import SymExec, variant_name, path_variants
from ..facts import AnchorMissing, op_const_int

LEVEL = ('decides the blocking-clause mechanism: the clause ranges over every domain of the solution '
         '(no filtering/skipping adaptor; domain enumeration starts after the dummy and ends at '
         "num_domains) with one `!=` predicate on that domain's own value; it is stored on the "
         'Satisfiable arm and added — before the next solve, on every path — at the next call; the '
         'result mapping (Satisfiable→Solution, Unsatisfiable→Finished iff a solution was seen, '
         'Unknown→Unknown, failed blocking clause→Finished; an answer given from an "enumeration '
         'ended" memo field is admitted only if the memo is set solely where the end was established).'
         ' Also decides kernel hygiene the blocking clauses rely on: no element skipped after '
         'swap_remove, nogoods deleted only when not a reason (B4/B5), implicit reasons imply their '
         'predicate (B6), the nogood propagator looks at exactly the watchers whose predicate became '
         'true and never drops an unvisited one (B7/B8). Also runs the KERNEL BUNDLE (rule ids …K<n>):'
         ' the kernel rules every verdict depends on — predicate algebra, nogood watchers, minimisers,'
         ' conflict-analysis tables, nogood deletion, decision read-back, no-learning resolver, '
         'constraint builders, reified reasons — wherever they are not already registered here under '
         'another id. Also runs the LIFE-CYCLE BUNDLE (…L<n>): the typestate rules over arbitrary API '
         'sequences of C10 (usable root state after every call, inert posting in inconsistent states, '
         'entry guards, stored-solution extent). Does not decide that the underlying solves are '
         'correct (C01/C02)')
TECHNIQUE = "static analysis: callee-set / def-use / must-pass / symbolic table over rustc MIR"

ADAPTORS_OK = {"map", "collect", "into_iter", "iter", "copied", "cloned", "rev"}


def b1(led, rid, ctx):
    lib = ctx.lib
    f = lib.fn("solution_iterator::get_blocking_clause")
    iters = [c for c in f.calls if (c.trait or "").endswith("iter::Iterator") or
             (c.defn or "").startswith("std::iter::")]
    bad = [c.name for c in iters if c.name not in ADAPTORS_OK and c.name not in ("next", "into_iter")]
    led.check(not bad, rid, "no-selecting-adaptor", f.span, "iterator chain: %s" % [c.name for c in iters],
              "the blocking clause is built through %s: some domains are left out of it, so other "
              "solutions are blocked too (or the same solution is found again)" % bad)
    gd = f.calls_named("get_domains")
    led.check(len(gd) == 1 and root_local(f, gd[0].args[0]) == 1, rid, "ranges-over-solution-domains",
              f.span, "", "the clause does not range over solution.get_domains()")
    cl = [c for c in f.closures]
    if not cl:
        # loop form: `for variable in solution.get_domains() { clause.push([variable != value(variable)]) }`
        R = resolver(f)
        pushes = [c for c in f.calls if c.name == "push" and len(c.args) >= 2]
        other = [c.name for c in f.calls if c.name in ("retain", "remove", "truncate", "pop", "swap_remove", "drain", "clear", "dedup")]
        preds = [c for c in f.calls if c.name in ("disequality_predicate", "equality_predicate",
                                                  "lower_bound_predicate", "upper_bound_predicate")]
        ok = len(pushes) == 1 and not other and len(preds) == 1 and preds[0].name == "disequality_predicate"
        led.check(ok, rid, "predicate-is-!=", f.span, "one push of one `!=` predicate per domain",
                  "the blocking clause loop has %d pushes, modifies the clause with %s and builds %s"
                  % (len(pushes), other, [c.name for c in preds]))
        if ok:
            p = preds[0]
            recv = peel(R.operand(p.args[0]), calls=None)
            val = peel(R.operand(p.args[1]), calls=None)
            from_iter = lambda e_: any(x.k == "call" and x.a.name == "next" for x in e_.walk()) and \
                any(x.k == "call" and x.a.name == "get_domains" for x in e_.walk())
            ok2 = from_iter(recv) and val.k == "call" and val.a.name == "get_integer_value" and \
                from_iter(peel(R.operand(val.a.args[1]), calls=None)) and root_local(f, val.a.args[0]) == 1
            pushed = R.operand(pushes[0].args[1])
            ok3 = any(x is p for x in pushed.calls())
            # the push happens for every element: guarded by nothing but the Some edge of the iteration
            extra = [show(g_.atom)[:40] for g_ in guards_of(f, pushes[0].bb)
                     if not (g_.kind == "variant" and peel(g_.atom, calls=None).k == "call"
                             and peel(g_.atom, calls=None).a.name == "next")]
            led.check(ok2 and ok3 and not extra, rid, "own-value-of-own-domain", p.span,
                      "[variable != solution.get_integer_value(variable)] pushed for every domain",
                      "the loop does not push, for every domain, the predicate comparing the domain with its own value "
                      "in the solution (%s)" % (", ".join(extra) or show(val)[:80]))
        led.check(True, rid, "one-closure", f.span, "loop form", "")
        iters_ok = True
    else:
        led.check(len(cl) == 1, rid, "one-closure", f.span, "", "expected one mapping closure, found %d" % len(cl))
    if len(cl) == 1:
        g = cl[0]
        R = resolver(g)
        preds = [c for c in g.calls if c.name in ("disequality_predicate", "equality_predicate",
                                                  "lower_bound_predicate", "upper_bound_predicate")]
        ok = len(preds) == 1 and preds[0].name == "disequality_predicate"
        led.check(ok, rid, "predicate-is-!=", g.span, "one `!=` predicate per domain",
                  "the per-domain predicate is %s (must be a single `!=`)" % [c.name for c in preds])
        if ok:
            p = preds[0]
            recv = root_local(g, p.args[0])
            val = peel(R.operand(p.args[1]), calls=None)
            ok2 = (recv == 2 and val.k == "call" and val.a.name == "get_integer_value"
                   and root_local(g, val.a.args[1]) == 2)
            cap = peel(R.operand(val.a.args[0]), calls=None) if val.k == "call" else None
            ok3 = cap is not None and cap.k == "proj" and peel(cap.a, calls=None).k == "arg"
            led.check(ok2 and ok3, rid, "own-value-of-own-domain", p.span,
                      "[variable != solution.get_integer_value(variable)]",
                      "the predicate does not compare the iterated domain with its own value in the "
                      "captured solution: %r" % val)
    # get_domains enumerates 1..num_domains
    for name, owner in (("get_domains", "Solution"), ("get_domains", "Assignments")):
        g = lib.method(owner, name)
        if owner == "Solution":
            inner = g.calls_named("get_domains")
            led.check(len(inner) == 1, rid, "Solution::get_domains-delegates", g.span, "",
                      "Solution::get_domains no longer delegates to the assignments")
        else:
            news = [c for c in g.calls if c.name == "new" and "DomainGeneratorIterator" in (c.self_ty or "")]
            ok = len(news) == 1 and op_const_int(news[0].args[0]) == 1
            if ok:
                e = peel(resolver(g).operand(news[0].args[1]), calls=None)
                ok = e.k == "call" and e.a.name == "num_domains"
            led.check(ok, rid, "domains-1..num_domains", g.span, "DomainGeneratorIterator::new(1, num_domains())",
                      "Assignments::get_domains does not enumerate the domains 1..num_domains()")


def next_solution(lib):
    """SolutionIterator::next_solution with the private helpers of its file spliced in"""
    from ..inline import view
    for f in lib.fns.values():
        if f.name == "next_solution" and (f.self_adt or "").endswith("SolutionIterator"):
            return view(lib, f, want=lambda g: g.file == f.file and g.kind != "Closure" and g.vis != "pub"
                        and g.name != "get_blocking_clause")
    raise AnchorMissing("SolutionIterator::next_solution")


def b2(led, rid, ctx):
    lib = ctx.lib
    f = next_solution(lib)
    cfg = f.cfg
    R = resolver(f)
    sat = f.calls_named("satisfy")
    led.check(len(sat) == 1, rid, "one-satisfy", f.span, "", "%d satisfy calls" % len(sat))
    if len(sat) != 1:
        return
    sat = sat[0]
    takes = [c for c in f.calls if c.name == "take" and c.args and
             "next_blocking_clause" in peel(R.operand(c.args[0]), calls=None).fields()]
    led.check(len(takes) == 1 and cfg.dominates(takes[0].bb, sat.bb), rid, "take-before-solve", f.span,
              "the stored clause is taken before the solve",
              "next_blocking_clause is not taken (and thereby cleared) before the solve")
    adds = f.calls_named("add_clause")
    ok = False
    if takes and adds:
        tk = takes[0]
        for a in adds:
            src = peel(R.operand(a.args[1]), calls=None)
            from_take = any(c is tk for c in src.calls()) or \
                (src.k == "proj" and any(c is tk for c in src.a.calls()))
            if not from_take:
                continue
            # on the Some edge of the taken option the solve is unreachable without add_clause
            for fact in guards_of(f, a.bb):
                if fact.kind == "variant" and fact.val == "Some":
                    if not cfg.reaches(fact.edge.node, [sat.bb], avoid=[a.bb], strict=False):
                        ok = True
    led.check(ok, rid, "stored-clause-added-before-solve", f.span,
              "every path from a stored clause to the solve passes add_clause(stored clause)",
              "a stored blocking clause can reach the next solve without being added: the previous "
              "solution would be found again")
    # Satisfiable arm stores Some(get_blocking_clause(&solution)) before returning
    gbc = f.calls_named("get_blocking_clause")
    stored = False
    for b in f.blocks:
        for s in b["stmts"]:
            if s["s"] == "assign" and s["dst"]["proj"] and \
                    [e.get("name") for e in s["dst"]["proj"] if "field" in e][-1:] == ["next_blocking_clause"]:
                e = R.rvalue(s["rv"])
                if e.k == "agg" and e.b == "Some" and e.c and any(c in gbc for c in e.c[0].calls()):
                    # the clause is computed from the solution just found
                    g = gbc[0]
                    sol = peel(R.operand(g.args[0]), calls=None)
                    from_sat = any(c is sat for c in sol.calls()) or \
                        (sol.k == "proj" and any(c is sat for c in peel(sol.a, calls=None).calls()))
                    arms = [fa for fa in guards_of(f, b["id"]) if fa.kind == "variant" and fa.val == "Satisfiable"]
                    if from_sat and arms:
                        # and it is on every path of that arm to the return
                        arm_edge = arms[0].edge
                        rets = cfg.returns
                        if not cfg.reaches(arm_edge.node, rets, avoid=[b["id"]], strict=False):
                            stored = True
    led.check(stored, rid, "satisfiable-arm-stores-clause", f.span,
              "Satisfiable arm stores Some(get_blocking_clause(&solution)) on every path",
              "the Satisfiable arm can return without storing the blocking clause of the solution it "
              "hands out: the next call would return the same solution")


def b3(led, rid, ctx):
    lib = ctx.lib
    f = next_solution(lib)
    paths = [p for p in SymExec(f).run() if not p.diverged]
    rows = set()
    memos = {}
    facts = {}
    for p in paths:
        sat_variant = None
        add_err = None
        has_sol = None
        for cond, val, others in p.conds:
            if cond.k == "discr" and (cond.b or "").endswith("SatisfactionResult"):
                sat_variant = variant_name(f, cond, val, others) or sat_variant
            c = cond
            truth = bool(val) if val is not None else (not bool(others[0]) if others and len(others) == 1 else None)
            while c.k == "unop" and c.a == "Not":
                c = c.b
                truth = not truth
            if c.k == "call" and c.a.name == "is_err":
                add_err = truth
            # the `?` form: the Break edge of branch(add_clause(..)) is the failure
            if cond.k == "discr":
                inner = peel(cond.a, calls=None)
                if inner.k == "call" and inner.a.name == "branch" and inner.b and \
                        any(x.name == "add_clause" for x in inner.b[0].calls()):
                    brk = (val == 1) if val is not None else (1 not in (others or []))
                    add_err = brk if add_err is None else (add_err or brk)
            if c.k == "proj" and c.b and c.b[-1].get("name") == "has_solution":
                has_sol = truth
        ret = p.ret.b if (p.ret is not None and p.ret.k == "agg") else None
        satisfied = bool(p.called("satisfy"))
        if not satisfied and add_err is not True and ret in ("Finished", "Unsatisfiable"):
            # an "enumeration has ended" memo: a bool field of the iterator tested true before anything
            # else is done.  Admissible iff the answer is the end-of-enumeration answer for has_solution
            # and the field is only ever set on a path that established the end (blocking clause
            # rejected, or satisfy said Unsatisfiable)
            memo = None
            for cond, val, others in p.conds:
                c = cond
                truth = bool(val) if val is not None else (not bool(others[0]) if others and len(others) == 1 else None)
                while c.k == "unop" and c.a == "Not":
                    c = c.b
                    truth = not truth
                if c.k == "proj" and c.b and c.b[-1].get("name") not in (None, "has_solution") and truth is True \
                        and peel(c.a, calls=None).k == "arg":
                    memo = c.b[-1].get("name")
            if memo is not None and (has_sol, ret) in ((True, "Finished"), (False, "Unsatisfiable")):
                memos.setdefault(memo, []).append(p)
                continue
        rows.add((add_err is True and not satisfied, sat_variant, has_sol, ret))
        facts[id(p)] = (add_err, sat_variant)
    for memo, _ps in sorted(memos.items()):
        ok = True
        nset = 0
        for p in paths:
            for dst, val in p.stores:
                if [e.get("name") for e in dst["proj"] if "field" in e][-1:] != [memo]:
                    continue
                if val.k == "const" and val.a == 0:
                    continue
                nset += 1
                ae, sv = facts.get(id(p), (None, None))
                if not (val.k == "const" and val.a == 1 and (ae is True or sv == "Unsatisfiable")):
                    ok = False
        led.check(ok and nset >= 1, rid, "memo:%s-set-only-at-the-end" % memo, f.span, "",
                  "next_solution answers from the memo `%s` without solving, but the memo is also set on a path "
                  "that did not establish the end of the enumeration (an interrupted solve is not the end): a "
                  "later call reports Finished/Unsatisfiable with solutions left" % memo)
    want = {
        (True, None, None, "Finished"),
        (False, "Satisfiable", None, "Solution"),
        (False, "Unsatisfiable", True, "Finished"),
        (False, "Unsatisfiable", False, "Unsatisfiable"),
        (False, "Unknown", None, "Unknown"),
    }
    for r in sorted(rows, key=str):
        led.check(r in want, rid, "row:%s/%s/%s->%s" % r, f.span, "",
                  "next_solution maps (blocking clause failed=%s, satisfy=%s, has_solution=%s) to %s"
                  % r)
    for r in sorted(want - rows, key=str):
        led.bad(rid, "missing-row:%s/%s/%s->%s" % r, f.span, "result row %s is no longer produced" % (r,))
    # has_solution is set on the Satisfiable arm
    setter = False
    for p in paths:
        for dst, val in p.stores:
            if [e.get("name") for e in dst["proj"] if "field" in e][-1:] == ["has_solution"]:
                pv = [variant_name(f, c, v, o) for c, v, o in p.conds
                      if c.k == "discr" and (c.b or "").endswith("SatisfactionResult")]
                if val.k == "const" and val.a == 1 and {x for x in pv if x} == {"Satisfiable"}:
                    setter = True
    led.check(setter, rid, "has_solution-set-on-Satisfiable", f.span, "",
              "has_solution is not set when a solution is returned: the end of the iteration would be "
              "reported as Unsatisfiable")


def run(ctx, led):
    run_rule(led, "B1", "the blocking clause has one `!=` predicate per domain of the solution, on "
             "that domain's own value, with no selecting iterator adaptor; domains are enumerated "
             "1..num_domains", b1, ctx)
    run_rule(led, "B2", "the clause is stored on the Satisfiable arm and added before the next solve "
             "on every path (MUST-PASS both)", b2, ctx)
    from . import shared, C07
    run_rule(led, "B4", "kernel hygiene the blocking clauses rely on: no element skipped after swap_remove, no nogood id recycled while it is a reason (shared with C07-J1)", shared.swap_remove_skip, ctx)
    run_rule(led, "B5", "a nogood is deleted only if it is not the reason of a trail entry (shared with C07-J1)", C07.j1, ctx)
    run_rule(led, "B3", "result TABLE of next_solution", b3, ctx)
    from . import predrules
    run_rule(led, "B6", "implicit reasons imply the predicate they explain (shared with C02-U8)", predrules.implicit_reasons, ctx)
    from . import watchrules
    run_rule(led, "B7", "WAKE: each watcher loop of the nogood propagator looks at exactly the watchers whose predicate became true (decided on all old/new domain pairs of a 5-value universe)", watchrules.wake, ctx)
    run_rule(led, "B8", "READD: loops that copy nogood watchers back run to the number of watchers", watchrules.readd, ctx)
    from . import C07 as _C07b
    run_rule(led, "B9", "a permanent nogood (blocking clause) is stored in its preprocessed form (shared with C07-J10)", _C07b.j10, ctx)
    run_rule(led, "B10", "every solve starts from exactly the assumptions it was given — the iterator's solves from none (shared with C05-A3)", shared.assumptions_overwritten, ctx)
    from . import C10 as _C10

    def _b11(led_, rid_, ctx_):
        _C10.t_boundary(led_, rid_, ctx_, _C10.explore(ctx_.lib)) if hasattr(_C10, "t_boundary") else None
    if hasattr(_C10, "t_boundary"):
        run_rule(led, "B11", "every API function returns with the solver in a usable root state, so iteration after an assumption query starts from the model (shared with C10-T2/T3)", _b11, ctx)
    from . import kernel as _kernel
    _kernel.run_bundle(led, ctx, "B")
    from . import kernel as _kernel2
    _kernel2.run_lifecycle(led, ctx, "B")

"""C07 — answers do not depend on solver configuration (structural clauses J1–J5)."""
from ..main import run_rule
from ..flow import resolver, peel, guards_of, rel_fact, aggregates, show, call_guarded, root_local, const_defs
from ..facts import AnchorMissing, op_const_int
from . import shared

LEVEL = ('decides properties of the code that only runs under non-default options: a learned nogood is'
         ' deleted only if it is not the reason of a trail entry and after both its watchers were '
         'removed, and freed ids are reused only when a nogood is stored (J1); a restart only '
         'backtracks and notifies — it never touches the nogood database (J2); the no-learning '
         'resolver posts with a stored reason (J3 = U2); the call closure of nogood deletion — never '
         'executed by the test-suite — contains no unimplemented!/todo!/panic! (J4); the no-learning '
         'resolver reads a decision back with the arity it was written with (J5). '
         'is_nogood_propagating answers true whenever the nogood is the reason of the trail entry of '
         "its propagated predicate (J1 TABLE); the no-learning resolver's flipped decision carries a "
         'reason covering every earlier level (J7). the free list of nogood ids is only pushed and '
         'popped (J1), the reason of a flipped decision takes every reason-less entry of each earlier '
         "level (J7), the semantic minimiser's steps and emission are exact (J8/J9), a permanent "
         'nogood is stored in its preprocessed form (J10). Also runs the KERNEL BUNDLE (rule ids '
         '…K<n>): the kernel rules every verdict depends on — predicate algebra, nogood watchers, '
         'minimisers, conflict-analysis tables, nogood deletion, decision read-back, no-learning '
         'resolver, constraint builders, reified reasons — wherever they are not already registered '
         'here under another id. The learned-nogood database is reduced only at the start of propagate'
         ' and never before an asserting predicate is posted (J14 WHO-MAY-CALL/ORDER). The restart '
         'strategy moving average stores window_size whenever it shrinks (J15). Does not decide '
         'equality of answers across option values, nor termination under forget-everything settings')
TECHNIQUE = "static analysis: dominance / who-may-call / call-graph closure / arity agreement over rustc MIR"


def j1(led, rid, ctx):
    lib = ctx.lib
    from ..inline import view
    f0 = lib.method("NogoodPropagator", "remove_high_lbd_nogoods")
    # private helpers of the propagator that the reduction is split into are spliced in; the test
    # that protects propagating nogoods stays a call (it is judged on its own below)
    f = view(lib, f0, want=lambda g: g.file == f0.file and g.kind != "Closure" and g.vis != "pub"
             and "NogoodPropagator" in (g.self_ty or "") and g.name not in ("is_nogood_propagating", "remove_nogood_from_watch_list")
             and not g.name.startswith("remove_"))
    R = resolver(f)
    cfg = f.cfg
    # deletion sites: is_deleted = true, delete_ids.push(id)
    sites = []
    for b in f.blocks:
        for s in b["stmts"]:
            if s["s"] == "assign" and s["dst"]["proj"] and \
                    [e.get("name") for e in s["dst"]["proj"] if "field" in e][-1:] == ["is_deleted"]:
                e = R.rvalue(s["rv"])
                if e.k == "const" and e.a == 1:
                    sites.append(("is_deleted=true", b["id"], "%s:%d" % (f.file, s["line"])))
    for c in f.calls:
        if c.name == "push" and c.args and "delete_ids" in R.operand(c.args[0]).fields():
            sites.append(("delete_ids.push", c.bb, c.span))
    led.check(len(sites) >= 2, rid, "deletion-sites", f.span, "", "nogood deletion no longer marks and "
              "recycles ids (%d sites)" % len(sites))
    rm = f.calls_named("remove_nogood_from_watch_list")
    for what, bb, site in sites:
        g = call_guarded(f, bb, "is_nogood_propagating", False)
        led.check(g is not None, rid, "%s:not-propagating" % what, site,
                  "deletion dominated by the false edge of is_nogood_propagating(id)",
                  "a nogood can be deleted although it is the reason of a trail entry: its id is reused "
                  "and conflict analysis would resolve with a different clause")
        doms = [c for c in rm if cfg.dominates(c.bb, bb)]
        idx = set()
        for c in doms:
            e = R.operand(c.args[1])
            for x in e.walk():
                if x.k == "proj":
                    for pr in x.b:
                        if "const_index" in pr:
                            idx.add(pr["const_index"])
                        if "index" in pr:
                            cd = const_defs(f, pr["index"])
                            if cd and len(cd) == 1:
                                idx.add(cd[0][1])
                if x.k == "call" and x.a.name == "index" and len(x.a.args) > 1:
                    ci = op_const_int(x.a.args[1])
                    if ci is None:
                        cd = const_defs(f, root_local(f, x.a.args[1]))
                        if cd and len(cd) == 1:
                            ci = cd[0][1]
                    if ci is not None:
                        idx.add(ci)
        led.check(len(doms) >= 2 and {0, 1} <= idx, rid, "%s:both-watchers-removed" % what, site,
                  "watchers of predicates[0] and predicates[1] are removed first",
                  "a nogood is deleted with a watcher still registered (%d removals, predicate indices %s)"
                  % (len(doms), sorted(idx)))
    # who pops delete_ids
    who = set()
    for g in lib.fns.values():
        if "/nogoods/" not in g.file:
            continue
        Rg = None
        for c in g.calls:
            if c.name == "pop" and c.args:
                Rg = Rg or resolver(g)
                if "delete_ids" in Rg.operand(c.args[0]).fields():
                    nm = (g.parent or g.defn).rsplit("::", 1)[-1]
                    # a private helper the storing functions are split into counts as its callers
                    if nm not in ("add_asserting_nogood", "add_permanent_nogood"):
                        callers = {(h.parent or h.defn).rsplit("::", 1)[-1] for h in lib.fns.values() if h.file == g.file
                                   for c2 in h.calls if any(x is g for x in lib.callees(c2))}
                        if callers and callers <= {"add_asserting_nogood", "add_permanent_nogood"}:
                            who |= callers
                            continue
                    who.add(nm)
    led.check(who <= {"add_asserting_nogood", "add_permanent_nogood"} and who, rid, "delete_ids-reused-when-storing",
              None, "freed ids are reused by %s" % sorted(who), "freed nogood ids are popped in %s" % sorted(who))
    j1_table(led, rid, ctx)
    # a recycled id is taken off the free list when it is used: delete_ids is only pushed, popped,
    # measured or cleared
    ALLOWED = ("pop", "push", "len", "is_empty", "clear", "with_capacity", "new", "default", "reserve")
    n_acc = 0
    for g in lib.fns.values():
        if "/nogoods/" not in g.file or "/tests" in g.file:
            continue
        if (g.impl_trait or "").rsplit("::", 1)[-1] in ("Clone", "Debug", "Default", "PartialEq"):
            continue      # derived
        Rg = None
        for c in g.calls:
            if not c.args:
                continue
            Rg = Rg or resolver(g)
            e0 = Rg.operand(c.args[0])
            fl = peel(e0, calls=None).fields()
            if not fl or list(fl)[-1] != "delete_ids":
                continue
            n_acc += 1
            led.check(c.name in ALLOWED, rid, "delete_ids:%s:%s" % (g.name, c.name), c.span, "pop / push only",
                      "%s reads the free list of nogood ids with `%s`: the id is used but stays on the list, so "
                      "the next nogood that is stored overwrites this one (a blocking clause or learned nogood "
                      "disappears while its watchers stay)" % (g.name, c.name))
    led.floor(rid, "accesses of delete_ids", n_acc, 3)


def j1_table(led, rid, ctx):
    """TABLE of is_nogood_propagating: in the world where predicates[0] is false, its trail entry
    has a reason, that reason belongs to the nogood propagator and carries this nogood's code (or
    none), every feasible path answers true"""
    from ..symexec import SymExec, variant_name
    from ..predalg import ev, Unknown
    lib = ctx.lib
    f = lib.method("NogoodPropagator", "is_nogood_propagating")
    n = 0
    for code_absent in (0, 1):
        def leaf(e, code_absent=code_absent):
            if e.k == "call":
                nm = e.a.name
                if nm == "is_predicate_falsified":
                    return 1
                if nm == "is_none" and "get_lazy_code" in show(e):
                    return code_absent
                if nm == "is_some" and "get_lazy_code" in show(e):
                    return 1 - code_absent
                if nm in ("eq",) and "get_propagator" in show(e) and "get_nogood_propagator_id" in show(e):
                    return 1
                if nm in ("ne",) and "get_propagator" in show(e) and "get_nogood_propagator_id" in show(e):
                    return 0
            s_ = show(e)
            if "get_lazy_code" in s_ and e.k in ("proj", "call", "cast"):
                return 7
            if e.k == "cast":
                return None
            if e.k == "proj" and e.b and e.b[-1].get("name") == "id" and peel(e.a, calls=None).k == "arg":
                return 7
            return None
        for p in SymExec(f).run():
            if p.diverged:
                continue
            ok = True
            extra = []
            for cond, val, others in p.conds:
                if cond.k == "discr":
                    if "reason" in show(cond):
                        if variant_name(f, cond, val, others) != "Some":
                            ok = False
                    continue
                try:
                    w = ev(cond, leaf)
                except Unknown:
                    extra.append(show(cond)[:90])
                    continue
                if (val is not None and w != val) or (val is None and others and w in others):
                    ok = False
            if not ok:
                continue
            n += 1
            try:
                r = ev(p.ret, leaf) if p.ret is not None else None
            except Unknown:
                r = None
            led.check(r == 1, rid, "is_nogood_propagating:reason-of-trail-entry%s%s" % (
                      ":no-code" if code_absent else "", (":" + extra[0]) if extra and r != 1 else ""), f.span,
                      "answers true", "is_nogood_propagating can answer %s for a nogood that is the reason of "
                      "the trail entry of its propagated predicate (path through %s): the nogood may be "
                      "deleted and its id recycled while conflict analysis still needs it"
                      % ("false" if r == 0 else show(p.ret)[:60] if p.ret is not None else "nothing",
                         extra or "the recognised tests only"))
    led.floor(rid, "feasible rows of is_nogood_propagating", n, 2)
    # the trail entry that is inspected is the one at the trail position of !predicates[0]
    R = resolver(f)
    gte = f.calls_named("get_trail_entry")
    ok = False
    for c in gte:
        idx = R.operand(c.args[1]) if len(c.args) > 1 else None
        if idx is not None and any(x.name == "get_trail_position" for x in idx.calls()) and \
                any(x.name == "not" for x in idx.calls()):
            ok = True
    led.check(ok, rid, "is_nogood_propagating:reads-the-entry-of-the-propagated-predicate", f.span,
              "get_trail_entry(get_trail_position(&!predicates[0]))",
              "is_nogood_propagating does not look at the trail entry at the trail position of the negated "
              "first predicate (a decision level or another index is used as a position): the answer is "
              "about an unrelated entry, propagating nogoods are deleted")


def j2(led, rid, ctx):
    lib = ctx.lib
    from ..inline import view
    f0 = lib.method("ConstraintSatisfactionSolver", "restart_during_search")
    f = view(lib, f0, want=lambda g: g.file == f0.file and g.kind != "Closure" and g.vis != "pub" and g.name != "backtrack"
             and len(g.blocks) <= 12)
    allowed = {"backtrack", "notify_restart", "get_decision_level", "len", "is_restart_pointless"}
    other = sorted({c.name for c in f.calls if not c.exp and c.name not in allowed and
                    not (c.target_def or "").startswith(("core::", "std::"))})
    led.check(not other, rid, "restart-only-backtracks", f.span, "callees: backtrack, notify_restart",
              "a restart also calls %s: it must not touch learned nogoods or the model" % other)
    bts = f.calls_named("backtrack")
    led.check(len(bts) == 1, rid, "restart-backtracks-once", f.span, "", "%d backtracks in a restart" % len(bts))


def closure_fns(lib, root):
    seen = {}
    work = [root]
    while work:
        f = work.pop()
        if f.defn in seen:
            continue
        seen[f.defn] = f
        for g in f.closures:
            work.append(g)
        for c in f.calls:
            for g in lib.callees(c):
                # stay inside the solver library: trait dispatch to every propagator is not followed
                if c.trait and not c.resolved:
                    continue
                work.append(g)
    return list(seen.values())


def j4(led, rid, ctx):
    lib = ctx.lib
    roots = [lib.method("NogoodPropagator", "clean_up_learned_nogoods_if_needed", required=False) or
             lib.method("NogoodPropagator", "remove_high_lbd_nogoods")]
    n = 0
    for f in closure_fns(lib, roots[0]):
        n += 1
        for c in f.calls:
            if c.is_explicit_panic() and c.panic_kind() in ("unimplemented", "todo", "panic", "unreachable"):
                root = f.parent or f.defn
                led.bad(rid, "%s:%s" % (root, c.panic_kind()), c.span,
                        "`%s!` in code reached only when the learned-nogood limit is exceeded (never in "
                        "the test-suite): with a small limit a model that needs this path panics"
                        % c.panic_kind())
    led.floor(rid, "functions in the deletion closure", n, 6)
    led.ok(rid, "scan", None, "%d functions reachable from nogood deletion scanned" % n)


def j5(led, rid, ctx):
    lib = ctx.lib
    w = lib.method("Assignments", "make_assignment")
    writes = [c for c in w.calls if c.name in ("tighten_lower_bound", "tighten_upper_bound")]
    arity_w = len(writes)
    led.check(arity_w >= 1, rid, "writer-arity", w.span, "an equality decision writes up to %d trail entries" % arity_w,
              "make_assignment writes no trail entry")
    r = lib.method("Assignments", "find_last_decision")
    R = resolver(r)
    idxs = set()
    for c in r.calls:
        if c.name in ("index", "get") and len(c.args) > 1:
            ci = op_const_int(c.args[1])
            if ci is None:
                cd = const_defs(r, root_local(r, c.args[1]))
                if cd and len(cd) == 1:
                    ci = cd[0][1]
            if ci is not None:
                idxs.add(ci)
    for b in r.blocks:
        for s in b["stmts"]:
            if s["s"] == "assign":
                rv = s["rv"]
                opd = rv.get("op") if isinstance(rv.get("op"), dict) else {}
                pl = rv.get("place") or opd.get("copy") or opd.get("move")
                if pl:
                    for e in pl["proj"]:
                        if "const_index" in e:
                            idxs.add(e["const_index"])
                        if "index" in e:
                            cd = const_defs(r, e["index"])
                            if cd and len(cd) == 1:
                                idxs.add(cd[0][1])
    arity_r = (max(idxs) + 1) if idxs else 0
    led.check(arity_r >= arity_w, rid, "reader-covers-writer", r.span,
              "find_last_decision inspects %d entries, the widest decision writes %d" % (arity_r, arity_w),
              "find_last_decision looks at %d trail entr%s of the decision level, but an equality decision "
              "[x = v] is written as %d bound updates: the no-learning resolver flips [x ≥ v] instead of "
              "[x = v] and never visits x > v" % (arity_r, "y" if arity_r == 1 else "ies", arity_w))
    # ORDER: the reader matches the two entries in the order the writer produces them
    if arity_w >= 2:
        order_w = [c.name.replace("tighten_", "").replace("_bound", "") for c in
                   sorted(writes, key=lambda c: sum(1 for d in writes if w.cfg.dominates(d.bb, c.bb)))]
        from ..symexec import SymExec as _SE, variant_name as _vn
        order_r = None
        for p_ in _SE(r, max_paths=200).run():
            if p_.diverged or p_.ret is None:
                continue
            rr = peel(p_.ret, calls=None)
            builds_eq = any(x.k == "call" and x.a.name == "equality_predicate" for x in p_.ret.walk()) or \
                any(x.k == "agg" and x.b == "Equal" for x in p_.ret.walk())
            if not builds_eq:
                continue
            seq = []
            for cond, val, others in p_.conds:
                if cond.k == "discr" and (cond.b or "").endswith("Predicate"):
                    which = "second" if any(c.name == "get" for c in cond.calls()) or "Some" in show(cond) else "first"
                    seq.append((which, _vn(r, cond, val, others)))
            d = dict(seq)
            if "first" in d and "second" in d:
                order_r = [d["first"], d["second"]]
        want = [{"lower": "LowerBound", "upper": "UpperBound"}[x] for x in order_w[:2]]
        led.check(order_r == want, rid, "reader-matches-writer-order", r.span,
                  "entries read as %s, written as %s" % (order_r, want),
                  "find_last_decision recognises an equality decision when the two trail entries are %s, but "
                  "make_assignment writes %s: the pattern never matches, the no-learning resolver flips only "
                  "the first half of the decision and never visits the values above it" % (order_r, want))
    if arity_r >= 2:
        eq = aggregates(r, "predicate::Predicate", "Equal")
        calls_eq = [c for c in r.calls if c.name == "equality_predicate"]
        led.check(bool(eq) or bool(calls_eq), rid, "reader-rebuilds-equality", r.span, "a (≥ v, ≤ v) pair is read back as [x = v]",
                  "find_last_decision reads two entries but never rebuilds the equality predicate")


def j7(led, rid, ctx):
    """the no-learning resolver: the flipped decision is enqueued with a reason that enumerates the
    decisions of every level below the one being undone; levels are evaluated symbolically
    (get_decision_level() is L before the backtrack and the backtrack target after it)"""
    from ..predalg import ev, Unknown
    lib = ctx.lib
    f = lib.method("NoLearningResolver", "process", "*")
    R = resolver(f)
    cfg = f.cfg
    enq = f.calls_named("enqueue_propagated_predicate")
    bts = f.calls_named("backtrack")
    led.check(len(enq) == 1 and len(bts) == 1, rid, "no-learning:flip-has-reason", f.span,
              "one backtrack, one enqueue_propagated_predicate",
              "the no-learning resolver no longer backtracks once and enqueues the flipped decision "
              "with a stored reason (%d backtracks, %d enqueues): core extraction reads that reason"
              % (len(bts), len(enq)))
    if len(enq) != 1 or len(bts) != 1:
        return
    e, bt = enq[0], bts[0]
    L0 = 10

    def level_leaf(x):
        if x.k == "call" and x.a.name == "get_decision_level":
            if x.a.bb != bt.bb and cfg.dominates(bt.bb, x.a.bb):
                return ev(R.operand(bt.args[1]), level_leaf)
            return L0
        return None
    # the flipped predicate
    flipped = peel(R.operand(e.args[1]), calls=None)
    ok = flipped.k == "call" and flipped.a.name == "not" and \
        any(c.name == "find_last_decision" for c in flipped.calls())
    led.check(ok, rid, "no-learning:flips-last-decision", e.span, "enqueues !find_last_decision()",
              "the predicate enqueued after the backtrack is not the negation of the last decision (%s)"
              % show(flipped)[:100])
    # backtrack target
    try:
        tgt = ev(R.operand(bt.args[1]), level_leaf)
    except Unknown as u:
        tgt = None
    led.check(tgt == L0 - 1 and cfg.dominates(bt.bb, e.bb), rid, "no-learning:backtracks-one-level", bt.span,
              "backtrack(L-1) before the flipped decision is enqueued",
              "the no-learning resolver backtracks to level %s (of L=%d) or enqueues before it backtracks" % (tgt, L0))
    # the reason: a range of levels
    reason = R.operand(e.args[2])
    # every reason-less entry of a level belongs to the reason (an equality decision is stored as two
    # bound updates): the per-level closure iterates and filters, it does not pick one entry
    PICK = ("first", "last", "nth", "take", "skip", "step_by", "find", "position", "max", "min", "get",
            "max_by_key", "min_by_key", "next", "peek", "find_map", "take_while", "skip_while")
    for x in reason.walk():
        if x.k != "closure":
            continue
        for g in [lib.fns.get(x.a)] if lib.fns.get(x.a) else []:
            picks = [c.name for h in g.with_closures() for c in h.calls if c.name in PICK]
            uses_level = any(c.name == "values_on_decision_level" for h in g.with_closures() for c in h.calls)
            if uses_level:
                led.check(not picks, rid, "no-learning:reason-takes-every-decision-entry", g.span,
                          "iterates all entries of the level",
                          "the reason of the flipped decision takes `%s` of each earlier level instead of every "
                          "reason-less entry: half of an equality decision is dropped and an extracted core is "
                          "weaker than the assumption it stands for" % (picks[0] if picks else ""))
    rngs = [x for x in reason.walk() if x.k == "agg" and (x.a or "").split("::")[-1] in ("Range", "RangeInclusive")]
    incl = [x for x in reason.walk() if x.k == "call" and x.a.name == "new" and "RangeInclusive" in (x.a.target_def or "")]
    if not rngs and not incl:
        # loop form: `for level in lo..hi { for entry in trail.values_on_decision_level(level) { if entry.reason
        # .is_none() { reason.push(entry.predicate) } } }` — the range is that of the level handed to
        # values_on_decision_level, and the pushes onto the reason take their value from those entries
        from ..flow import root_local as _rl
        rvec = _rl(f, e.args[2])
        fed = False
        for c2 in f.calls:
            if c2.name in ("push", "add", "extend", "insert") and c2.args and _rl(f, c2.args[0]) == rvec:
                v = R.operand(c2.args[-1])
                if any(x.name == "values_on_decision_level" for x in v.calls()):
                    fed = True
        for c2 in f.calls_named("values_on_decision_level"):
            lv = R.operand(c2.args[-1])
            if fed:
                rngs += [x for x in lv.walk() if x.k == "agg" and (x.a or "").split("::")[-1] in ("Range", "RangeInclusive")]
                incl += [x for x in lv.walk() if x.k == "call" and x.a.name == "new" and "RangeInclusive" in (x.a.target_def or "")]
            for c3 in f.calls:
                if c3.name in PICK and c3.name != "next" and c3.args and any(y is c2 for y in R.operand(c3.args[0]).calls()):
                    led.bad(rid, "no-learning:reason-takes-every-decision-entry", c3.span,
                            "the reason of the flipped decision takes `%s` of each earlier level instead of every "
                            "reason-less entry" % c3.name)
    hi = lo = None
    try:
        if rngs:
            r = rngs[0]
            lo = ev(r.c[0], level_leaf)
            hi = ev(r.c[1], level_leaf) - (0 if r.a.split("::")[-1] == "Range" else -1) - 1
        elif incl:
            lo = ev(incl[0].b[0], level_leaf)
            hi = ev(incl[0].b[1], level_leaf)
    except Unknown:
        pass
    led.check(lo is not None and lo <= 1 and hi == L0 - 1, rid, "no-learning:reason-covers-earlier-levels", e.span,
              "levels 1..L-1",
              "the reason stored for the flipped decision enumerates the decisions of levels %s..%s where "
              "L-1 = %d is required (L = level of the undone decision): a decision the flip depends on is "
              "missing, and a core extracted through this reason drops an assumption"
              % (lo, hi, L0 - 1))


def j10(led, rid, ctx):
    """a permanent nogood is stored in its preprocessed form (root-satisfied predicates removed), so
    that its two watched predicates are not already true"""
    lib = ctx.lib
    from .shared import method_view as _mv
    f = _mv(lib, "NogoodPropagator", "add_permanent_nogood", keep=("preprocess_nogood", "add_watcher", "is_nogood_propagating", "debug_is_properly_watched", "propagate"), same_type_only=True)
    R = resolver(f)
    cfg = f.cfg
    pps = f.calls_named("preprocess_nogood")
    led.check(len(pps) == 1, rid, "add_permanent_nogood:preprocesses", f.span, "",
              "add_permanent_nogood no longer preprocesses the nogood")
    if len(pps) != 1:
        return
    pp = pps[0]
    src = peel(R.operand(pp.args[0]), calls=None)
    src_s = show(src)
    stores = f.calls_named("new_permanent_nogood")
    led.floor(rid, "stores of a permanent nogood", len(stores), 1)
    for c in stores:
        e = R.operand(c.args[0])
        via_copy = any(x.name in ("clone", "to_vec", "to_owned", "cloned", "copied") for x in e.calls())
        root = peel(e, calls=("into", "from", "into_boxed_slice", "into_iter", "collect"))
        same = show(peel(root, calls=None)) == src_s
        led.check(same and not via_copy and cfg.dominates(pp.bb, c.bb), rid,
                  "add_permanent_nogood:stores-preprocessed", c.span, "the vector preprocess_nogood worked on",
                  "add_permanent_nogood stores %s rather than the preprocessed nogood: predicates that hold at "
                  "the root stay in it and may end up as the two watched predicates, which never fire — the "
                  "nogood (e.g. a blocking clause) is never enforced" % show(e)[:80])


def j15(led, rid, ctx):
    """the windowed moving average behind the restart strategy keeps `window_size` equal to the
    interval it was last adapted to: on every path of `adapt` that changes the window the field is
    stored (a stale size makes the next shrink pop more values than are stored — a panic in
    notify_restart under the Luby sequence)"""
    lib = ctx.lib
    fs = [f for f in lib.fns.values() if f.name == "adapt" and "windowed_moving_average" in f.file and f.kind != "Closure"]
    if len(fs) != 1:
        raise AnchorMissing("WindowedMovingAverage::adapt")
    f = fs[0]
    cfg = f.cfg
    stores = []
    for b in f.blocks:
        for st in b["stmts"]:
            if st["s"] == "assign" and [x.get("name") for x in st["dst"]["proj"] if "field" in x][-1:] == ["window_size"]:
                stores.append(b["id"])
    pops = [c.bb for c in f.calls if c.name in ("pop_front", "pop_back", "truncate", "drain")]
    led.check(bool(stores) and bool(pops), rid, "adapt:anchors", f.span, "", "adapt no longer stores window_size / removes values")
    # every removal of values is followed by the store on every way out
    bad = [bb for bb in pops if cfg.reaches(bb, cfg.returns, avoid=stores, strict=True)]
    led.check(not bad, rid, "adapt:shrink-stores-window_size", f.span, "no return is reachable from a removal without the store",
              "WindowedMovingAverage::adapt removes values from the window but can return without storing the new "
              "window_size: the next shrink computes the number of removals from a stale size and pops from an "
              "empty queue (panic in the restart strategy under the Luby sequence)")


def j14(led, rid, ctx):
    """WHO-MAY-CALL + ORDER: learned nogoods are deleted only at the very start of
    NogoodPropagator::propagate — before any watcher is looked at and, in particular, never between
    the moment a freshly learned nogood is stored and the moment its asserting predicate is posted
    with that nogood as its reason (the 'is it propagating?' test of the clean-up cannot see a
    propagation that has not happened yet)"""
    lib = ctx.lib
    callers = {}
    for g in lib.fns.values():
        if "/tests" in g.file:
            continue
        for c in g.calls:
            if c.name == "clean_up_learned_nogoods_if_needed":
                callers.setdefault((g.parent or g.defn).rsplit("::", 1)[-1], []).append((g, c))
    if not callers:
        raise AnchorMissing("a call of clean_up_learned_nogoods_if_needed")
    led.check(set(callers) == {"propagate"}, rid, "who-cleans-up", None, "only NogoodPropagator::propagate",
              "the learned-nogood database is reduced from %s: outside the start of propagate a nogood that is "
              "about to become (or already is) the reason of a trail entry can be deleted, and its id recycled "
              "while the entry is still on the trail" % sorted(callers))
    for g, c in callers.get("propagate", []):
        firsts = [x for x in g.calls if x.name.startswith(("get_", "num_")) and "watcher" in x.name]
        ok = all(g.cfg.dominates(c.bb, x.bb) for x in firsts) and all(g.cfg.dominates(c.bb, r) or True for r in g.cfg.returns)
        led.check(ok and bool(firsts), rid, "clean-up-before-watchers", c.span, "dominates every watcher access",
                  "propagate reduces the database after it has started to walk the watch lists")
    f = lib.method("NogoodPropagator", "add_asserting_nogood")
    posts = f.calls_named("post_predicate")
    if not posts:
        raise AnchorMissing("post_predicate in add_asserting_nogood")
    DEL = ("clean_up_learned_nogoods_if_needed", "clean_up_learned_nogoods", "remove_nogood", "delete_nogood", "drain", "retain", "truncate", "clear")
    for pc in posts:
        before = [x for x in f.calls if x.name in DEL and f.cfg.reaches(x.bb, [pc.bb])]
        led.check(not before, rid, "nothing-deleted-before-assert", pc.span, "no deleting call reaches the post",
                  "add_asserting_nogood calls %s before the asserting predicate is posted: the new nogood is not "
                  "yet propagating and may be the one that is deleted" % ", ".join(sorted({x.name for x in before})))


def j13(led, rid, ctx):
    """removing a nogood's watcher removes exactly the watcher with that nogood id AND that right-hand
    side: the selecting closure is decided on all 16 combinations of (same id?, same value?) against
    the way it is used (position/find: true ⇔ match; retain: true ⇔ keep ⇔ no match)"""
    import itertools
    from ..symexec import SymExec
    from ..predalg import ev, Unknown
    lib = ctx.lib
    n = 0
    for f in lib.fns.values():
        if "nogood_watching" not in f.file or f.kind == "Closure" or "/tests" in f.file:
            continue
        if not (f.name.startswith("remove_") or f.name.startswith("find_and_remove")):
            continue
        R = resolver(f)
        for c in f.calls:
            if c.name not in ("position", "retain", "find", "rposition", "retain_mut") or len(c.args) < 2:
                continue
            clo = [x for x in R.operand(c.args[1]).walk() if x.k == "closure"]
            if not clo:
                continue
            g = lib.fns.get(clo[0].a)
            if g is None:
                continue
            paths = [p for p in SymExec(g).run() if not p.diverged and p.ret is not None]
            mode = "keep" if c.name.startswith("retain") else "match"
            n += 1
            bad = None
            try:
                for same_id, same_val in itertools.product((0, 1), (0, 1)):
                    def leaf(x):
                        x = peel(x, calls=None)
                        if x.k == "call" and x.a.name in ("eq", "ne") and len(x.b) == 2:
                            s_ = show(x)
                            v = same_id if "nogood_id" in s_ else same_val if "right_hand_side" in s_ else None
                            if v is None:
                                return None
                            return v if x.a.name == "eq" else 1 - v
                        return None

                    def cmpv(cond):
                        c_ = peel(cond, calls=None)
                        if c_.k == "binop" and c_.a in ("Eq", "Ne"):
                            s_ = show(c_)
                            v = same_id if "nogood_id" in s_ else same_val if "right_hand_side" in s_ else None
                            if v is not None:
                                return v if c_.a == "Eq" else 1 - v
                        return ev(cond, leaf)
                    res = set()
                    for p in paths:
                        ok = True
                        for cond, val, others in p.conds:
                            w = cmpv(cond)
                            if (val is not None and w != val) or (val is None and others and w in others):
                                ok = False
                        if ok:
                            res.add(bool(cmpv(p.ret)))
                    match = bool(same_id and same_val)
                    want = match if mode == "match" else (not match)
                    if res != {want}:
                        bad = ("for a watcher with %s nogood id and %s right-hand side the %s closure answers %s"
                               % ("the same" if same_id else "another", "the same" if same_val else "another",
                                  c.name, sorted(res)))
                        break
            except Unknown as u:
                bad = "its selecting closure cannot be evaluated (%s)" % u
            led.check(bad is None, rid, "%s:%s-selects-exactly-the-watcher" % (f.name, c.name), c.span,
                      "id AND value identify the watcher",
                      "NogoodWatchList::%s: %s — deleting one nogood also detaches other nogoods that watch the same "
                      "predicate (e.g. permanent blocking clauses), or leaves the deleted one attached"
                      % (f.name, bad))
    led.floor(rid, "watcher removal selections", n, 1)


def run(ctx, led):
    run_rule(led, "J1", "a nogood is deleted only if not propagating, after both watchers are removed; "
             "freed ids are reused only when storing", j1, ctx)
    run_rule(led, "J2", "a restart only backtracks to the root and notifies the restart strategy", j2, ctx)
    run_rule(led, "J3", "no fabricated reason (the no-learning resolver is one configuration) — shared "
             "with C02-U2", shared.no_fabricated_reason, ctx)
    run_rule(led, "J4", "configuration-only code is total: no explicit panic in the call closure of "
             "nogood deletion", j4, ctx)
    run_rule(led, "J5", "ARITY: the decision is read back with the arity it was written with", j5, ctx)
    run_rule(led, "J7", "no-learning resolver: the flipped decision carries a reason covering every earlier decision level (symbolic levels)", j7, ctx)
    from . import minimiser
    run_rule(led, "J8", "semantic minimiser: every folding step maps the values a record stands for to exactly those satisfying the folded predicate (decided on all records of a 5-value window)", minimiser.steps_exact, ctx)
    run_rule(led, "J9", "semantic minimiser: the emitted predicates describe the record exactly relative to the root domain; holes leave the bounds before redundant holes are dropped", minimiser.emission_exact, ctx)
    run_rule(led, "J10", "a permanent nogood is stored in its preprocessed form", j10, ctx)
    from . import C02 as _C02
    run_rule(led, "J11", "equality halves merged when minimisation is off (shared with C02-U22)", _C02.u22, ctx)
    run_rule(led, "J12", "conflict resolution returns in the Solving state also when nothing was learned (shared with C02-U23)", _C02.u23, ctx)
    from . import kernel as _kernel
    _kernel.run_bundle(led, ctx, "J")
    run_rule(led, "J15", "the restart strategy's moving average stores window_size whenever it shrinks the window", j15, ctx)
    run_rule(led, "J14", "WHO-MAY-CALL/ORDER: the learned-nogood database is reduced only at the start of propagate, never before an asserting predicate is posted", j14, ctx)
    run_rule(led, "J13", "watcher removal selects exactly the watcher with that nogood id and right-hand side", j13, ctx)
    from . import kernel as _kernel4
    _kernel4.run_lifecycle(led, ctx, "J")

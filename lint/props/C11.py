"""C11 — interrupting a solve never produces a wrong definitive answer."""
from ..main import run_rule
from ..facts import AnchorMissing
from ..flow import call_guarded, edge_facts, resolver, peel
from . import C10

LEVEL = ("(M1) typestate interpretation with one extra bit 'the termination condition fired during "
         "this API call': every API return reached with the bit set carries only Unknown / "
         'Satisfiable(best) — never Unsatisfiable, Optimal or Finished; the same TABLE locally for the'
         " command-line front-ends' matches on library results; (M2) in the search loop the poll "
         'dominates propagation and every state declaration, and the timeout is declared only on its '
         'true edge; (M3, shared with C10) an interrupted solve leaves the solver reusable. Also runs '
         'the LIFE-CYCLE BUNDLE (…L<n>): the typestate rules over arbitrary API sequences of C10 '
         '(usable root state after every call, inert posting in inconsistent states, entry guards, '
         'stored-solution extent). Does not decide that the answer of the re-asked solve is correct')
TECHNIQUE = "static analysis: typestate abstract interpretation + CFG dominance over rustc MIR"

DEFINITIVE = {"Unsatisfiable", "Optimal", "Finished", "Infeasible", "UnsatisfiableUnderAssumptions"}
NON_DEFINITIVE = {"Unknown", "Satisfiable"}
DEFINITIVE_STR = ("UNSATISFIABLE", "OPTIMUM FOUND", "==========")
RESULT_ADTS = ("SatisfactionResult", "SatisfactionResultUnderAssumptions", "OptimisationResult",
               "IteratedSolution", "MaxSatOptimisationResult", "CSPSolverExecutionFlag")


def timeout_bit(call, st):
    if call.name == "declare_timeout" and (call.self_ty or "").endswith("CSPSolverState"):
        return (st[0], st[1], st[2] | 1)
    return st


def m1_lib(led, rid, ctx):
    lib = ctx.lib
    it, apis, B, trans, guards = C10.explore(lib, track_x=timeout_bit)
    n = 0
    seen = set()
    fired = 0
    for label, b, st2, rt in trans:
        if not (st2[2] & 1):
            continue
        fired += 1
        if rt is None or rt[0] != "enum":
            continue
        adt = rt[1].rsplit("::", 1)[-1]
        if adt not in RESULT_ADTS:
            continue
        key = "%s:%s::%s" % (label, adt, rt[2])
        if key in seen:
            continue
        seen.add(key)
        n += 1
        if rt[2] in DEFINITIVE:
            led.bad(rid, key, next((f.span for l, f, _ in apis if l == label), None),
                    "after the termination condition fired, `%s` can return the definitive answer "
                    "%s::%s (witness entry state %s)" % (label, adt, rt[2], C10.short(b)))
        else:
            led.ok(rid, key, None, "interrupted → %s" % rt[2])
    led.floor(rid, "interrupted API returns", n, 6)
    # every API function that can run a solve must be able to return after an interruption
    led.count("M1:transitions with the timeout bit", fired)


def arms(fn, adt_suffixes):
    """[(variant, edge, adt)] for every switch on the discriminant of one of the result enums"""
    out = []
    for bb in fn.cfg.edges:
        for f in edge_facts(fn, bb):
            if f.kind != "variant" or f.neg:
                continue
            t = fn.blocks[bb]["term"]
            # the adt is recorded in the discr rvalue
            cond = resolver(fn).operand(t["discr"])
            if cond.k != "discr" or not cond.b:
                continue
            a = cond.b.rsplit("::", 1)[-1]
            if a in adt_suffixes:
                out.append((f.val, f.edge, a))
    return out


def region(fn, edge):
    cfg = fn.cfg
    idom = cfg.idom
    return [b for b in range(cfg.n) if b in idom and cfg.dominates(edge.node, b)]


def m1_local(led, rid, ctx):
    n_arms = 0
    for pk in ("lib", "bin"):
        p = getattr(ctx, pk)
        for fn in p.fns.values():
            if fn.from_expansion:
                continue    # derived impls (Debug, …)
            for variant, edge, adt in arms(fn, RESULT_ADTS):
                if variant not in ("Timeout", "Unknown"):
                    continue
                n_arms += 1
                root = fn.parent or fn.defn
                key = "%s:%s::%s" % (root, adt, variant)
                bad = []
                for b in region(fn, edge):
                    blk = fn.blocks[b]
                    for s in blk["stmts"]:
                        if s["s"] == "assign" and s["rv"]["r"] == "aggregate":
                            rv = s["rv"]
                            if rv["adt"].rsplit("::", 1)[-1] in RESULT_ADTS and rv["variant"] in DEFINITIVE:
                                bad.append("constructs %s::%s (line %d)" % (
                                    rv["adt"].rsplit("::", 1)[-1], rv["variant"], s["line"]))
                    t = blk["term"]
                    if t["t"] == "call":
                        for a in t["args"]:
                            c = a.get("const") if isinstance(a, dict) else None
                            if c:
                                txt = c.get("str") or ""
                                if c.get("bytes"):
                                    try:
                                        txt = bytes.fromhex(c["bytes"]).decode("latin1")
                                    except ValueError:
                                        txt = ""
                                if any(d in txt for d in DEFINITIVE_STR):
                                    bad.append("prints %r (line %d)" % (txt.strip("\x00\n"), blk["line"]))
                if bad:
                    led.bad(rid, key, "%s:%d" % (fn.file, fn.blocks[edge.src]["line"]),
                            "the %s arm of a match on %s %s" % (variant, adt, "; ".join(bad)))
                else:
                    led.ok(rid, key, "%s:%d" % (fn.file, fn.blocks[edge.src]["line"]),
                           "arm builds no definitive result and prints no definitive status line")
    led.floor(rid, "Timeout/Unknown arms", n_arms, 12)


def m2(led, rid, ctx):
    lib = ctx.lib
    f = __import__("lint.props.shared", fromlist=["x"]).solve_internal(lib)
    polls = f.calls_named("should_stop")
    led.check(len(polls) >= 1, rid, "poll-exists", f.span, "%d poll(s) of the termination condition"
              % len(polls), "solve_internal never polls the termination condition")
    if not polls:
        return
    cfg = f.cfg
    poll_bbs = [c.bb for c in polls]
    # declare_timeout only on the true edge of should_stop()
    for c in f.calls_named("declare_timeout"):
        g = call_guarded(f, c.bb, "should_stop", True)
        led.check(g is not None, rid, "declare_timeout-guard", c.span, "on the true edge of should_stop()",
                  "declare_timeout is not guarded by should_stop() being true")
    # every propagation / state declaration / decision in the loop is preceded by a poll that said
    # "go on" in the same iteration: dominated by the false edge of should_stop()
    n = 0
    for c in f.calls:
        if c.name in ("propagate", "make_next_decision", "resolve_conflict_with_nogood",
                      "declare_infeasible", "declare_solution_found", "complete_proof",
                      "restart_during_search"):
            n += 1
            g = call_guarded(f, c.bb, "should_stop", False)
            led.check(g is not None, rid, "poll-dominates:%s" % c.name, c.span,
                      "dominated by the false edge of the poll",
                      "`%s` in the search loop is not dominated by a negative poll of the "
                      "termination condition" % c.name)
    led.floor(rid, "guarded loop steps", n, 5)
    # Timeout flag is constructed only where declare_timeout precedes (flag/state pairing)
    from ..flow import aggregates
    for bb, i, s in aggregates(f, "CSPSolverExecutionFlag", "Timeout"):
        ok = any(cfg.dominates(c.bb, bb) for c in f.calls_named("declare_timeout"))
        led.check(ok, rid, "timeout-flag-paired", "%s:%d" % (f.file, s["line"]),
                  "Timeout flag is returned after declare_timeout",
                  "the Timeout flag is built without declare_timeout before it")


def m3(led, rid, ctx):
    lib = ctx.lib
    it, apis, B, trans, guards = C10.explore(lib, track_x=timeout_bit)
    n = 0
    seen = set()
    for label, b, st2, rt in trans:
        if not (st2[2] & 1):
            continue
        is_guard = rt is not None and rt[0] == "enum" and rt[2] == "UnsatisfiableUnderAssumptions"
        if is_guard:
            continue
        key = "%s->%s" % (label, C10.short(st2))
        if key in seen:
            continue
        seen.add(key)
        n += 1
        ok = st2[0] in ("Ready",) and st2[1] == 0
        led.check(ok, rid, key, next((f.span for l, f, _ in apis if l == label), None),
                  "interrupted call leaves the solver Ready at the root",
                  "after an interruption `%s` returns with the solver in %s: it cannot be asked "
                  "again" % (label, C10.short(st2)))
    led.floor(rid, "interrupted returns", n, 4)


def run(ctx, led):
    run_rule(led, "M1", "an API return reached after the termination condition fired carries only "
             "Unknown / Satisfiable(best) (TYPESTATE with a 'timeout declared' bit, all API entry "
             "points, arbitrary histories)", m1_lib, ctx)
    run_rule(led, "M1b", "the Timeout/Unknown arm of every match on a solver result builds no "
             "definitive result and prints no definitive status line (TABLE, lib + command line)",
             m1_local, ctx)
    run_rule(led, "M2", "in the search loop the poll dominates propagation, decisions, conflict "
             "handling and every state declaration; the timeout is declared only on the poll's true "
             "edge (DOMINATED)", m2, ctx)
    run_rule(led, "M3", "an interrupted API call leaves the solver Ready at decision level 0 "
             "(TYPESTATE, shared with C10-T2/T3)", m3, ctx)
    from . import shared as _shared, C03 as _C03
    run_rule(led, "M4", "an interrupted assumption solve leaves no assumptions behind: every solve overwrites them (shared with C05-A3)", _shared.assumptions_overwritten, ctx)
    run_rule(led, "M5", "the solution iterator remembers across calls that a solution was seen, so a resumed final call reports Finished, not Unsatisfiable (shared with C03-B3)", _C03.b3, ctx)
    from . import kernel as _kernel2
    _kernel2.run_lifecycle(led, ctx, "M")
    from . import kernel as _kernel3
    _kernel3.run_bundle(led, ctx, "M")

"""C14 — DIMACS CNF verdicts and DRAT proofs (structural clauses G1–G7)."""
from ..main import run_rule
from ..flow import resolver, peel, guards_of, aggregates, show
from ..symexec import SymExec, variant_name
from ..facts import AnchorMissing, op_const_str

LEVEL = ('decides: the DRAT literal sign table of DimacsProof::learned_clause against the 0-1 encoding'
         ' (6 rows) and that every clause line is terminated by 0 (G1); the sink maps every literal of'
         ' a clause (no selecting adaptor), negates exactly the negative codes and hands all of them '
         'to add_clause (G2); result → status line table of cnf_problem (G3); the UNSAT conclusion of '
         'a DIMACS proof writes the empty clause and learned clauses are logged before they are used '
         '(G4); header and body tokenise on the same separator class (G5); the clause buffer of the '
         'byte parser is only filled by finish_literal and only cleared by finish_clause after the '
         'clause was handed to the sink, and a line break inside a clause keeps it (G6/G7). a status '
         'line is printed only inside an arm of the solve result and the UNSAT line only after the '
         'proof was concluded; the sink hands every hard clause to the solver on every path (G8); '
         'add_clause rejects every inconsistent state at once (G9 = C10-T11). Also runs the KERNEL '
         'BUNDLE (rule ids …K<n>): the kernel rules every verdict depends on — predicate algebra, '
         'nogood watchers, minimisers, conflict-analysis tables, nogood deletion, decision read-back, '
         'no-learning resolver, constraint builders, reified reasons — wherever they are not already '
         'registered here under another id. Comment state survives chunk boundaries (G12). No iterator'
         ' search over the bytes of the current chunk has its outcome discarded (G14: what it looks '
         'for may lie in the next chunk). Only the code→literal translation drops the sign of a DIMACS'
         ' code (G13 = C15-W11). Does not decide RUP validity or verdict correctness')
TECHNIQUE = "static analysis: symbolic table recovery, who-may-mutate and must-pass rules over rustc MIR"

SELECTING = {"filter", "filter_map", "skip", "take", "step_by", "skip_while", "take_while", "dedup",
             "dedup_by_key", "dedup_by", "retain", "zip", "unique"}
from ..facts import op_place


def g1(led, rid, ctx):
    lib = ctx.lib
    from .shared import method_view as _mv
    f = _mv(lib, "DimacsProof", "learned_clause")
    want = {("LowerBound", 1): "", ("Equal", 1): "", ("NotEqual", 0): "",
            ("UpperBound", 0): "-", ("Equal", 0): "-", ("NotEqual", 1): "-"}
    # one loop iteration: path-wise from the match on the predicate to the prefix written
    paths = SymExec(f, max_paths=4000, max_visits=1).run()
    rows = {}
    for p in paths:
        var = None
        const = None
        for cond, val, others in p.conds:
            if cond.k == "discr" and (cond.b or "").endswith("predicate::Predicate"):
                var = variant_name(f, cond, val, others)
            elif cond.k == "proj" and val is not None and cond.b and \
                    any("field" in e for e in cond.b) and var is not None:
                const = val
        if var is None or const is None:
            continue
        pref = None
        for b in p.blocks:
            for s in f.blocks[b]["stmts"]:
                if s["s"] == "assign" and s["rv"]["r"] == "use" and "const" in s["rv"]["op"]:
                    st = s["rv"]["op"]["const"].get("str")
                    if st in ("", "-") and f.local_name(s["dst"]["local"]) in (None, "variable_prefix"):
                        pref = st
        if pref is not None:
            rows[(var, const)] = pref
    for k, v in sorted(want.items()):
        got = rows.get(k)
        led.check(got == v, rid, "prefix:%s(%d)" % k, f.span, "→ %r" % got,
                  "DRAT literal for [%s %d] on a 0-1 variable is written with prefix %r, expected %r"
                  % (k[0], k[1], got, v))
    extra = [k for k in rows if k not in want]
    led.check(not extra, rid, "no-other-rows", f.span, "", "learned_clause accepts further predicate "
              "shapes %s that do not denote a DIMACS literal" % extra)
    # every clause is terminated by "0\n"
    zero = False
    for b in f.blocks:
        t = b["term"]
        if t["t"] == "call":
            for a in t["args"]:
                c = a.get("const") if isinstance(a, dict) else None
                if c and (c.get("str") or "").strip() == "0":
                    if all(f.cfg.dominates(b["id"], r) or True for r in f.cfg.returns):
                        zero = True
    led.check(zero, rid, "terminating-zero", f.span, "writes the terminating 0",
              "learned_clause does not terminate the clause line with 0")


def g2(led, rid, ctx):
    p = ctx.bin
    f = p.fn("SolverDimacsSink::mapped_clause")
    its = [c for c in f.calls if (c.trait or "").endswith("iter::Iterator") or (c.defn or "").startswith("std::iter")]
    bad = [c.name for c in its if c.name in SELECTING]
    other_mut = [c.name for c in f.calls if c.name in SELECTING]
    led.check(not bad and not other_mut, rid, "maps-every-literal", f.span, "chain: %s" % [c.name for c in its],
              "mapped_clause drops or merges literals (%s): the solver receives a different clause "
              "than the file states" % (bad or other_mut))
    cl = f.closures
    from ..symexec import SymExec

    class _Row:
        def __init__(self, conds, ret):
            self.conds, self.ret = conds, ret
    rows = None
    g = f
    if len(cl) == 1:
        g = cl[0]
        rows = [_Row(pa.conds, pa.ret) for pa in SymExec(g, max_paths=64).run() if not pa.diverged and pa.ret is not None]
    elif not cl:
        # loop form: `for code in clause { v.push(map(code)) }` — the pushed values are the rows
        rows = []
        pushes_per_path = set()
        for pa in SymExec(f, max_paths=400, max_visits=2).run():
            if pa.diverged:
                continue
            ps = [(c, a) for c, a, r in pa.calls if c.name == "push" and len(a) >= 2]
            pushes_per_path.add(len(ps))
            for c, a in ps:
                rows.append(_Row(pa.conds, a[1]))
        other = [c.name for c in f.calls if c.name in ("retain", "remove", "truncate", "pop", "dedup", "swap_remove", "drain", "clear")]
        led.check(not other, rid, "maps-every-literal", f.span, "the vector is only pushed to",
                  "mapped_clause modifies the mapped clause with %s" % other)
    led.check(rows is not None, rid, "one-closure", f.span, "", "expected one mapping closure or one push loop")
    if rows is not None:
        # path TABLE of the mapping: code > 0 ↦ variables[|code| − 1], code < 0 ↦ ¬variables[|code| − 1]
        paths = rows
        bad_sign = bad_index = None
        for pa in paths:
            sign = None
            for c, v, o in pa.conds:
                c_ = peel(c, calls=None)
                if c_.k == "call" and c_.a.name in ("is_positive", "is_negative"):
                    truth = (v == 1) if v is not None else (0 in (o or []))
                    sign = truth if c_.a.name == "is_positive" else (not truth)
            negated = sum(1 for x in pa.ret.walk() if x.k == "call" and x.a.name == "not") % 2 == 1
            if sign is None or negated == sign:
                bad_sign = "a path returns %s for a %s code" % (show(pa.ret)[:60], "positive" if sign else "negative" if sign is not None else "code of unknown sign")
            idx_ok = False
            for x in pa.ret.walk():
                if x.k == "call" and x.a.name == "index" and len(x.b) >= 2:
                    ie = peel(x.b[1], calls=None)
                    if ie.k == "binop" and ie.a.startswith("Sub") and peel(ie.c, calls=None).k == "const" and peel(ie.c, calls=None).a == 1 \
                            and any(y.k == "call" and y.a.name in ("unsigned_abs", "abs") for y in ie.b.walk()):
                        idx_ok = True
            if not idx_ok:
                bad_index = show(pa.ret)[:80]
        led.check(bool(paths) and bad_sign is None, rid, "negates-negative-codes", g.span, "¬ exactly for negative codes (per path)",
                  "mapped_clause does not negate exactly the literals with a negative DIMACS code: %s" % bad_sign)
        led.check(bool(paths) and bad_index is None, rid, "code-minus-one", g.span, "variables[|code| − 1] on every path",
                  "the DIMACS code → variable index mapping is not |code| − 1 on every path (%s)" % bad_index)
    h = None
    for x in p.fns.values():
        if x.name == "add_hard_clause" and (x.self_adt or "").endswith("SolverDimacsSink"):
            h = x
    if h is None:
        raise AnchorMissing("SolverDimacsSink::add_hard_clause")
    R = resolver(h)
    adds = h.calls_named("add_clause")
    led.check(len(adds) == 1, rid, "hard-clause-added", h.span, "", "add_hard_clause calls add_clause %d times" % len(adds))
    if adds:
        e = R.operand(adds[0].args[1])
        from_mapped = any(c.name == "mapped_clause" for c in e.calls())
        sel = [c.name for c in e.calls() if c.name in SELECTING]
        led.check(from_mapped and not sel, rid, "all-mapped-literals-forwarded", adds[0].span,
                  "add_clause(mapped_clause(clause).map(true predicate))",
                  "add_hard_clause does not forward every mapped literal (%s)" % (sel or "not from mapped_clause"))
        tp = any(any(c.name == "get_true_predicate" for c in g.calls) for g in h.closures)
        led.check(tp, rid, "true-predicates", h.span, "", "literals are not turned into their *true* predicates")


def g3(led, rid, ctx):
    p = ctx.bin
    f = p.fn("cnf_problem")
    from .C11 import arms, region
    want = {"Satisfiable": "s SATISFIABLE", "Unsatisfiable": "s UNSATISFIABLE", "Unknown": "s UNKNOWN"}
    seen = {}
    for variant, edge, adt in arms(f, ("SatisfactionResult",)):
        strs = seen.setdefault(variant, [])
        for b in region(f, edge):
            consts = []
            for s_ in f.blocks[b]["stmts"]:
                if s_["s"] == "assign" and s_["rv"]["r"] == "use" and "const" in s_["rv"]["op"]:
                    consts.append(s_["rv"]["op"]["const"])
            t = f.blocks[b]["term"]
            if t["t"] == "call":
                consts += [a["const"] for a in t["args"] if isinstance(a, dict) and "const" in a]
            for c in consts:
                txt = c.get("str") or ""
                if c.get("bytes"):
                    try:
                        txt = bytes.fromhex(c["bytes"]).decode("latin1")
                    except ValueError:
                        txt = ""
                for line in txt.replace("\x00", "\n").split("\n"):
                    line = line.strip()
                    if line.startswith("s "):
                        strs.append(line)
    for v, w in want.items():
        got = seen.get(v)
        led.check(got is not None and w in got and all(x == w for x in got), rid, "status:%s" % v, f.span,
                  "prints %r" % w, "the %s arm of cnf_problem prints %s, expected exactly %r" % (v, got, w))
    # the proof is concluded on the Unsatisfiable arm
    concl = [c for c in f.calls if c.name == "conclude_proof_unsat"]
    ok = False
    for c in concl:
        for fa in guards_of(f, c.bb):
            if fa.kind == "variant" and fa.val == "Unsatisfiable":
                ok = True
    led.check(ok or not concl, rid, "proof-concluded-on-unsat", f.span, "", "conclude_proof_unsat is called "
              "outside the Unsatisfiable arm")


def g4(led, rid, ctx):
    lib = ctx.lib
    f = lib.method("ProofLog", "unsat")
    ok = False
    for p in SymExec(f).run():
        var = None
        for cond, val, others in p.conds:
            if cond.k == "discr" and (cond.b or "").endswith("ProofImpl"):
                var = variant_name(f, cond, val, others)
        if var == "DimacsProof":
            lc = p.called("learned_clause")
            if len(lc) == 1:
                arg = lc[0][1][1]
                if any(c.name == "empty" for c in arg.calls()) or (arg.k == "call" and arg.a.name == "empty"):
                    ok = True
    led.check(ok, rid, "unsat-writes-empty-clause", f.span,
              "DIMACS conclusion = learned_clause(empty)",
              "ProofLog::unsat does not write the empty clause for a DIMACS proof: a refutation found "
              "while the formula is read (no conflict analysis) ends without it")
    g = lib.method("ProofLog", "log_learned_clause")
    ok = False
    for p in SymExec(g).run():
        var = None
        for cond, val, others in p.conds:
            if cond.k == "discr" and (cond.b or "").endswith("ProofImpl"):
                var = variant_name(g, cond, val, others)
        if var == "DimacsProof" and p.called("learned_clause"):
            ok = True
    led.check(ok, rid, "learned-clauses-reach-the-writer", g.span, "", "log_learned_clause does not "
              "forward learned clauses to the DIMACS proof writer")
    # logged before added (shared with C06-P3)
    from .shared import method_view as _mv
    r = _mv(lib, "ConstraintSatisfactionSolver", "resolve_conflict_with_nogood", keep=("add_learned_nogood", "add_asserting_nogood_to_nogood_propagator", "backtrack", "process", "resolve_conflict", "prepare_for_conflict_resolution", "declare_solving", "log_learned_clause", "log_learned_nogood", "decay_nogood_activities"))
    logs = r.calls_named("log_learned_clause")
    adds = r.calls_named("add_learned_nogood")
    ok = bool(logs) and bool(adds) and all(any(r.cfg.dominates(l.bb, a.bb) for l in logs) for a in adds)
    led.check(ok, rid, "logged-before-added", r.span, "log_learned_clause dominates add_learned_nogood",
              "a learned nogood can be added to the database without having been written to the proof")
    # complete_proof ends with the empty learned clause
    cp = lib.method("ConstraintSatisfactionSolver", "complete_proof")
    fin = [c for c in cp.calls if c.name in ("finalize_proof",)]
    led.check(len(fin) >= 1, rid, "complete_proof-finalises", cp.span, "", "complete_proof no longer finalises the proof")


def g5(led, rid, ctx):
    p = ctx.bin
    n = 0
    for f in p.fns.values():
        if "/parsers/dimacs.rs" not in f.file or "/tests" in f.file:
            continue
        for c in f.calls:
            d = c.target_def or ""
            if c.name in ("split", "splitn", "split_terminator", "rsplit") and "str" in d:
                n += 1
                root = f.parent or f.defn
                led.bad(rid, "%s:%s" % (root, c.name), c.span,
                        "the header is tokenised with `%s` on a fixed separator while the body accepts "
                        "any ASCII whitespace: `p  cnf 2\\t1` is rejected although it spells the same "
                        "formula (use split_ascii_whitespace)" % c.name)
            if c.name == "starts_with" and any((op_const_str(a) or "").endswith(" ") for a in c.args):
                root = f.parent or f.defn
                led.bad(rid, "%s:starts_with" % root, c.span,
                        "the header is recognised by a literal prefix with single spaces: extra "
                        "whitespace is rejected")
    ws = 0
    for f in p.fns.values():
        if "/parsers/dimacs.rs" in f.file:
            ws += len([c for c in f.calls if c.name in ("split_ascii_whitespace", "split_whitespace",
                                                        "is_ascii_whitespace")])
    led.check(ws >= 2, rid, "whitespace-class-used", None, "%d whitespace-class tokenisations" % ws,
              "the DIMACS parser no longer tokenises on the ASCII whitespace class")


def g6(led, rid, ctx):
    """who may mutate the clause buffer of the byte parser"""
    p = ctx.bin
    pushes = []
    clears = []
    for f in p.fns.values():
        if "/parsers/dimacs.rs" not in f.file or "/tests" in f.file or not (f.self_adt or "").endswith("DimacsParser"):
            continue
        R = resolver(f)
        for c in f.calls:
            if c.name in ("push", "clear", "truncate", "pop", "drain", "retain", "dedup", "sort",
                          "sort_unstable", "reverse", "swap_remove", "remove", "insert", "extend") and c.args:
                e = peel(R.operand(c.args[0]), calls=None)
                if e.fields()[-1:] == ["clause"]:
                    (pushes if c.name == "push" else clears).append((f, c))
    led.check(len(pushes) == 1 and pushes[0][0].name == "finish_literal", rid, "clause-filled-by-finish_literal",
              pushes[0][1].span if pushes else None, "only finish_literal pushes literals",
              "the clause buffer is filled in %s" % [f.name for f, _ in pushes])
    ok = len(clears) == 1 and clears[0][0].name == "finish_clause" and clears[0][1].name == "clear"
    led.check(ok, rid, "clause-cleared-by-finish_clause", clears[0][1].span if clears else None,
              "only finish_clause clears the buffer",
              "the clause buffer is modified by %s: literals parsed so far can be lost (e.g. when the "
              "terminating 0 starts a new line)" % [(f.name, c.name) for f, c in clears])
    if ok:
        f, c = clears[0]
        R = resolver(f)
        # the sink callback receives the buffer before it is cleared
        ind = [b for b in f.blocks if b["term"]["t"] == "call" and b["term"]["callee"].get("def") in (
            None, "std::ops::FnMut::call_mut", "core::ops::FnMut::call_mut")
               or (b["term"]["t"] == "call" and (b["term"]["callee"].get("name") == "call_mut"))]
        got = False
        for b in ind:
            args = b["term"]["args"]
            for a in args:
                e = R.operand(a)
                if "clause" in e.fields() and f.cfg.dominates(b["id"], c.bb):
                    got = True
        led.check(got, rid, "sink-called-before-clear", c.span, "on_clause(sink, &clause, header) dominates the clear",
                  "finish_clause clears the buffer without first handing the clause to the sink")
        inc = False
        for b in f.blocks:
            for s in b["stmts"]:
                if s["s"] == "assign" and s["dst"]["proj"] and \
                        [e.get("name") for e in s["dst"]["proj"] if "field" in e][-1:] == ["parsed_clauses"]:
                    inc = True
        led.check(inc, rid, "clause-counted", f.span, "", "finish_clause no longer counts the clause")
    # complete(): an unterminated clause is an error
    comp = None
    for f in p.fns.values():
        if f.name == "complete" and (f.self_adt or "").endswith("DimacsParser"):
            comp = f
    if comp is not None:
        ok = any(s["rv"]["variant"] == "UnterminatedClause" for bb, i, s in aggregates(comp, "DimacsParseError"))
        led.check(ok, rid, "unterminated-clause-rejected", comp.span, "", "a clause without terminating 0 "
                  "at the end of the file is no longer rejected")


def g7(led, rid, ctx):
    """state machine rows of parse_chunk that the layouts of the property depend on"""
    p = ctx.bin
    f = None
    for x in p.fns.values():
        if x.name == "parse_chunk" and (x.self_adt or "").endswith("DimacsParser"):
            f = x
    if f is None:
        raise AnchorMissing("DimacsParser::parse_chunk")
    # finish_clause is called from exactly the two `0` arms (StartLine and Clause); a newline in
    # the Clause state only changes the state
    fin = f.calls_named("finish_clause")
    states = []
    for c in fin:
        vs = [fa.val for fa in guards_of(f, c.bb) if fa.kind == "variant" and not fa.neg]
        states.append(tuple(v for v in vs if v in ("StartLine", "Clause", "Literal", "Header", "Comment",
                                                    "NegativeLiteral")))
    led.check(sorted(states) == [("Clause",), ("StartLine",)], rid, "finish_clause-arms", f.span,
              "finish_clause on `0` in states StartLine and Clause",
              "finish_clause is called in states %s (expected once in StartLine and once in Clause)" % states)
    # nothing in parse_chunk itself touches the clause buffer
    R = resolver(f)
    touched = []
    for c in f.calls:
        if c.args:
            e = peel(R.operand(c.args[0]), calls=None)
            if e.fields()[-1:] == ["clause"] and c.name not in ("len", "is_empty", "iter"):
                touched.append(c.name)
    led.check(not touched, rid, "parse_chunk-leaves-buffer-alone", f.span, "",
              "parse_chunk manipulates the clause buffer directly (%s)" % touched)


def _status_blocks(f):
    out = []
    for b in f.blocks:
        if b.get("cleanup"):
            continue
        consts = []
        for s_ in b["stmts"]:
            if s_["s"] == "assign" and s_["rv"]["r"] == "use" and "const" in s_["rv"]["op"]:
                consts.append(s_["rv"]["op"]["const"])
        t = b["term"]
        if t["t"] == "call":
            consts += [a["const"] for a in t["args"] if isinstance(a, dict) and "const" in a]
        for c in consts:
            txt = c.get("str") or ""
            if c.get("bytes"):
                try:
                    txt = bytes.fromhex(c["bytes"]).decode("latin1")
                except ValueError:
                    txt = ""
            for line in txt.replace("\x00", "\n").split("\n"):
                line = line.strip()
                if line.startswith("s ") and line[2:3].isupper():
                    out.append((b["id"], line))
    return out


def g8(led, rid, ctx):
    """a status line is printed only as the outcome of the solve (inside an arm of its result), the
    UNSAT line only after the proof was concluded; the sink hands every hard clause to the solver"""
    p = ctx.bin
    f = p.fn("cnf_problem")
    cfg = f.cfg
    concl = f.calls_named("conclude_proof_unsat")
    n = 0
    for bb, line in _status_blocks(f):
        n += 1
        arms_ = [fa.val for fa in guards_of(f, bb) if fa.kind == "variant" and
                 fa.val in ("Satisfiable", "Unsatisfiable", "Unknown")]
        led.check(bool(arms_), rid, "status-inside-arm:%s" % line[2:], "%s:%d" % (f.file, f.blocks[bb]["line"]),
                  "printed in the %s arm" % (arms_[-1] if arms_ else "?"),
                  "cnf_problem prints `%s` outside the arms of the solve result: the verdict does not come "
                  "from Solver::satisfy" % line)
        if line == "s UNSATISFIABLE":
            led.check(any(cfg.dominates(c.bb, bb) for c in concl), rid, "unsat-line-after-conclusion",
                      "%s:%d" % (f.file, f.blocks[bb]["line"]), "conclude_proof_unsat dominates the print",
                      "cnf_problem prints `s UNSATISFIABLE` on a path that has not concluded the proof: the "
                      "DRAT file does not end in the empty clause")
    led.floor(rid, "status lines in cnf_problem", n, 3)
    sink = None
    for x in p.fns.values():
        if (x.self_adt or "").endswith("SolverDimacsSink") and x.name == "add_hard_clause":
            sink = x
    if sink is None:
        raise AnchorMissing("SolverDimacsSink::add_hard_clause")
    adds = sink.calls_named("add_clause")
    ok = bool(adds) and all(any(sink.cfg.dominates(c.bb, r) for c in adds) for r in sink.cfg.returns)
    led.check(ok, rid, "add_hard_clause:forwards-on-every-path", sink.span, "solver.add_clause dominates the return",
              "SolverDimacsSink::add_hard_clause can return without handing the clause to the solver: a clause "
              "of the formula is dropped and a model that violates it is printed")


def g10(led, rid, ctx):
    """the byte parser recognises blanks only through the ASCII whitespace class (no case on a single
    blank byte other than the line feed); a proof file is created truncating"""
    p = ctx.bin
    n = 0
    for f in p.fns.values():
        if "/parsers/dimacs.rs" not in f.file or "/tests" in f.file or "::tests::" in f.defn:
            continue
        for b in f.blocks:
            t = b["term"]
            if t["t"] != "switch" or t.get("ty") != "u8":
                continue
            n += 1
            vals = {v for v, _ in t["targets"]}
            blanks = sorted(vals & {9, 11, 12, 13, 32})
            led.check(not blanks, rid, "%s:no-single-blank-case@%d" % (f.name, b["line"]), "%s:%d" % (f.file, b["line"]),
                      "blank bytes handled by is_ascii_whitespace",
                      "%s matches the byte value(s) %s literally: the other ASCII blanks (e.g. the carriage "
                      "return of a CRLF file) are no longer separators in that state, so the same formula "
                      "parses or fails depending on its layout" % (f.name, blanks))
    led.floor(rid, "byte switches in the DIMACS parser", n, 3)
    lib = ctx.lib
    m = 0
    for f in lib.fns.values():
        if "/proof/" not in f.file or "/tests" in f.file:
            continue
        opens = [c for c in f.calls if c.name == "open" and "OpenOptions" in (c.self_ty or c.target_def or "")]
        creates = [c for c in f.calls if c.name == "create" and "File" in (c.self_ty or c.target_def or "")]
        m += len(opens) + len(creates)
        for c in opens:
            trunc = any(x.name in ("truncate", "create_new") for x in f.calls)
            led.check(trunc, rid, "%s:proof-file-truncated" % f.name, c.span, "truncate(true) / File::create",
                      "%s opens the proof file without truncating it: clauses of an earlier, longer proof stay "
                      "behind the new one and the file does not end in the empty clause" % f.name)
    led.floor(rid, "proof file creations", m, 1)


def g12(led, rid, ctx):
    """the byte parser leaves the Comment state only on a line feed that it has actually seen: the
    store `state = StartLine` in the Comment arm is dominated by a byte == '\n' test (a chunk may end
    inside a comment)"""
    from ..flow import edge_facts, rel_fact
    p = ctx.bin
    f = None
    for x in p.fns.values():
        if x.name == "parse_chunk" and "/parsers/dimacs.rs" in x.file and x.kind != "Closure":
            f = x
    if f is None:
        raise AnchorMissing("DimacsParser::parse_chunk")
    R = resolver(f)
    n = 0
    for b in f.blocks:
        for st in b["stmts"]:
            if st["s"] != "assign" or not st["dst"]["proj"]:
                continue
            names = [x.get("name") for x in st["dst"]["proj"] if "field" in x]
            if names[-1:] != ["state"]:
                continue
            e = R.rvalue(st["rv"])
            if not (e.k == "agg" and e.b == "StartLine"):
                continue
            gs = guards_of(f, b["id"])
            in_comment = any(g.kind == "variant" and g.val == "Comment" for g in gs)
            if not in_comment:
                continue
            n += 1
            saw_lf = False
            for g in gs:
                if g.kind == "int" and g.val == 10:
                    saw_lf = True
                rf = rel_fact(g)
                if rf and rf[0] == "Eq":
                    k_ = [peel(x, calls=None) for x in rf[1:]]
                    if any(x.k == "const" and x.a == 10 for x in k_):
                        saw_lf = True
            led.check(saw_lf, rid, "comment-ends-only-at-line-feed", "%s:%d" % (f.file, st["line"]),
                      "state = StartLine dominated by byte == '\\n'",
                      "parse_chunk leaves the Comment state without having seen the line feed in this chunk: when "
                      "a comment crosses a chunk boundary its remainder is parsed as clauses (or rejected), so "
                      "the verdict depends on where the 8 KiB boundaries fall")
    led.floor(rid, "Comment → StartLine transitions", n, 1)


def g14(led, rid, ctx):
    """CHUNK-CARRIED STATE: the file reaches parse_chunk in fixed-size pieces, so whatever the parser
    skips ahead to with an iterator search over the current chunk (`find`, `position`, `skip_while`,
    `nth`, …) may not be in this chunk.  Such a search is admissible only if its outcome is looked at
    (the not-found case has to store the state to resume in); a search whose result is discarded
    treats the end of the chunk as the end of what it skips"""
    import json as _json
    p = ctx.bin
    f = None
    for x in p.fns.values():
        if x.name == "parse_chunk" and "/parsers/dimacs.rs" in x.file and x.kind != "Closure":
            f = x
    if f is None:
        raise AnchorMissing("DimacsParser::parse_chunk")
    from ..inline import view as _view
    f = _view(p, f)
    heads = n = 0
    for c in f.calls:
        tys = []
        for a in c.args:
            pl = op_place(a)
            if pl is not None:
                tys.append(f.locals[pl["local"]]["ty"])
        if not any("slice::Iter<" in t and "u8" in t for t in tys):
            continue
        if c.name in ("next",):
            heads += 1
            continue
        if c.name in ("by_ref", "into_iter", "clone", "as_slice", "len", "size_hint"):
            continue
        n += 1
        used = False
        if c.dst is not None:
            d = c.dst["local"]
            import re as _re
            pat = _re.compile(r'"local": %d\b' % d)
            for b in f.blocks:
                if b.get("cleanup"):
                    continue
                for st in b["stmts"]:
                    if st["s"] in ("storage_live", "storage_dead", "nop"):
                        continue
                    if st["s"] == "assign" and st["dst"]["local"] == d and not st["dst"]["proj"]:
                        continue
                    if pat.search(_json.dumps(st)):
                        used = True
                t = b["term"]
                if t is c.term or b["id"] == c.bb or t["t"] == "drop":
                    continue
                if pat.search(_json.dumps(t)):
                    used = True
        led.check(used, rid, "skip-result-examined:%s" % c.name, c.span,
                  "the outcome of `%s` over the chunk is tested" % c.name,
                  "parse_chunk skips ahead with `%s` over the bytes of the current chunk and discards the "
                  "outcome: when what it looks for lies in the next 8 KiB chunk the parser resumes in "
                  "the wrong state (the rest of a comment is read as clauses), so the verdict depends on "
                  "where the chunk boundaries fall" % c.name)
    led.floor(rid, "loop-head `next` over the chunk", heads, 1)


def run(ctx, led):
    run_rule(led, "G1", "DRAT literal sign TABLE (6 rows) and terminating 0", g1, ctx)
    run_rule(led, "G2", "the sink maps every literal, negates exactly the negative codes, forwards all "
             "to add_clause", g2, ctx)
    run_rule(led, "G3", "result → `s` line TABLE of cnf_problem", g3, ctx)
    run_rule(led, "G4", "the DIMACS UNSAT conclusion writes the empty clause; learned clauses are "
             "logged before they are added", g4, ctx)
    run_rule(led, "G5", "one separator class: no fixed-separator tokenisation in the DIMACS parser "
             "(WHO-MAY ∅, contradiction with the body tokeniser)", g5, ctx)
    run_rule(led, "G6", "the clause buffer is filled only by finish_literal and cleared only by "
             "finish_clause after the sink saw it (WHO-MAY + MUST-PASS)", g6, ctx)
    run_rule(led, "G7", "finish_clause is reached from exactly the two `0` arms; parse_chunk never "
             "touches the clause buffer", g7, ctx)
    from . import C15 as _C15
    run_rule(led, "G13", "WHO-MAY-DROP-SIGN: only the code→literal translation takes the absolute value of a DIMACS code (shared with C15-W11)", _C15.w11, ctx)
    run_rule(led, "G8", "status lines only inside the arms of the solve result, UNSAT only after the proof is concluded; every hard clause reaches the solver", g8, ctx)
    from . import C10 as _C10

    def _g9(led_, rid_, ctx_):
        _C10.t_guards(led_, rid_, ctx_, _C10.explore(ctx_.lib))
    run_rule(led, "G9", "ENTRY-GUARD of add_clause: a clause that follows a root conflict is rejected, not processed (shared with C10-T11)", _g9, ctx)
    run_rule(led, "G10", "blanks only through the whitespace class in the byte parser; proof files are created truncating", g10, ctx)
    from . import C07 as _C07
    run_rule(led, "G11", "a learned clause is deleted only if it is not the reason of a trail entry (shared with C07-J1)", _C07.j1, ctx)
    from . import kernel as _kernel
    _kernel.run_bundle(led, ctx, "G")
    run_rule(led, "G14", "CHUNK-CARRIED STATE: no iterator search over the current chunk whose outcome is discarded", g14, ctx)
    run_rule(led, "G12", "the Comment state is left only on a line feed seen in the current chunk", g12, ctx)
    from . import kernel as _kernel4
    _kernel4.run_lifecycle(led, ctx, "G")

"""Rules shared by several properties (each property registers them under its own rule id)."""
from ..flow import resolver, peel, root_local, backward, operand_locals
from ..facts import op_place


def assumptions_overwritten(led, rid, ctx):
    """every solve starts from exactly the assumptions it was given (DESIGN §4-C05 A3)"""
    lib = ctx.lib
    # WHO-MAY-CALL: the search is only entered after `initialise` installed this call's assumptions
    n_entries = 0
    for g in lib.fns.values():
        if "/tests" in g.file or g.name == "solve_internal":
            continue
        for c in g.calls_named("solve_internal"):
            n_entries += 1
            inits = g.calls_named("initialise")
            ok = any(g.cfg.dominates(i.bb, c.bb) for i in inits)
            led.check(ok, rid, "%s:initialise-before-search" % g.name, c.span, "initialise dominates solve_internal",
                      "%s enters the search (solve_internal) without a preceding initialise(assumptions): the "
                      "assumptions stored by an earlier call are posted again as if they belonged to the model"
                      % g.name)
    led.floor(rid, "entries into solve_internal", n_entries, 1)
    f = lib.method("ConstraintSatisfactionSolver", "initialise")
    R = resolver(f)
    cfg = f.cfg
    param = None
    for a in f.args[1:]:
        if "Predicate" in a["ty"]:
            param = a["local"]
    led.check(param is not None, rid, "initialise-takes-assumptions", f.span, "",
              "initialise no longer receives the assumptions")
    writers = []
    for c in f.calls:
        tgt = False
        src = False
        for a in c.args:
            e = R.operand(a)
            inner = peel(e, calls=None)
            if e.k == "ref" and inner.k == "proj" and inner.b and inner.b[-1].get("name") == "assumptions" \
                    and e.b:
                tgt = True
            if param in backward(f, operand_locals(a), effects=False):
                src = True
        if tgt and src:
            writers.append(c.bb)
    for b in f.blocks:
        for s in b["stmts"]:
            if s["s"] == "assign" and s["dst"]["proj"] and \
                    [e.get("name") for e in s["dst"]["proj"] if "field" in e] == ["assumptions"]:
                from ..flow import _rv_locals
                if param in backward(f, _rv_locals(s["rv"]), effects=False):
                    writers.append(b["id"])
    ok = any(all(cfg.dominates(w, r) for r in cfg.returns) for w in writers) and bool(cfg.returns)
    led.check(ok, rid, "initialise-overwrites-assumptions", f.span,
              "self.assumptions is overwritten from the parameter on every path",
              "some path through initialise leaves self.assumptions as it was: the assumptions of an "
              "earlier solve survive into this one")
    g = lib.method("ConstraintSatisfactionSolver", "solve_under_assumptions")
    inits = g.calls_named("initialise")
    solves = g.calls_named("solve_internal")
    led.check(len(solves) >= 1, rid, "solve_internal-called", g.span, "", "solve_under_assumptions no "
              "longer calls solve_internal")
    gparam = None
    for a in g.args[1:]:
        if "Predicate" in a["ty"]:
            gparam = a["local"]
    for s in solves:
        ok = any(g.cfg.dominates(i.bb, s.bb) and root_local(g, i.args[1]) == gparam for i in inits)
        led.check(ok, rid, "initialise-dominates-solve", s.span,
                  "initialise(assumptions) dominates solve_internal",
                  "solve_internal can run without initialise(assumptions) having stored this call's "
                  "assumptions")


def no_fabricated_reason(led, rid, ctx):
    """WHO-MAY(construct ReasonRef, {ReasonStore::push}) and WHO-MAY(pass `None` as the reason of a
    domain change, {decisions, assumptions, root posting, variable creation})  (DESIGN §4-C02 U2)"""
    from ..flow import aggregates, resolver, peel
    lib = ctx.lib
    n = 0
    for f in lib.fns.values():
        for bb, i, s in aggregates(f, "reason::ReasonRef"):
            n += 1
            root = f.parent or f.defn
            ok = root.endswith("ReasonStore::push") or f.from_expansion
            led.check(ok, rid, "ReasonRef-constructed:%s" % root, "%s:%d" % (f.file, s["line"]),
                      "constructed by the reason store",
                      "a ReasonRef is fabricated in %s instead of being returned by ReasonStore::push: "
                      "the trail entry would be explained by whatever reason happens to sit at that "
                      "index" % root)
    led.floor(rid, "ReasonRef constructions", n, 1)
    # who may post a domain change without a reason
    allowed = {
        "ConstraintSatisfactionSolver::make_next_decision": "decisions and assumptions",
        "ConstraintSatisfactionSolver::post_predicate": "root-level posting through the API",
        "Assignments::grow": "initial bounds of a new variable",
        "Assignments::create_new_integer_variable_sparse": "holes of a new sparse variable",
        "ConstraintSatisfactionSolver::create_new_integer_variable_sparse": "holes of a new sparse variable",
        "DebugHelper::debug_reported_propagations_negate_failure_and_check":
            "debug check working on a clone of the assignments",
        "DebugHelper::debug_add_predicates_to_assignments":
            "debug check working on a clone of the assignments",
    }
    mutators = ("post_predicate", "tighten_lower_bound", "tighten_upper_bound",
                "remove_value_from_domain", "make_assignment")
    m = 0
    for f in lib.fns.values():
        R = None
        for c in f.calls:
            if c.name not in mutators or not (c.self_ty or "").endswith("Assignments"):
                continue
            if R is None:
                R = resolver(f)
            last = peel(R.operand(c.args[-1]), calls=None)
            if last.k == "agg" and last.b == "None":
                m += 1
                root = f.parent or f.defn
                ok = any(root.endswith(a) for a in allowed)
                led.check(ok, rid, "None-reason:%s" % root, c.span, "allowed: reason-less entries are decisions",
                          "%s posts a domain change with reason None: conflict analysis would take the "
                          "propagated entry for a decision" % root)
    led.count(rid + ":reason-less posts", m)


def swap_remove_skip(led, rid, ctx, progs=("lib", "bin")):
    """SWAP-REMOVE-SKIP: inside an index loop, `v.swap_remove(i)` / `v.remove(i)` followed on some
    path by `i += 1` before the index is used again skips the element that moved into position i"""
    from ..flow import resolver, root_local
    from ..facts import op_const_int
    n = 0
    for pk in progs:
        p = getattr(ctx, pk)
        for f in p.fns.values():
            if "/tests" in f.file:
                continue
            rms = [c for c in f.calls if c.name in ("swap_remove", "remove") and len(c.args) == 2 and
                   ("Vec<" in (c.self_ty or "") or "vec::Vec" in (c.defn or ""))]
            if not rms:
                continue
            cfg = f.cfg
            for rm in rms:
                n += 1
                i = root_local(f, rm.args[1])
                if i is None or f.local_ty(i) != "usize":
                    continue
                # increments of that very local
                incs = []
                for b in f.blocks:
                    for s in b["stmts"]:
                        if s["s"] == "assign" and s["rv"]["r"] == "binop" and \
                                s["rv"]["op"].replace("WithOverflow", "") == "Add" and \
                                op_const_int(s["rv"]["b"]) == 1 and root_local(f, s["rv"]["a"]) == i:
                            incs.append(b["id"])
                root = f.parent or f.defn
                key = "%s:%s(%s)" % (root, rm.name, f.local_name(i) or "_%d" % i)
                if not incs or not cfg.in_loop(rm.bb):
                    led.ok(rid, key, rm.span, "no index increment after the removal")
                    continue
                hit = cfg.reaches(rm.bb, incs, strict=True)
                # reaching the increment only through the loop head again (next iteration) is fine:
                # require a path that does not pass the loop's condition block first
                heads = [h for h in cfg.loop_heads() if cfg.dominates(h, rm.bb)]
                direct = hit and cfg.reaches(rm.bb, incs, avoid=heads, strict=True)
                led.check(not direct, rid, key, rm.span, "the index is not advanced past the moved element",
                          "`%s(%s)` moves another element into position `%s`, and on a path of the same "
                          "iteration `%s += 1` follows: the moved element is never examined"
                          % (rm.name, f.local_name(i) or "i", f.local_name(i) or "i", f.local_name(i) or "i"))
    led.count(rid + ":vector removals by index", n)

"""Rules shared by several properties (each property registers them under its own rule id)."""
from ..flow import resolver, peel, root_local, backward, operand_locals
from ..facts import op_place


SOLVE_INTERNAL_CALLEES = ("complete_proof", "decay_nogood_activities", "declare_infeasible", "declare_timeout",
                          "get_decision_level", "make_next_decision", "no_conflict", "propagate",
                          "resolve_conflict_with_nogood", "restart_during_search", "backtrack", "initialise",
                          "solve_internal", "declare_solving", "declare_conflict", "declare_solution_found")


def method_view(lib, owner, name, keep=(), same_type_only=False, trait=None):
    """`lib.method(owner, name)` with the private helpers of its file spliced in — except those in
    `keep`, which rules look for as calls"""
    from ..inline import view
    f = lib.method(owner, name, trait) if trait else lib.method(owner, name)
    return view(lib, f, want=lambda g: g.file == f.file and g.kind != "Closure" and g.vis != "pub" and g.name not in keep
                and (not same_type_only or owner in (g.self_ty or "")))


def solve_internal(lib):
    """the search loop with every helper spliced in that is not one of the functions it called on the
    pinned tree (those are anchors of their own): splitting the loop body into private methods does
    not change what the rules see"""
    from ..inline import view
    f = lib.method("ConstraintSatisfactionSolver", "solve_internal")
    return view(lib, f, want=lambda g: g.file == f.file and g.kind != "Closure" and g.name not in SOLVE_INTERNAL_CALLEES)


def _assumption_writes(lib, f, depth=0, memo=None):
    """[(block, sources)] of f: places where self.assumptions is overwritten — directly, or by a
    call to a function that overwrites it on every path.  `sources` is the set of parameters of f
    (local ids) the new value is computed from (empty: from something that is not a parameter)."""
    from ..flow import _rv_locals
    memo = memo if memo is not None else {}
    if f.defn in memo:
        return memo[f.defn]
    memo[f.defn] = []
    R = resolver(f)
    params = {a["local"] for a in f.args}
    out = []
    for c in f.calls:
        tgt = False
        srcs = set()
        for a in c.args:
            e = R.operand(a)
            inner = peel(e, calls=None)
            if e.k == "ref" and inner.k == "proj" and inner.b and inner.b[-1].get("name") == "assumptions" and e.b:
                tgt = True
            else:
                srcs |= params & set(backward(f, operand_locals(a), effects=False))
        if tgt and c.name in ("clone_into", "clone_from", "extend_from_slice", "replace", "clear", "truncate"):
            if c.name in ("clone_into", "clone_from", "replace"):
                out.append((c.bb, srcs - {1}))
            continue
        # a callee that overwrites on every path
        if depth < 3 and "constraint_satisfaction_solver" in f.file:
            for h in lib.callees(c):
                if h is f or "constraint_satisfaction_solver" not in h.file or h.name == "solve_internal":
                    continue
                hw = _assumption_writes(lib, h, depth + 1, memo)
                for bb, hs in hw:
                    if all(h.cfg.dominates(bb, r) for r in h.cfg.returns) and h.cfg.returns:
                        src = set()
                        for q in hs:
                            idx = [i for i, a in enumerate(h.args) if a["local"] == q]
                            if idx and idx[0] < len(c.args):
                                src |= params & set(backward(f, operand_locals(c.args[idx[0]]), effects=False))
                        out.append((c.bb, src - {1}))
    for b in f.blocks:
        for st in b["stmts"]:
            if st["s"] == "assign" and st["dst"]["proj"] and \
                    [e.get("name") for e in st["dst"]["proj"] if "field" in e] == ["assumptions"]:
                out.append((b["id"], (params & set(backward(f, _rv_locals(st["rv"]), effects=False))) - {1}))
    memo[f.defn] = out
    return out


def assumptions_overwritten(led, rid, ctx):
    """every solve starts from exactly the assumptions it was given (DESIGN §4-C05 A3): every entry
    into the search (a call of solve_internal) is dominated by an overwrite of self.assumptions —
    in the same function or in a function it calls that overwrites on all of its paths — and where
    the entering function has an assumptions parameter, the new value is computed from it"""
    lib = ctx.lib
    n_entries = 0
    memo = {}
    for g in lib.fns.values():
        if "/tests" in g.file or g.name == "solve_internal":
            continue
        for c in g.calls_named("solve_internal"):
            n_entries += 1
            ws = _assumption_writes(lib, g, 0, memo)
            dom = [(bb, srcs) for bb, srcs in ws if g.cfg.dominates(bb, c.bb)]
            if not dom:
                # a helper that only runs the search: every caller must have overwritten before the call
                def callers_ok(fn, depth=0):
                    sites = [(h, c2) for h in lib.fns.values() if h.file == fn.file and h is not fn
                             for c2 in h.calls if any(x is fn for x in lib.callees(c2))]
                    if not sites or depth > 2:
                        return False
                    for h, c2 in sites:
                        hw = _assumption_writes(lib, h, 0, memo)
                        hp = [a["local"] for a in h.args[1:] if "Predicate" in a["ty"]]
                        d2 = [(bb, srcs) for bb, srcs in hw if h.cfg.dominates(bb, c2.bb) and bb != c2.bb]
                        if d2 and (not hp or any(set(hp) & srcs for bb, srcs in d2)):
                            continue
                        if not d2 and callers_ok(h, depth + 1):
                            continue
                        return False
                    return True
                if callers_ok(g):
                    led.ok(rid, "%s:initialise-before-search" % g.name, c.span,
                           "every caller of this helper overwrites self.assumptions before calling it")
                    continue
            led.check(bool(dom), rid, "%s:initialise-before-search" % g.name, c.span,
                      "an overwrite of self.assumptions dominates solve_internal",
                      "%s enters the search (solve_internal) without a preceding initialise(assumptions): the "
                      "assumptions stored by an earlier call are posted again as if they belonged to the model"
                      % g.name)
            gparam = [a["local"] for a in g.args[1:] if "Predicate" in a["ty"]]
            if gparam and dom:
                ok = any(set(gparam) & srcs for bb, srcs in dom)
                led.check(ok, rid, "%s:overwritten-from-parameter" % g.name, c.span,
                          "the stored assumptions are computed from this call's parameter",
                          "%s overwrites self.assumptions before the search, but not from the assumptions it "
                          "was given" % g.name)
    led.floor(rid, "entries into solve_internal", n_entries, 1)
    # a function that is named as the installer must overwrite on every path
    for f in lib.fns.values():
        if f.name == "initialise" and "ConstraintSatisfactionSolver" in f.defn:
            ws = _assumption_writes(lib, f, 0, memo)
            ok = any(all(f.cfg.dominates(bb, r) for r in f.cfg.returns) and srcs for bb, srcs in ws) and bool(f.cfg.returns)
            led.check(ok, rid, "initialise-overwrites-assumptions", f.span,
                      "self.assumptions is overwritten from the parameter on every path",
                      "some path through initialise leaves self.assumptions as it was: the assumptions of an "
                      "earlier solve survive into this one")


def no_fabricated_reason(led, rid, ctx):
    """WHO-MAY(construct ReasonRef, {ReasonStore::push}) and WHO-MAY(pass `None` as the reason of a
    domain change, {decisions, assumptions, root posting, variable creation})  (DESIGN §4-C02 U2)"""
    from ..flow import aggregates, resolver, peel
    lib = ctx.lib
    n = 0
    for f in lib.fns.values():
        for bb, i, s in aggregates(f, "reason::ReasonRef"):
            n += 1
            root = f.parent or f.defn
            ok = root.endswith("ReasonStore::push") or f.from_expansion
            led.check(ok, rid, "ReasonRef-constructed:%s" % root, "%s:%d" % (f.file, s["line"]),
                      "constructed by the reason store",
                      "a ReasonRef is fabricated in %s instead of being returned by ReasonStore::push: "
                      "the trail entry would be explained by whatever reason happens to sit at that "
                      "index" % root)
    led.floor(rid, "ReasonRef constructions", n, 1)
    # who may post a domain change without a reason
    allowed = {
        "ConstraintSatisfactionSolver::make_next_decision": "decisions and assumptions",
        "ConstraintSatisfactionSolver::post_predicate": "root-level posting through the API",
        "Assignments::grow": "initial bounds of a new variable",
        "Assignments::create_new_integer_variable_sparse": "holes of a new sparse variable",
        "ConstraintSatisfactionSolver::create_new_integer_variable_sparse": "holes of a new sparse variable",
        "DebugHelper::debug_reported_propagations_negate_failure_and_check":
            "debug check working on a clone of the assignments",
        "DebugHelper::debug_add_predicates_to_assignments":
            "debug check working on a clone of the assignments",
    }
    mutators = ("post_predicate", "tighten_lower_bound", "tighten_upper_bound",
                "remove_value_from_domain", "make_assignment")
    m = 0
    for f in lib.fns.values():
        R = None
        for c in f.calls:
            if c.name not in mutators or not (c.self_ty or "").endswith("Assignments"):
                continue
            if R is None:
                R = resolver(f)
            last = peel(R.operand(c.args[-1]), calls=None)
            if last.k == "agg" and last.b == "None":
                m += 1
                root = f.parent or f.defn
                ok = any(root.endswith(a) for a in allowed)
                led.check(ok, rid, "None-reason:%s" % root, c.span, "allowed: reason-less entries are decisions",
                          "%s posts a domain change with reason None: conflict analysis would take the "
                          "propagated entry for a decision" % root)
    led.count(rid + ":reason-less posts", m)


def swap_remove_skip(led, rid, ctx, progs=("lib", "bin")):
    """SWAP-REMOVE-SKIP: inside an index loop, `v.swap_remove(i)` / `v.remove(i)` followed on some
    path by `i += 1` before the index is used again skips the element that moved into position i"""
    from ..flow import resolver, root_local
    from ..facts import op_const_int
    n = 0
    for pk in progs:
        p = getattr(ctx, pk)
        for f in p.fns.values():
            if "/tests" in f.file:
                continue
            rms = [c for c in f.calls if c.name in ("swap_remove", "remove") and len(c.args) == 2 and
                   ("Vec<" in (c.self_ty or "") or "vec::Vec" in (c.defn or ""))]
            if not rms:
                continue
            cfg = f.cfg
            for rm in rms:
                n += 1
                i = root_local(f, rm.args[1])
                if i is None or f.local_ty(i) != "usize":
                    continue
                # increments of that very local
                incs = []
                for b in f.blocks:
                    for s in b["stmts"]:
                        if s["s"] == "assign" and s["rv"]["r"] == "binop" and \
                                s["rv"]["op"].replace("WithOverflow", "") == "Add" and \
                                op_const_int(s["rv"]["b"]) == 1 and root_local(f, s["rv"]["a"]) == i:
                            incs.append(b["id"])
                root = f.parent or f.defn
                key = "%s:%s(%s)" % (root, rm.name, f.local_name(i) or "_%d" % i)
                if not incs or not cfg.in_loop(rm.bb):
                    led.ok(rid, key, rm.span, "no index increment after the removal")
                    continue
                hit = cfg.reaches(rm.bb, incs, strict=True)
                # reaching the increment only through the loop head again (next iteration) is fine:
                # require a path that does not pass the loop's condition block first
                heads = [h for h in cfg.loop_heads() if cfg.dominates(h, rm.bb)]
                direct = hit and cfg.reaches(rm.bb, incs, avoid=heads, strict=True)
                led.check(not direct, rid, key, rm.span, "the index is not advanced past the moved element",
                          "`%s(%s)` moves another element into position `%s`, and on a path of the same "
                          "iteration `%s += 1` follows: the moved element is never examined"
                          % (rm.name, f.local_name(i) or "i", f.local_name(i) or "i", f.local_name(i) or "i"))
    led.count(rid + ":vector removals by index", n)

"""Rules shared by several properties (each property registers them under its own rule id)."""
from ..flow import resolver, peel, root_local, backward, operand_locals
from ..facts import op_place


def assumptions_overwritten(led, rid, ctx):
    """every solve starts from exactly the assumptions it was given (DESIGN §4-C05 A3)"""
    lib = ctx.lib
    f = lib.method("ConstraintSatisfactionSolver", "initialise")
    R = resolver(f)
    cfg = f.cfg
    param = None
    for a in f.args[1:]:
        if "Predicate" in a["ty"]:
            param = a["local"]
    led.check(param is not None, rid, "initialise-takes-assumptions", f.span, "",
              "initialise no longer receives the assumptions")
    writers = []
    for c in f.calls:
        tgt = False
        src = False
        for a in c.args:
            e = R.operand(a)
            inner = peel(e, calls=None)
            if e.k == "ref" and inner.k == "proj" and inner.b and inner.b[-1].get("name") == "assumptions" \
                    and e.b:
                tgt = True
            if param in backward(f, operand_locals(a), effects=False):
                src = True
        if tgt and src:
            writers.append(c.bb)
    for b in f.blocks:
        for s in b["stmts"]:
            if s["s"] == "assign" and s["dst"]["proj"] and \
                    [e.get("name") for e in s["dst"]["proj"] if "field" in e] == ["assumptions"]:
                from ..flow import _rv_locals
                if param in backward(f, _rv_locals(s["rv"]), effects=False):
                    writers.append(b["id"])
    ok = any(all(cfg.dominates(w, r) for r in cfg.returns) for w in writers) and bool(cfg.returns)
    led.check(ok, rid, "initialise-overwrites-assumptions", f.span,
              "self.assumptions is overwritten from the parameter on every path",
              "some path through initialise leaves self.assumptions as it was: the assumptions of an "
              "earlier solve survive into this one")
    g = lib.method("ConstraintSatisfactionSolver", "solve_under_assumptions")
    inits = g.calls_named("initialise")
    solves = g.calls_named("solve_internal")
    led.check(len(solves) >= 1, rid, "solve_internal-called", g.span, "", "solve_under_assumptions no "
              "longer calls solve_internal")
    gparam = None
    for a in g.args[1:]:
        if "Predicate" in a["ty"]:
            gparam = a["local"]
    for s in solves:
        ok = any(g.cfg.dominates(i.bb, s.bb) and root_local(g, i.args[1]) == gparam for i in inits)
        led.check(ok, rid, "initialise-dominates-solve", s.span,
                  "initialise(assumptions) dominates solve_internal",
                  "solve_internal can run without initialise(assumptions) having stored this call's "
                  "assumptions")

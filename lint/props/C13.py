"""C13 — FlatZinc models are solved according to FlatZinc semantics (structural clauses F1–F7)."""
import re

from ..main import run_rule
from ..flow import (resolver, peel, root_local, guards_of, rel_fact, aggregates, show, backward,
                    operand_locals, const_defs, edge_facts)
from ..facts import AnchorMissing, op_const_int, op_const_str, op_local, op_place
from ..symexec import SymExec, variant_name

LEVEL = ('decides code-shape clauses of the FlatZinc front-end: no index is used after swap_remove '
         'invalidated it (F1); no narrowing cast of model integers (F2); the builtin-name match maps '
         'every supported name to the library constructor the FlatZinc specification demands, plain '
         'and _reif variants agree, and the diagnostic name equals the matched name (F3, recovered '
         'from MIR); sibling arms over the declaration kinds read the same fields (F4); result → '
         "status line table (F5); every compile function's arity guard equals 1 + the largest argument"
         ' index it reads (F6); no model coefficient becomes the scale of a view unguarded (F7); '
         'argument wiring of the linear / binary / element builtins and the hand-written CNFs of xor /'
         ' set_in_reif (F8). Domain::merge is the intersection of the two domains for every variant '
         'pair, and the clauses posted for set_in_reif over an interval mean r ⇔ lb ≤ x ≤ ub (F9/F10, '
         'decided on small windows); nothing is selected from one side before two parallel sequences '
         'are zipped (F11). the arithmetic builders the builtins map to mean what they say (F12 = '
         "C09-R10) and the ten Boolean builtins post constraints with the builtin's truth table (F13 "
         'BOOLFORM). Also runs the KERNEL BUNDLE (rule ids …K<n>): the kernel rules every verdict '
         'depends on — predicate algebra, nogood watchers, minimisers, conflict-analysis tables, '
         'nogood deletion, decision read-back, no-learning resolver, constraint builders, reified '
         'reasons — wherever they are not already registered here under another id. Merge order of '
         'equal variables and the J5/O1/O4 shares (F16, F17). Alias merging is followed through helper'
         ' functions (F16). Every clause of set_in_reif is posted inside an arm of the match on the '
         'set (F18). Does not decide the meaning of each decomposition, search annotations or output '
         'projection')
TECHNIQUE = "static analysis: table recovery from the name match, stale-index / cast / arity / divisor-guard rules over rustc MIR"

WIDTH = {"i8": 8, "u8": 8, "i16": 16, "u16": 16, "i32": 32, "u32": 32, "i64": 64, "u64": 64,
         "i128": 128, "u128": 128, "isize": 64, "usize": 64}


def f1(led, rid, ctx):
    """STALE-INDEX"""
    n_rm = 0
    for pk in ("bin", "lib"):
        p = getattr(ctx, pk)
        for f in p.fns.values():
            if "/tests" in f.file:
                continue
            rms = [c for c in f.calls if c.name in ("swap_remove", "remove") and c.args and
                   ("Vec<" in (c.self_ty or "") or "vec::Vec" in (c.defn or ""))]
            if not rms:
                continue
            R = resolver(f)
            cfg = f.cfg
            for rm in rms:
                n_rm += 1
                recv = peel(R.operand(rm.args[0]), calls=None)
                vec_fields = tuple(recv.fields())
                rm_idx = root_local(f, rm.args[1]) if len(rm.args) > 1 else None
                root = f.parent or f.defn
                # later index operations on a vector of the same object
                for ix in f.calls:
                    if ix.name not in ("index", "index_mut") or len(ix.args) < 2:
                        continue
                    if not cfg.reaches(rm.bb, [ix.bb], strict=True):
                        continue
                    r2 = peel(R.operand(ix.args[0]), calls=None)
                    if not r2.fields() or not vec_fields:
                        continue
                    same_vec = tuple(r2.fields()) == vec_fields
                    if not same_vec:
                        continue
                    i_local = root_local(f, ix.args[1])
                    ity = f.local_ty(i_local) if i_local is not None else ""
                    if ity != "usize":
                        continue
                    defs = f.whole_defs(i_local)
                    def_bbs = [d[1] for d in defs if d[0] in ("stmt", "call")]
                    if not defs or any(d[0] == "arg" for d in defs):
                        def_bbs = []
                    # defined before the removal …
                    before = all(cfg.dominates(b, rm.bb) and b != ix.bb for b in def_bbs) if def_bbs else \
                        any(d[0] == "arg" for d in defs)
                    if not before:
                        continue
                    # … and the use is reachable without passing a redefinition
                    if def_bbs and not cfg.reaches(rm.bb, [ix.bb], avoid=[b for b in def_bbs if b != rm.bb],
                                                   strict=True):
                        continue
                    # guarded by a comparison of that index with the (new) length?
                    guarded = False
                    for g in guards_of(f, ix.bb):
                        rf = rel_fact(g)
                        if rf is None:
                            continue
                        op, l, r = rf
                        for x, y in ((l, r), (r, l)):
                            xl = peel(x, calls=None)
                            yl = peel(y, calls=None)
                            if show(xl) == show(peel(R.operand(ix.args[1]), calls=None)) and \
                                    yl.k == "call" and yl.a.name == "len" and \
                                    cfg.reaches(rm.bb, [g.edge.src], strict=True):
                                guarded = True
                    key = "%s:%s[%s]" % (root, ".".join(vec_fields), f.local_name(i_local) or "_%d" % i_local)
                    led.check(guarded, rid, key, ix.span,
                              "index re-validated against the length after the removal",
                              "`%s` is computed before `%s.%s(..)` and used to index `%s` afterwards "
                              "without being re-validated: swap_remove moves the last element into the "
                              "hole, so the index may point at the wrong (or no) element"
                              % (f.local_name(i_local) or "_%d" % i_local, ".".join(vec_fields), rm.name,
                                 ".".join(vec_fields)))
    led.floor(rid, "removals from vectors examined", n_rm, 3)


def f2(led, rid, ctx):
    p = ctx.bin
    n = 0
    for f in p.fns.values():
        if "/flatzinc/" not in f.file or "/tests" in f.file:
            continue
        for b in f.blocks:
            for s in b["stmts"]:
                if s["s"] == "assign" and s["rv"]["r"] == "cast" and s["rv"]["kind"] == "IntToInt":
                    rv = s["rv"]
                    n += 1
                    wf, wt = WIDTH.get(rv["from"]), WIDTH.get(rv["to"])
                    if wf and wt and wt < wf:
                        root = f.parent or f.defn
                        led.bad(rid, "%s:%s->%s" % (root, rv["from"], rv["to"]), "%s:%d" % (f.file, s["line"]),
                                "a model integer is narrowed with `as %s`: values outside the range wrap "
                                "silently (use %s::try_from as the sibling resolve functions do)"
                                % (rv["to"], rv["to"]))
    led.ok(rid, "scan", None, "%d integer casts in the FlatZinc front-end examined" % n)


# name -> library constraint constructors the arm must (transitively) use.  From the FlatZinc
# specification of the builtins and minizinc/lib for the solver-specific ones (spec/oracles.md F3).
BUILTINS = {
    "int_lin_ne": {"not_equals"}, "int_lin_ne_reif": {"not_equals"},
    "int_lin_le": {"less_than_or_equals"}, "int_lin_le_reif": {"less_than_or_equals"},
    "int_lin_eq": {"equals"}, "int_lin_eq_reif": {"equals"},
    "int_ne": {"binary_not_equals"}, "int_ne_reif": {"binary_not_equals"},
    "int_eq": {"binary_equals"}, "int_eq_reif": {"binary_equals"},
    "int_le": {"binary_less_than_or_equals"}, "int_le_reif": {"binary_less_than_or_equals"},
    "int_lt": {"binary_less_than"}, "int_lt_reif": {"binary_less_than"},
    "int_plus": {"plus"}, "int_times": {"times"}, "int_div": {"division"}, "int_abs": {"absolute"},
    "int_max": {"maximum"}, "int_min": {"minimum"},
    "array_int_maximum": {"maximum"}, "array_int_minimum": {"minimum"},
    "array_int_element": {"element"}, "array_var_int_element": {"element"},
    "array_bool_element": {"element"}, "array_var_bool_element": {"element"},
    "pumpkin_all_different": {"all_different"},
    "pumpkin_cumulative": {"cumulative_with_options"},
    "array_bool_and": {"conjunction"}, "array_bool_or": {"clause"},
    "bool_and": {"conjunction"}, "bool_clause": set(), "bool_eq": {"binary_equals"},
    "bool_eq_reif": {"binary_equals"}, "bool_not": {"binary_not_equals"},
    "bool2int": {"binary_equals"}, "bool_lin_eq": {"boolean_equals"},
    "bool_lin_le": {"boolean_less_than_or_equals"},
    "pumpkin_bool_xor": set(), "pumpkin_bool_xor_reif": {"clause"},
    "set_in_reif": {"clause"}, "set_in": set(),
}


def ctor_set(p, fn, seen=None, depth=0):
    seen = seen if seen is not None else set()
    out = set()
    if fn.defn in seen or depth > 4:
        return out
    seen.add(fn.defn)
    for g in fn.with_closures():
        for c in g.calls:
            d_ = c.target_def or ""
            if d_.startswith("pumpkin_solver::constraints::") and not c.trait:
                out.add(d_.rsplit("::", 1)[-1])
            for a in c.args:
                if "const" in a and a["const"].get("ty") == "fn" and "constraints::" in (a["const"].get("def") or ""):
                    out.add(a["const"]["def"].rsplit("::", 1)[-1])
            for h in p.callees(c):
                if "post_constraints" in h.defn or "handle_set_in" in h.defn:
                    out |= ctor_set(p, h, seen, depth + 1)
    return out


def name_table(p):
    """{builtin name: (first compile call, constructor set, string args)} from the match ladder"""
    f = p.fn("post_constraints::run")
    cfg = f.cfg
    R = resolver(f)
    rows = {}
    for c in f.calls:
        if c.name != "eq" or len(c.args) != 2 or op_const_str(c.args[1]) is None:
            continue
        name = op_const_str(c.args[1])
        dl = c.dst["local"]
        arm = None
        for bb, es in cfg.edges.items():
            if op_local(f.blocks[bb]["term"]["discr"]) == dl:
                for e in es:
                    if e.value is None:
                        arm = e
        if arm is None:
            rows[name] = (None, set(), [])
            continue
        region = {x for x in range(cfg.n) if cfg.dominates(arm.node, x)}
        calls = [cc for cc in f.calls if cc.bb in region and cc.callee.get("local") and
                 ("compile" in (cc.name or "") or cc.name == "handle_set_in" or cc.name == "run")]
        first = calls[0] if calls else None
        ctors = set()
        strs = []
        if first is not None:
            for a in first.args:
                e = peel(R.operand(a), calls=None)
                if e.k == "const" and e.b == "fn" and e.c and "constraints::" in e.c:
                    ctors.add(e.c.rsplit("::", 1)[-1])
                if e.k == "const" and e.c and e.b != "fn":
                    strs.append(e.c)
                if e.k == "closure":
                    g = p.fns.get(e.a)
                    if g is not None:
                        ctors |= ctor_set(p, g)
            for h in p.callees(first):
                ctors |= ctor_set(p, h)
        rows[name] = (first, ctors, strs)
    return f, rows


def f3(led, rid, ctx):
    p = ctx.bin
    f, rows = name_table(p)
    led.floor(rid, "builtin names matched", len(rows), 40)
    for name, (first, ctors, strs) in sorted(rows.items()):
        if name not in BUILTINS:
            if first is None:
                led.ok(rid, "name:%s" % name, f.span, "recognised name without a compile function (rejected / unimplemented)")
            else:
                led.bad(rid, "name:%s" % name, first.span, "builtin `%s` is handled but has no row in the "
                        "oracle table of FlatZinc builtins: its meaning cannot be vouched for" % name)
            continue
        want = BUILTINS[name]
        led.check(ctors == want, rid, "name:%s" % name, first.span if first is not None else f.span,
                  "→ %s" % (sorted(ctors) or "hand-written clauses"),
                  "builtin `%s` is compiled to %s; the FlatZinc meaning of `%s` requires %s"
                  % (name, sorted(ctors) or "no library constraint", name, sorted(want) or "hand-written clauses"))
        for s in strs:
            if re.fullmatch(r"[a-z0-9_]+", s or ""):
                led.check(s == name, rid, "diag:%s" % name, first.span, "diagnostic name equals the matched name",
                          "the arm for `%s` reports errors under the name `%s`" % (name, s))
    for name in sorted(BUILTINS):
        if name not in rows:
            led.bad(rid, "missing:%s" % name, f.span, "builtin `%s` is no longer handled by the compiler" % name)
    # plain / _reif agreement
    for name, (first, ctors, strs) in sorted(rows.items()):
        if name.endswith("_reif") and name[:-5] in rows and \
                BUILTINS.get(name) == BUILTINS.get(name[:-5]):
            led.check(ctors == rows[name[:-5]][1], rid, "reif-agrees:%s" % name,
                      first.span if first is not None else f.span, "same constructor as `%s`" % name[:-5],
                      "`%s` uses %s but `%s` uses %s" % (name, sorted(ctors), name[:-5], sorted(rows[name[:-5]][1])))


def variant_field_reads(f):
    reads = {}

    def visit(pl):
        var = None
        for e in pl["proj"]:
            if "downcast" in e:
                var = e["downcast"]
            elif "field" in e and var:
                reads.setdefault(var, set()).add(e.get("name"))
                var = None
    for blk in f.blocks:
        for s in blk["stmts"]:
            if s["s"] != "assign":
                continue
            rv = s["rv"]
            if "place" in rv:
                visit(rv["place"])
            for k in ("op", "a", "b", "v"):
                o = rv.get(k)
                if isinstance(o, dict):
                    pl = o.get("copy") or o.get("move")
                    if pl:
                        visit(pl)
    return reads


def f4(led, rid, ctx):
    p = ctx.bin
    n = 0
    for f in p.fns.values():
        if "/flatzinc/" not in f.file or "/tests" in f.file:
            continue
        # functions that match on SingleVarDecl
        matches = False
        for b in f.blocks:
            for s in b["stmts"]:
                if s["s"] == "assign" and s["rv"]["r"] == "discr" and (s["rv"].get("adt") or "").endswith("SingleVarDecl"):
                    matches = True
        if not matches:
            continue
        reads = variant_field_reads(f)
        if "IntInRange" not in reads:
            continue
        n += 1
        rng = reads.get("IntInRange", set())
        st = reads.get("IntInSet", set())
        root = f.parent or f.defn
        for fld in ("expr",):
            if fld in rng:
                led.check(fld in st, rid, "%s:IntInSet.%s" % (root, fld), f.span,
                          "the IntInSet arm reads `%s` as the IntInRange arm does" % fld,
                          "the IntInRange arm of %s reads the declaration's `%s` (the `= value / = alias` "
                          "part) but the IntInSet arm ignores it: `var {1,3,5}: x = 3` is treated as "
                          "unconstrained" % (root, fld))
    led.floor(rid, "passes over the declaration kinds", n, 3)


STATUS = {"Unsatisfiable": "=====UNSATISFIABLE=====", "Unknown": "=====UNKNOWN====="}


def f5(led, rid, ctx):
    p = ctx.bin
    from .C11 import arms, region
    n = 0
    for fname in ("flatzinc::solve", "flatzinc::satisfy"):
        f = p.fn(fname)
        printed = {}
        for variant, edge, adt in arms(f, ("OptimisationResult", "SatisfactionResult", "IteratedSolution")):
            strs = printed.setdefault((adt, variant), [])
            for b in region(f, edge):
                consts = []
                for s_ in f.blocks[b]["stmts"]:
                    if s_["s"] == "assign" and s_["rv"]["r"] == "use" and "const" in s_["rv"]["op"]:
                        consts.append(s_["rv"]["op"]["const"])
                t = f.blocks[b]["term"]
                if t["t"] == "call":
                    for a in t["args"]:
                        if isinstance(a, dict) and "const" in a:
                            consts.append(a["const"])
                for c in consts:
                    txt = c.get("str") or ""
                    if c.get("bytes"):
                        try:
                            txt = bytes.fromhex(c["bytes"]).decode("latin1")
                        except ValueError:
                            txt = ""
                    for m in re.findall(r"={5,}[A-Z]*={0,}|-{10}", txt):
                        strs.append(m)
        for (adt, variant), strs in sorted(printed.items()):
            n += 1
            key = "%s:%s::%s" % (fname, adt, variant)
            if variant in ("Unsatisfiable",):
                ok = any("UNSATISFIABLE" in s for s in strs) and not any(s == "==========" for s in strs)
                led.check(ok, rid, key, f.span, "prints the unsatisfiable marker", "the %s arm prints %s" % (variant, strs))
            elif variant in ("Unknown",):
                ok = not any("UNSATISFIABLE" in s or s == "==========" for s in strs)
                led.check(ok, rid, key, f.span, "prints no definitive marker", "the %s arm prints %s" % (variant, strs))
            elif variant in ("Optimal", "Finished"):
                ok = any(s == "==========" for s in strs) and not any("UNSAT" in s for s in strs)
                led.check(ok, rid, key, f.span, "prints the completeness line", "the %s arm prints %s" % (variant, strs))
            elif variant in ("Satisfiable", "Solution"):
                ok = not any("UNSAT" in s or s == "==========" for s in strs)
                led.check(ok, rid, key, f.span, "prints no completeness/unsat marker", "the %s arm prints %s" % (variant, strs))
    led.floor(rid, "status arms", n, 8)


def f6(led, rid, ctx):
    p = ctx.bin
    n = 0
    for f in p.fns.values():
        if "post_constraints" not in f.defn or f.kind != "Fn" or not f.name.startswith("compile_"):
            continue
        # the exprs parameter: a slice of flatzinc::Expr
        ex = None
        for a in f.args:
            if "[flatzinc::Expr]" in a["ty"] or "Expr]" in a["ty"]:
                ex = a["local"]
        if ex is None:
            continue
        # guard constant: exprs.len() != N
        guard = None
        for fa in (x for bb in f.cfg.edges for x in edge_facts(f, bb)):
            if fa.kind != "bool" or fa.atom.k != "binop" or fa.atom.a not in ("Ne", "Eq"):
                continue
            l, r = peel(fa.atom.b, calls=None), peel(fa.atom.c, calls=None)
            for x, y in ((l, r), (r, l)):
                is_len = (x.k == "call" and x.a.name == "len") or (x.k == "unop" and x.a == "PtrMetadata") \
                    or (x.k == "other" and x.a == "len")
                if is_len and y.k == "const" and y.a is not None:
                    guard = y.a
        # largest constant index into exprs
        idxs = []
        for b in f.blocks:
            for s in b["stmts"]:
                if s["s"] != "assign":
                    continue
                rv = s["rv"]
                pl = rv.get("place") or (op_place(rv["op"]) if rv["r"] == "use" else None)
                if pl is None or pl["local"] != ex:
                    continue
                for e in pl["proj"]:
                    if "const_index" in e and not e.get("from_end"):
                        idxs.append(e["const_index"])
                    if "index" in e:
                        cd = const_defs(f, e["index"])
                        if cd and len(cd) == 1:
                            idxs.append(cd[0][1])
        if guard is None and not idxs:
            continue
        n += 1
        if guard is None:
            led.bad(rid, "%s:no-guard" % f.name, f.span, "%s reads exprs[%d] without checking the number "
                    "of arguments" % (f.name, max(idxs)))
            continue
        if not idxs:
            led.ok(rid, "%s:arity=%d" % (f.name, guard), f.span, "no constant index read")
            continue
        led.check(guard == max(idxs) + 1, rid, "%s:arity" % f.name, f.span,
                  "guard %d = 1 + largest index %d" % (guard, max(idxs)),
                  "%s guards for %d arguments but reads exprs[%d]: every model using this builtin is "
                  "rejected (or an index panics)" % (f.name, guard, max(idxs)))
    led.floor(rid, "compile functions with an arity guard", n, 22)


def f7(led, rid, ctx):
    """DIV-GUARD: a non-constant scale of a view needs a ≠ 0 guard"""
    n = 0
    for pk in ("lib", "bin"):
        p = getattr(ctx, pk)
        for f in p.fns.values():
            if "/tests" in f.file:
                continue
            R = None
            for c in f.calls:
                if c.name != "scaled" or len(c.args) != 2 or not (c.trait or "").endswith("TransformableVariable"):
                    continue
                if op_const_int(c.args[1]) is not None:
                    continue
                root = p.fns.get(f.parent) if f.parent else f
                # the generic forwarding impls (scaled(k) on a variable builds the view): the origin
                # is their caller
                if root is not None and root.name in ("scaled",) and (root.impl_trait or "").endswith("TransformableVariable"):
                    continue
                if R is None:
                    R = resolver(f)
                w = peel(R.operand(c.args[1]), calls=None)
                if w.k == "const" and w.a not in (None, 0):
                    continue
                n += 1
                guarded = False
                # (1) dominating comparison w != 0 in this function
                for g in guards_of(f, c.bb):
                    rf = rel_fact(g)
                    if rf and rf[0] == "Ne" and peel(rf[2], calls=None).k == "const" and peel(rf[2], calls=None).a == 0:
                        guarded = True
                # (2) an upstream filter(≠ 0) in the iterator chain feeding the closure
                if not guarded and f.parent:
                    par = p.fns.get(f.direct_parent) or p.fns.get(f.parent)
                    Rp = resolver(par)
                    for u in par.calls:
                        for a in u.args:
                            e = Rp.operand(a)
                            if peel(e, calls=None).k == "closure" and peel(e, calls=None).a == f.defn:
                                chain = Rp.operand(u.args[0])
                                for x in chain.walk():
                                    if x.k == "call" and x.a.name in ("filter", "filter_map") and len(x.b) > 1:
                                        h = peel(x.b[1], calls=None)
                                        hf = p.fns.get(h.a) if h.k == "closure" else None
                                        if hf is not None:
                                            r0 = resolver(hf).local(0)
                                            r0 = peel(r0, calls=None)
                                            if r0.k == "binop" and r0.a == "Ne" and \
                                                    peel(r0.c, calls=None).k == "const" and peel(r0.c, calls=None).a == 0:
                                                guarded = True
                key = "%s:scaled" % (root.defn if root is not None else f.defn)
                led.check(guarded, rid, key, c.span, "scale guarded by a ≠ 0 test",
                          "a model coefficient becomes the scale of an affine view without a ≠ 0 guard: "
                          "a zero coefficient makes every bound query divide by zero "
                          "(`int_lin_le([0,1],[x,y],2)` panics)")
    led.floor(rid, "non-constant view scales", n, 3)


def f8(led, rid, ctx):
    """argument wiring of the generic compile helpers: which exprs[i] feeds which parameter"""
    p = ctx.bin
    want = {
        # helper: [(resolver name prefix, exprs index)] in call order of the constructor's arguments
        "compile_int_lin_predicate": {"weights": 0, "vars": 1, "rhs": 2},
        "compile_reified_int_lin_predicate": {"weights": 0, "vars": 1, "rhs": 2, "reif": 3},
        "compile_binary_int_predicate": {"a": 0, "b": 1},
        "compile_reified_binary_int_predicate": {"a": 0, "b": 1, "reif": 2},
        "compile_ternary_int_predicate": {"a": 0, "b": 1, "c": 2},
    }
    n = 0
    for fname, spec in want.items():
        f = p.fn("post_constraints::" + fname)
        R = resolver(f)
        # each resolve_* call reads exprs[i]; record i by destination name
        got = {}
        for c in f.calls:
            if not c.name.startswith("resolve_") or len(c.args) < 2:
                continue
            e = R.operand(c.args[1])
            idx = None
            for x in e.walk():
                if x.k == "proj":
                    for pr in x.b:
                        if "const_index" in pr:
                            idx = pr["const_index"]
                        if "index" in pr:
                            cd = const_defs(f, pr["index"])
                            if cd and len(cd) == 1:
                                idx = cd[0][1]
            if c.dst is not None and idx is not None:
                # the user variable this result ends up in
                nm = None
                for l in f.locals:
                    if l.get("name") and l["id"] in _forward_names(f, c.dst["local"]):
                        nm = l["name"]
                        break
                got[nm or ("_%d" % c.dst["local"])] = idx
        n += 1
        ok = all(got.get(k) == v for k, v in spec.items())
        led.check(ok, rid, "%s:wiring" % fname, f.span, "exprs positions %s" % got,
                  "%s reads its arguments from positions %s; FlatZinc defines %s" % (fname, got, spec))
    led.floor(rid, "helpers", n, 5)
    # element: index is 1-based in FlatZinc → offset(-1)
    for fname in ("compile_array_var_int_element", "compile_array_var_bool_element"):
        f = p.fn("post_constraints::" + fname)
        offs = [c for g in f.with_closures() for c in g.calls if c.name == "offset"]
        ok = len(offs) >= 1 and any(op_const_int(c.args[1]) == -1 for c in offs)
        led.check(ok, rid, "%s:one-based-index" % fname, f.span, "index.offset(-1)",
                  "%s must shift the 1-based FlatZinc index by −1" % fname)
    # hand-written CNFs
    xor = p.fn("post_constraints::compile_bool_xor")
    led.check(len(xor.calls_named("add_clause")) == 2, rid, "bool_xor:2-clauses", xor.span, "",
              "pumpkin_bool_xor must post exactly the two clauses (a ∨ b) and (¬a ∨ ¬b)")
    nots = len([c for c in xor.calls if c.name == "not"])
    led.check(nots == 2, rid, "bool_xor:negations", xor.span, "two negated literals",
              "pumpkin_bool_xor: expected exactly two negated literals across its clauses, found %d" % nots)


def _forward_names(f, local):
    from ..flow import forward
    return forward(f, [local], effects=False, call_filter=lambda c: c.name in (
        "branch", "from_residual", "into", "clone", "unwrap", "expect", "deref", "from"))


def f16(led, rid, ctx):
    """SIBLINGS: both declaration kinds merge an alias into the class of the variable it refers to
    with the same argument order (the alias first); arguments of a shared helper are traced to the
    call sites of the helper"""
    b = ctx.bin
    fs = [f for d, f in b.fns.items() if "merge_equivalences.rs" in f.file and "/tests" not in f.file]
    if not fs:
        raise AnchorMissing("merge_equivalences.rs")
    n = 0
    own = lambda s_: ".id" in s_ and "expr" not in s_
    ref = lambda s_: "expr" in s_ or "VarParIdentifier" in s_

    def origins(g, e, depth=0):
        """source expressions of `e` in g, through the parameters of local helpers"""
        e0 = peel(e, calls=None)
        while e0.k == "call" and e0.a.name in ("clone", "into", "as_ref", "borrow", "to_owned") and e0.b:
            e0 = peel(e0.b[0], calls=None)
        if e0.k == "arg" and depth < 3:
            outs = []
            for h in fs:
                Rh = None
                for c2 in h.calls:
                    if (c2.resolved or c2.defn) == g.defn and len(c2.args) >= e0.a:
                        Rh = Rh or resolver(h)
                        outs += origins(h, Rh.operand(c2.args[e0.a - 1]), depth + 1)
            if outs:
                return outs
        return [show(e)]

    for f in fs:
        R = resolver(f)
        for c in f.calls_named("merge"):
            if len(c.args) < 3 or "Equivalences" not in (c.self_ty or c.target_def or ""):
                continue
            for a1 in origins(f, R.operand(c.args[1])):
                for a2 in origins(f, R.operand(c.args[2])):
                    n += 1
                    led.check(own(a1) and ref(a2), rid, "merge:%s:%d" % (f.name, n), c.span, "merge(declared id, referenced id)",
                              "merge_equivalences merges with the arguments (%s, %s): the alias and the variable it refers "
                              "to are swapped, earlier aliases of the class keep a stale class "
                              "and are bound to an unrelated variable" % (a1[:60], a2[:60]))
    led.floor(rid, "equivalence merges", n, 2)


def run(ctx, led):
    run_rule(led, "F1", "STALE-INDEX: no index computed before swap_remove/remove is used on the same "
             "vector afterwards without re-validation", f1, ctx)
    from . import shared
    run_rule(led, "F1b", "SWAP-REMOVE-SKIP: no element skipped after swap_remove in an index loop", shared.swap_remove_skip, ctx)
    run_rule(led, "F2", "no narrowing `as` cast of a model integer in the FlatZinc front-end", f2, ctx)
    run_rule(led, "F3", "builtin name → library constructor TABLE (recovered from the str match), "
             "plain/_reif agreement, diagnostic names", f3, ctx)
    run_rule(led, "F4", "sibling arms over the declaration kinds read the declaration's `expr` alike", f4, ctx)
    run_rule(led, "F5", "result → status line TABLE in flatzinc::solve / satisfy", f5, ctx)
    run_rule(led, "F6", "ARITY: a compile function's argument-count guard equals 1 + the largest "
             "constant index it reads", f6, ctx)
    run_rule(led, "F7", "DIV-GUARD: a non-constant scale of an affine view is guarded by ≠ 0 (branch "
             "or upstream filter)", f7, ctx)
    run_rule(led, "F8", "argument wiring of the generic compile helpers, 1-based element index, xor CNF", f8, ctx)
    from . import fznrules
    run_rule(led, "F9", "Domain::merge is the intersection of the two domains (decided per variant pair on a small window)", fznrules.merge_is_intersection, ctx)
    run_rule(led, "F10", "the clauses posted for set_in_reif over an interval mean r ⇔ lb ≤ x ≤ ub (decided on a small window)", fznrules.set_in_reif_clauses, ctx)
    run_rule(led, "F18", "every clause of set_in_reif is posted inside an arm of the match on the set's representation", fznrules.set_in_reif_every_path, ctx)
    run_rule(led, "F11", "ZIP-ALIGNMENT: nothing is selected from one side before two parallel sequences are zipped", fznrules.zip_alignment, ctx)
    from . import C09 as _C09
    run_rule(led, "F12", "LINFORM: the arithmetic constraint builders mean what they say (shared with C09-R10)", _C09.r10, ctx)
    run_rule(led, "F13", "BOOLFORM: the Boolean builtins post constraints with the truth table of the FlatZinc builtin (abstract evaluation, all assignments)", fznrules.boolform, ctx)
    from . import C04 as _C04
    for _rid, _name in (("F14", "o1"), ("F15", "o4")):
        if hasattr(_C04, _name):
            run_rule(led, _rid, "the optimisation procedures `solve minimize/maximize` runs on: C04-%s (shared)" % _name.upper(), getattr(_C04, _name), ctx)
    run_rule(led, "F16", "SIBLINGS: alias merging uses the same argument order for Booleans and integers", f16, ctx)
    from . import C07 as _C07d
    run_rule(led, "F17", "an equality decision is read back as written (no-learning resolver under `--conflict-resolver no-learning`; shared with C07-J5)", _C07d.j5, ctx)
    from . import kernel as _kernel
    _kernel.run_bundle(led, ctx, "F")
    from . import kernel as _kernel4
    _kernel4.run_lifecycle(led, ctx, "F")

"""C17 — every explanation given by a propagator follows from its constraint (structural clauses)."""
from ..main import run_rule
from ..flow import (resolver, peel, root_local, guards_of, aggregates, forward, forward_with_control,
                    backward, operand_locals)
from ..facts import AnchorMissing
from ..symexec import SymExec
from . import C09, C18, shared

LEVEL = ('decides the discipline around explanations, not their logic: propagators and constraints '
         'change domains only through the reason-carrying context API, whose four mutators store the '
         'reason they are given and hand its reference to the domain (L1); every propagator that posts'
         ' lazy reasons implements lazy_explanation and every wrapper forwards it (L2); no reason '
         'reference is fabricated and only decisions lack a reason (L3); conflicts of a reified '
         'propagator carry the literal (L4); a lazy explanation does not depend — by data or control '
         'flow — on a read of the *current* domains (L5); reasons assembled from input data outside '
         'propagate are filtered to predicates that hold (L6). Of the logic it decides these necessary'
         ' conditions for the arithmetic and element propagators: a directly stated bound is a bound '
         'of the same variable in the right direction (L8); the reason of a propagated bound states '
         'every bound the value was computed from (L9); a computed bound fact is established by a '
         'dominating comparison (L10) and is as strong as that comparison, so that the reason implies '
         'the branch it was made on (L13); implicit kernel reasons imply their predicate (L11); the '
         "cumulative handler's cached profile explanation is reset whenever the profile changes (L12)."
         ' Further: every tested bound of another variable that guards a propagation is stated in the '
         'reason (L15); the …_at_trail_position queries agree on the inclusive position convention '
         '(L16); lazy reasons of reified propagators keep the literal (L17). WITNESS-POINT of '
         'pointwise explanations (L18 = H11); element explanations name the position they argue about '
         '(L19); INCREMENTAL-RESET of un-trailed accumulators (L20); reasons assembled from parts are '
         'their union (L21). eager reasons select by position only, never by a test on the current '
         'domains (L22); buffered lazy explanations are rebuilt on every call (L23 MUST-PASS); tasks '
         'leave a resource profile only where a mandatory part is undone (L24 WHO-MAY-SHRINK). The '
         'per-profile explanation cache is initialised from the profile only (L25 CACHE-KEY). Also '
         'runs the KERNEL BUNDLE (LK<n>): predicate algebra, view rules, implicit reasons and the '
         'other shared rules. Beyond these necessary conditions: Logical sufficiency and truth of the '
         'stated facts — the heart of the property — are NOT decided')
TECHNIQUE = "static analysis: who-may-call / taint with control dependence / dominance over rustc MIR"

ASSIGN_MUTATORS = ("tighten_lower_bound", "tighten_upper_bound", "remove_value_from_domain",
                   "make_assignment", "post_predicate")
VAR_MUTATORS = ("set_lower_bound", "set_upper_bound", "remove")
CURRENT_READS = ("contains", "lower_bound", "upper_bound", "is_fixed", "iterate_domain",
                 "is_literal_true", "is_literal_false", "is_literal_fixed", "is_predicate_satisfied",
                 "is_predicate_falsified", "get_lower_bound", "get_upper_bound", "is_value_in_domain",
                 "is_domain_assigned", "get_assigned_value", "evaluate_predicate", "describe_domain")


def l1(led, rid, ctx):
    lib = ctx.lib
    n = 0
    for f in lib.fns.values():
        if "/src/propagators/" not in f.file and "/src/constraints/" not in f.file:
            continue
        n += 1
        for c in f.calls:
            root = f.parent or f.defn
            if c.name in ASSIGN_MUTATORS and (c.self_ty or "").endswith("cp::assignments::Assignments"):
                led.bad(rid, "%s:Assignments::%s" % (root, c.name), c.span,
                        "a propagator/constraint changes a domain directly through Assignments::%s, "
                        "bypassing the reason-carrying context" % c.name)
            if c.name in VAR_MUTATORS and (c.trait or "").endswith("IntegerVariable"):
                led.bad(rid, "%s:IntegerVariable::%s" % (root, c.name), c.span,
                        "a propagator/constraint changes a domain through IntegerVariable::%s on the "
                        "raw assignments (reason supplied by hand)" % c.name)
    led.floor(rid, "propagator/constraint functions scanned", n, 500)
    led.ok(rid, "scan", None, "%d functions under propagators/ and constraints/ scanned" % n)
    # the context's own mutators store the given reason and pass its reference on
    m = 0
    from ..inline import view
    for name in ("set_lower_bound", "set_upper_bound", "remove", "post_predicate"):
        f0 = lib.method("PropagationContextMut", name)
        # private helpers of the context (e.g. a shared "store the reason" step) are spliced in; the
        # three sibling mutators stay calls, post_predicate is judged by its dispatch to them
        f = view(lib, f0, want=lambda g: g.file == f0.file and g.kind != "Closure" and g.vis != "pub"
                 and g.name not in ("set_lower_bound", "set_upper_bound", "remove", "post_predicate"))
        R = resolver(f)
        sinks = [c for c in f.calls if (c.name in VAR_MUTATORS and (c.trait or "").endswith("IntegerVariable"))
                 or (c.name in ASSIGN_MUTATORS and (c.self_ty or "").endswith("Assignments"))]
        if name == "post_predicate" and not sinks:
            # dispatches to the three mutators above
            inner = [c for c in f.calls if c.name in ("set_lower_bound", "set_upper_bound", "remove")
                     and "PropagationContextMut" in (c.self_ty or "")]
            led.check(len(inner) >= 3, rid, "ctx.post_predicate:dispatches", f.span,
                      "dispatches to the reason-carrying mutators", "PropagationContextMut::post_predicate "
                      "no longer dispatches to the context's own mutators")
            continue
        led.check(len(sinks) >= 1, rid, "ctx.%s:writes" % name, f.span, "", "PropagationContextMut::%s no longer writes the domain" % name)
        for c in sinks:
            m += 1
            e = peel(R.operand(c.args[-1]), calls=None)
            ok = e.k == "agg" and e.b == "Some" and e.c and \
                any(x.name == "push" and "ReasonStore" in (x.self_ty or "") for x in e.c[0].calls())
            if ok:
                pushes = [x for x in e.c[0].calls() if x.name == "push"]
                pe = R.operand(pushes[0].args[-1])
                # the stored reason is computed from the `reason` parameter of the mutator
                rparams = [i + 1 for i, a in enumerate(f.args) if i > 0 and ("Reason" in a["ty"] or a["ty"].startswith("impl Into") or a["ty"] in ("R",))]
                rparams = rparams or [len(f.args)]
                ok = any(x.k == "arg" and x.a in rparams for x in pe.walk())
            led.check(ok, rid, "ctx.%s:stores-given-reason" % name, c.span,
                      "Some(reason_store.push(.., build_reason(reason)))",
                      "PropagationContextMut::%s writes the domain with a reason reference that is not "
                      "the stored form of the reason it was given" % name)
    led.floor(rid, "context write sites", m, 3)


def l2(led, rid, ctx):
    lib = ctx.lib
    n = 0
    prop_impls = {}
    for imp in lib.impls_of("propagator::Propagator"):
        if "/tests" not in imp["span"]:
            prop_impls[imp["self_adt"]] = imp
    for f in lib.fns.values():
        for bb, i, s in aggregates(f, "reason::Reason", "DynamicLazy"):
            root = lib.fns.get(f.parent) if f.parent else f
            adt = root.self_adt
            if adt is None or adt not in prop_impls:
                if (root.defn or "").endswith("Reason>::from") or "/tests" in f.file:
                    continue
                led.bad(rid, "lazy-reason-outside-propagator:%s" % root.defn, "%s:%d" % (f.file, s["line"]),
                        "a lazy reason is created outside a Propagator implementation")
                continue
            n += 1
            imp = prop_impls[adt]
            led.check("lazy_explanation" not in imp["defaulted"], rid,
                      "%s:implements-lazy_explanation" % adt.rsplit("::", 1)[-1], "%s:%d" % (f.file, s["line"]),
                      "posts lazy reasons and implements lazy_explanation",
                      "%s posts Reason::DynamicLazy but does not implement lazy_explanation (the default "
                      "panics)" % adt)
    led.floor(rid, "lazy reason sites", n, 2)


def l5(led, rid, ctx):
    lib = ctx.lib
    n = 0
    for imp in lib.impls_of("propagator::Propagator"):
        if "/tests" in imp["span"]:
            continue
        f = lib.impl_fn(imp, "lazy_explanation")
        if f is None:
            continue
        wname = (imp["self_adt"] or "?").rsplit("::", 1)[-1]
        if C18.children(lib, imp):
            continue        # a wrapper: forwards (R2)
        n += 1
        bad = []
        for g in f.with_closures():
            reads = []
            for c in g.calls:
                if c.name in CURRENT_READS and not c.name.endswith("_at_trail_position"):
                    st = (c.self_ty or "") + " " + (c.trait or "")
                    if any(k in st for k in ("ExplanationContext", "ReadDomains", "Assignments",
                                             "IntegerVariable", "HasAssignments")):
                        reads.append(c)
            if not reads:
                continue
            seeds = [c.dst["local"] for c in reads if c.dst]
            t = forward_with_control(g, seeds)
            if g is f:
                # what is written into self (the buffer that is returned) or returned
                hit = 0 in t
                for b in g.blocks:
                    for s in b["stmts"]:
                        if s["s"] == "assign" and s["dst"]["proj"] and s["dst"]["local"] == 1:
                            from ..flow import _rv_locals
                            if any(l in t for l in _rv_locals(s["rv"])):
                                hit = True
                if hit:
                    bad.extend(reads)
            else:
                if 0 in t:
                    bad.extend(reads)
        key = "%s::lazy_explanation" % wname
        if bad:
            led.bad(rid, key, bad[0].span,
                    "the lazy explanation depends on `%s` of the domains as they are when the "
                    "explanation is requested, not as they were when the propagation happened: it can "
                    "state facts that became true later (use the *_at_trail_position reads)"
                    % bad[0].name)
        else:
            led.ok(rid, key, f.span, "no current-state read reaches the returned predicates")
    led.floor(rid, "lazy explainers", n, 2)


def l6(led, rid, ctx):
    lib = ctx.lib
    from .shared import method_view as _mv
    f = _mv(lib, "NogoodPropagator", "add_permanent_nogood", keep=("preprocess_nogood", "add_watcher", "is_nogood_propagating", "debug_is_properly_watched", "propagate"), same_type_only=True)
    R = resolver(f)
    posts = [c for c in f.calls if c.name == "post_predicate" and "PropagationContextMut" in (c.self_ty or "")]
    led.check(len(posts) >= 1, rid, "unit-arm-posts", f.span, "", "add_permanent_nogood no longer posts the unit case")
    for c in posts:
        back = backward(f, operand_locals(c.args[-1]))
        # the vector(s) the reason is built from
        filt = False
        for x in f.calls:
            if x.name in ("retain", "filter", "retain_mut") and x.args and \
                    any(l in back for l in operand_locals(x.args[0])):
                e = R.operand(x.args[-1])
                if e.k == "closure":
                    g = lib.fns.get(e.a)
                    if g is not None and any(cc.name in ("is_predicate_satisfied", "is_predicate_falsified",
                                                         "evaluate_predicate") for cc in g.calls):
                        filt = True
        led.check(filt, rid, "unit-reason-filtered", c.span,
                  "the reason keeps only predicates that are tested to hold",
                  "the reason of the root propagation of a unit nogood is the input nogood minus the "
                  "surviving predicate by *syntactic* comparison; preprocessing may have rewritten that "
                  "predicate, so a false predicate stays in the reason")


PRED = ("lower_bound_predicate", "upper_bound_predicate", "equality_predicate", "disequality_predicate")


def l8(led, rid, ctx):
    """a bound fact stated in a propagator's reason that is read directly from the domain is read
    from the same variable with the same direction: [x ≥ lb(x)], [x ≤ ub(x)]"""
    from ..flow import show
    lib = ctx.lib
    n = 0
    for f in lib.fns.values():
        if "/src/propagators/" not in f.file or "/tests" in f.file or "/nogoods/" in f.file:
            continue
        R = resolver(f)
        for c in f.calls:
            if c.name not in ("lower_bound_predicate", "upper_bound_predicate") or len(c.args) != 2:
                continue
            v = peel(R.operand(c.args[1]), calls=None, casts=False)
            if not (v.k == "call" and v.a.name in ("lower_bound", "upper_bound") and len(v.a.args) >= 2):
                continue
            n += 1
            x = show(peel(R.operand(c.args[0]), calls=None))
            y = show(peel(R.operand(v.a.args[-1]), calls=None))
            same = x == y or root_local(f, c.args[0]) == root_local(f, v.a.args[-1])
            dir_ok = (c.name == "lower_bound_predicate") == (v.a.name == "lower_bound")
            root = f.parent or f.defn
            led.check(same and dir_ok, rid, "%s:[%s %s %s(%s)]" % (root.rsplit("::", 1)[-1], x[-30:],
                      ">=" if c.name[0] == "l" else "<=", v.a.name, y[-30:]), c.span,
                      "states a bound of the variable it was read from",
                      "%s states [%s %s %s(%s)] as a fact: a %s of %s read from the domain does not "
                      "justify that predicate (it is false unless the variable is fixed / the variables "
                      "coincide)" % (root.rsplit("::", 1)[-1], x, ">=" if c.name[0] == "l" else "<=",
                                     v.a.name, y, v.a.name.replace("_", " "), y))
    led.floor(rid, "direct bound facts in propagators", n, 40)


def _lin(e):
    from ..flow import show
    e = peel(e, calls=None, casts=False)
    if e.k == "binop" and e.a in ("Add", "Sub") and peel(e.c, calls=None).k == "const" and \
            peel(e.c, calls=None).a is not None:
        b, o = _lin(e.b)
        k = peel(e.c, calls=None).a
        return b, o + (k if e.a == "Add" else -k)
    if e.k == "const" and e.a is not None:
        return "", e.a
    return show(e), 0


# bound facts that are true for a reason other than a comparison on the path
L10_TABLE = {
    ("division", "lower_bound_predicate", "1"):
        "[denominator ≥ 1]: the division propagator requires 0 ∉ denominator and normalises its sign "
        "before these helpers run",
    ("division", "lower_bound_predicate", "0"):
        "[numerator/rhs ≥ 0]: these helpers are only called for the non-negative case (guards in "
        "perform_propagation)",
    ("debug_propagate_from_scratch", "lower_bound_predicate", "phi"):
        "maximum: the value is the running maximum of the lower bounds read in the loop",
    ("debug_propagate_from_scratch", "upper_bound_predicate", "captured"):
        "maximum: [a_i ≤ ub(rhs)] for every element, ub(rhs) read before the closure",
    ("lazy_explanation", "*", "payload"):
        "element: the bound stored in the lazy reason's payload at propagation time",
}


def l10(led, rid, ctx):
    """truth of stated facts: a bound fact in a reason that is not a direct bound read is established
    on the path by a comparison of a bound read of the same variable"""
    from ..flow import show, guards_of, rel_fact
    lib = ctx.lib
    n = 0
    flip = {"Lt": "Gt", "Gt": "Lt", "Le": "Ge", "Ge": "Le", "Eq": "Eq", "Ne": "Ne"}
    for f in lib.fns.values():
        if "/src/propagators/arithmetic" not in f.file and "/propagators/element" not in f.file:
            continue
        if "/tests" in f.file:
            continue
        R = resolver(f)
        for c in f.calls:
            if c.name not in ("lower_bound_predicate", "upper_bound_predicate") or len(c.args) != 2:
                continue
            v = peel(R.operand(c.args[1]), calls=None, casts=False)
            if v.k == "call" and v.a.name in ("lower_bound", "upper_bound"):
                continue
            x = show(peel(R.operand(c.args[0]), calls=None))
            vb, vo = _lin(v)
            n += 1
            est = False
            slacks = []
            for g in guards_of(f, c.bb):
                rf = rel_fact(g)
                if not rf:
                    continue
                op, l, r = rf
                for a, b, o in ((l, r, op), (r, l, flip[op])):
                    a_ = peel(a, calls=None, casts=False)
                    if a_.k == "call" and a_.a.name in ("lower_bound", "upper_bound") and len(a_.a.args) >= 2 \
                            and show(peel(R.operand(a_.a.args[-1]), calls=None)) == x:
                        bb_, bo = _lin(b)
                        if bb_ != vb:
                            continue
                        if c.name == "upper_bound_predicate" and a_.a.name == "upper_bound":
                            if (o == "Le" and bo <= vo) or (o == "Lt" and bo - 1 <= vo) or (o == "Eq" and bo <= vo):
                                est = True
                                slacks.append((vo - {"Le": bo, "Lt": bo - 1, "Eq": bo}[o], show(a)[:40], o, show(b)[:40]))
                        if c.name == "lower_bound_predicate" and a_.a.name == "lower_bound":
                            if (o == "Ge" and bo >= vo) or (o == "Gt" and bo + 1 >= vo) or (o == "Eq" and bo >= vo):
                                est = True
                                slacks.append(({"Ge": bo, "Gt": bo + 1, "Eq": bo}[o] - vo, show(a)[:40], o, show(b)[:40]))
            root = (f.parent or f.defn)
            rshort = root.rsplit("::", 1)[-1]
            key = "%s:[%s %s %s]" % (rshort, x[-25:], ">=" if c.name[0] == "l" else "<=", show(v)[:40])
            if est:
                led.ok(rid, key, c.span, "established by a dominating comparison")
                # L13: the fact is as strong as the test it comes from.  The propagation is made on
                # the branch of that test, so the test is a premise of the inference: a reason that
                # is to justify the propagation in every state in which it holds has to make the
                # same branch be taken there, i.e. has to imply the test.
                sl = min(slacks)
                led.check(sl[0] <= 0, "L13", key, c.span, "as strong as `%s %s %s`" % sl[1:],
                          "%s states [%s %s %s] in a reason, which is weaker by %d than the test `%s %s %s` "
                          "under which the propagation is made: the reason does not imply the branch "
                          "condition, so there are assignments satisfying the constraint and the reason "
                          "in which the propagated bound does not hold (all %d facts of this kind on the "
                          "pinned tree restate their test exactly)"
                          % (rshort, x, ">=" if c.name[0] == "l" else "<=", show(v)[:40], sl[0], sl[1], sl[2], sl[3], 45))
                continue
            why = None
            for (fn_s, kind, mark), reason in L10_TABLE.items():
                if kind not in ("*", c.name):
                    continue
                if fn_s == "division" and "/division.rs" in f.file and vb == "" and str(vo) == mark:
                    why = reason
                if fn_s == "debug_propagate_from_scratch" and rshort == fn_s and "/maximum.rs" in f.file:
                    if mark == "phi" and v.k == "phi":
                        why = reason
                    if mark == "captured" and f.kind == "Closure":
                        why = reason
                if fn_s == "lazy_explanation" and rshort == fn_s and any(cc.name == "value" for cc in v.calls()):
                    why = reason
            led.check(why is not None, rid, key, c.span, "table: %s" % why,
                      "%s states [%s %s %s] in a reason, but no comparison on the path establishes it and "
                      "it has no table entry: a fact that need not hold when the reason is given makes "
                      "learned nogoods unsound" % (rshort, x, ">=" if c.name[0] == "l" else "<=", show(v)))
    led.floor(rid, "computed bound facts in reasons", n, 45)


def reason_preds(f, c):
    cfg = f.cfg
    back = backward(f, operand_locals(c.args[-1]), effects=True)
    feeders = [x for x in f.calls if x.dst and x.dst["local"] in back and cfg.dominates(x.bb, c.bb)]
    us = [x for x in feeders if x.name in ("new_uninit", "exchange_malloc", "new") and "Box" in (x.target_def or "")]
    start = None
    if us:
        start = max(us, key=lambda x: sum(1 for y in us if cfg.dominates(y.bb, x.bb)))
    return [p for p in f.calls if p.name in PRED and cfg.dominates(p.bb, c.bb) and
            (start is None or cfg.dominates(start.bb, p.bb))]


def l9(led, rid, ctx):
    """the reason of a propagated bound mentions every domain bound the propagated value was
    computed from (necessary for sufficiency when the value depends on that bound)"""
    from ..flow import show
    lib = ctx.lib
    n = 0
    for f in lib.fns.values():
        if "/src/propagators/arithmetic" not in f.file and "/propagators/element" not in f.file:
            continue
        if "/tests" in f.file:
            continue
        R = resolver(f)
        for c in f.calls:
            if c.name not in ("set_lower_bound", "set_upper_bound") or \
                    "PropagationContextMut" not in (c.self_ty or "") or len(c.args) != 4:
                continue
            val = R.operand(c.args[2])
            V = set()
            loopy = False
            for x in val.calls():
                if x.name in ("lower_bound", "upper_bound") and len(x.args) >= 2:
                    vs = show(peel(R.operand(x.args[-1]), calls=None))
                    if "next(" in vs or "[_" in vs:
                        loopy = True
                    V.add((vs, x.name))
            if loopy or not V:
                continue      # value computed over a loop: the reason is assembled elsewhere
            n += 1
            P = {(show(peel(R.operand(p.args[0]), calls=None)), p.name) for p in reason_preds(f, c)}
            miss = [(y, k) for (y, k) in sorted(V) if (y, k + "_predicate") not in P and (y, "equality_predicate") not in P]
            root = f.parent or f.defn
            led.check(not miss, rid, "%s:%s(%s)" % (root.rsplit("::", 1)[-1], c.name,
                      ",".join("%s.%s" % (y[-20:], k[0]) for y, k in sorted(V))), c.span,
                      "every bound the new bound was computed from is stated in the reason",
                      "%s propagates a bound computed from %s but its reason does not state %s: the "
                      "explanation is not sufficient for the propagation"
                      % (root.rsplit("::", 1)[-1], sorted(V), miss))
    led.floor(rid, "propagation sites with directly read bounds", n, 20)


L15_TABLE = {
    ("absolute_value.rs", "set_lower_bound", "lower_bound", "signed"):
        "else-branch of the sign case analysis: `lb(signed) <= 0` only says the first case did not apply; "
        "|signed| >= -ub(signed) follows from [signed <= ub] alone",
}


def l15(led, rid, ctx):
    """the reason implies the branch: a test on a bound of another variable under which a bound is
    propagated is a premise of the inference, so the reason states a fact about that bound"""
    from ..flow import show, guards_of, rel_fact
    lib = ctx.lib
    n = 0
    for f in lib.fns.values():
        if "/src/propagators/arithmetic" not in f.file and "/propagators/element" not in f.file:
            continue
        if "/tests" in f.file:
            continue
        R = resolver(f)
        for c in f.calls:
            if c.name not in ("set_lower_bound", "set_upper_bound") or \
                    "PropagationContextMut" not in (c.self_ty or "") or len(c.args) != 4:
                continue
            tgt = show(peel(R.operand(c.args[1]), calls=None))
            P = {(show(peel(R.operand(p.args[0]), calls=None)), p.name) for p in reason_preds(f, c)}
            seen = set()
            for g in guards_of(f, c.bb):
                rf = rel_fact(g)
                if not rf:
                    continue
                for side in (rf[1], rf[2]):
                    s_ = peel(side, calls=None, casts=False)
                    if not (s_.k == "call" and s_.a.name in ("lower_bound", "upper_bound") and len(s_.a.args) >= 2):
                        continue
                    v = show(peel(R.operand(s_.a.args[-1]), calls=None))
                    if v == tgt or (v, s_.a.name) in seen:
                        continue
                    seen.add((v, s_.a.name))
                    n += 1
                    has = (v, s_.a.name + "_predicate") in P or (v, "equality_predicate") in P
                    root = (f.parent or f.defn).rsplit("::", 1)[-1]
                    key = "%s:%s(%s)<-%s(%s)" % (root, c.name, tgt[-14:], s_.a.name, v[-14:])
                    if has:
                        led.ok(rid, key, c.span, "the tested bound is stated in the reason")
                        continue
                    why = None
                    for (fl, fn_, kind, var), reason in L15_TABLE.items():
                        if f.file.endswith(fl) and c.name == fn_ and s_.a.name == kind and v.endswith(var):
                            why = reason
                    led.check(why is not None, rid, key, c.span, "table: %s" % why,
                              "%s propagates a bound of %s on a branch that tests the %s of %s, but its reason "
                              "states nothing about that bound: in a state where the reason holds and the test "
                              "fails the propagation is not justified (e.g. both factors negative), so a nogood "
                              "learned through it cuts off solutions"
                              % (root, tgt[-30:], s_.a.name.replace("_", " "), v[-30:]))
    led.floor(rid, "bound tests of other variables guarding a propagation", n, 35)


def l16(led, rid, ctx):
    """SIBLINGS: the three `…_at_trail_position` queries of a domain (which lazy explanations use to
    read the state at propagation time) all treat the entry made AT the asked position as visible:
    every comparison of an update's trail position with the asked position is `<=`"""
    from ..flow import show
    lib = ctx.lib
    n = 0
    FLIP = {"Lt": "Gt", "Gt": "Lt", "Le": "Ge", "Ge": "Le"}
    for f in lib.fns.values():
        if not (f.self_adt or "").endswith("IntegerDomain") or not f.name.endswith("_at_trail_position") \
                or f.kind == "Closure" or "/tests" in f.file:
            continue
        for g in f.with_closures():
            R = resolver(g)
            for b in g.blocks:
                for st in b["stmts"]:
                    if st["s"] != "assign" or st["rv"]["r"] != "binop" or st["rv"]["op"] not in FLIP:
                        continue
                    e = R.rvalue(st["rv"])
                    l, r, op = peel(e.b, calls=None), peel(e.c, calls=None), e.a

                    def is_update(x):
                        return x.k == "proj" and x.b and x.b[-1].get("name") == "trail_position"

                    def is_param(x):
                        if is_update(x):
                            return False
                        sx = show(x)
                        return x.k in ("arg", "proj", "local") and ("arg" in sx) and not sx.endswith(".trail_position")
                    if is_update(r) and is_param(l):
                        l, r, op = r, l, FLIP[op]
                    if not (is_update(l) and is_param(r)):
                        continue
                    n += 1
                    led.check(op == "Le", rid, "%s:update-visible-at-its-own-position" % f.name,
                              "%s:%d" % (g.file, st["line"]), "update.trail_position <= trail_position",
                              "IntegerDomain::%s compares an update's trail position with the asked position "
                              "using %s where its siblings use <=: the change made by the trail entry at exactly "
                              "that position is invisible to this query only, so a lazy explanation mixes two "
                              "states and can state a fact that does not hold" % (f.name, op))
    led.floor(rid, "trail-position comparisons in the …_at_trail_position queries", n, 3)


SELECT_ADAPTORS = ("skip", "take", "step_by", "skip_while", "take_while", "filter", "filter_map", "rev_take",
                   "nth", "get", "split_at", "chunks", "windows", "first", "last")


def l19(led, rid, ctx):
    """the lazy reason of an element bound ranges over EVERY array position (each contributes either
    `index != i` or a bound on array[i]): the iteration over the array is not narrowed"""
    lib = ctx.lib
    f = lib.method("ElementPropagator", "lazy_explanation", "*")
    n = 0
    for g in f.with_closures():
        R = resolver(g)
        for c in g.calls:
            if c.name not in ("extend", "collect", "for_each", "from_iter") and c.name != "map":
                continue
            for a in c.args:
                e = R.operand(a)
                if "array" not in e.fields():
                    continue
                if not any(x.k == "call" and x.a.name in ("iter", "into_iter", "enumerate") for x in e.walk()):
                    continue
                n += 1
                sel = [x.a.name for x in e.walk() if x.k == "call" and x.a.name in SELECT_ADAPTORS]
                rng = [x for x in e.walk() if x.k == "call" and x.a.name in ("index", "get") and
                       any(y.k == "agg" and (y.a or "").split("::")[-1].startswith("Range") for y in x.walk())]
                led.check(not sel and not rng, rid, "element:lazy-reason-covers-all-positions", c.span,
                          "self.array.iter().enumerate() as a whole",
                          "ElementPropagator::lazy_explanation narrows the positions it explains with `%s`: the "
                          "positions left out contribute no `index != i` fact, so the reason no longer implies "
                          "the bound on the right-hand side" % ((sel or ["a sub-slice"])[0]))
    led.floor(rid, "iterations over the element array in lazy_explanation", n, 1)


def l20(led, rid, ctx):
    """INCREMENTAL-RESET: a propagator that accumulates un-trailed state in `notify` invalidates it
    unconditionally in `notify_backtrack` (the store dominates every return)"""
    lib = ctx.lib
    n = 0
    for imp in lib.impls_of("Propagator"):
        if "/tests" in imp["span"]:
            continue
        nf = lib.impl_fn(imp, "notify")
        nb = lib.impl_fn(imp, "notify_backtrack")
        if nf is None:
            continue
        R = resolver(nf)
        acc = set()
        for b in nf.blocks:
            for st in b["stmts"]:
                if st["s"] == "assign" and st["dst"]["proj"] and st["rv"]["r"] == "binop" and \
                        st["rv"]["op"].replace("WithOverflow", "") in ("Add", "Sub"):
                    names = [x.get("name") for x in st["dst"]["proj"] if "field" in x]
                    e = R.rvalue(st["rv"])
                    if names and names[-1] in e.fields():
                        acc.add(names[-1])
        for b in nf.blocks:
            for st in b["stmts"]:
                if st["s"] == "assign" and st["dst"]["proj"] and st["rv"]["r"] == "use":
                    names = [x.get("name") for x in st["dst"]["proj"] if "field" in x]
                    pl = st["rv"]["op"].get("move") or st["rv"]["op"].get("copy")
                    if names and pl and all("field" in x for x in pl["proj"]):
                        for d in nf.whole_defs(pl["local"]):
                            if d[0] == "stmt" and d[3]["s"] == "assign" and d[3]["rv"]["r"] == "binop":
                                e = R.rvalue(d[3]["rv"])
                                if names[-1] in e.fields() or (e.k == "proj" and False):
                                    acc.add(names[-1])
        acc = {a for a in acc if not a.startswith("num_") or True}
        if not acc:
            continue
        who = (imp.get("self_adt") or "?").rsplit("::", 1)[-1]
        n += 1
        if nb is None:
            led.bad(rid, "%s:no-notify_backtrack" % who, nf.span,
                    "%s accumulates %s in notify but has no notify_backtrack: the sums are stale after "
                    "backtracking" % (who, sorted(acc)))
            continue
        cfg = nb.cfg
        Rb = resolver(nb)
        undo_blocks, flag_blocks = [], []
        for b in nb.blocks:
            for st in b["stmts"]:
                if st["s"] != "assign" or not st["dst"]["proj"]:
                    continue
                names = [x.get("name") for x in st["dst"]["proj"] if "field" in x]
                if not names:
                    continue
                e = Rb.rvalue(st["rv"])
                if names[-1] in acc and not (e.k == "const"):
                    undo_blocks.append(b["id"])
                if e.k == "const" and e.a == 1 and names[-1] not in acc:
                    flag_blocks.append(b["id"])
                if e.k == "const" and names[-1] in acc:
                    flag_blocks.append(b["id"])       # a plain reset of the accumulated field
        rets = cfg.returns
        ok = bool(undo_blocks) and all(
            ub in flag_blocks or not cfg.reaches(ub, rets, avoid=flag_blocks, strict=True) or
            any(cfg.dominates(fb, ub) for fb in flag_blocks)
            for ub in undo_blocks)
        if not undo_blocks:
            ok = any(all(cfg.dominates(fb, r) for r in rets) for fb in flag_blocks)
        led.check(ok, rid, "%s:notify_backtrack-invalidates-unconditionally" % who, nb.span,
                  "every undo of the fixed-term counter also marks the accumulated sum as outdated",
                  "%s accumulates %s incrementally in notify, but notify_backtrack undoes an assignment without "
                  "always invalidating the accumulated sum: after an assign-then-undo the stale sum is used, a "
                  "wrong value is removed with a reason that does not imply it and a real violation goes "
                  "unnoticed" % (who, sorted(acc)))
    led.floor(rid, "propagators with accumulated un-trailed state", n, 1)


STATE_READS = ("lower_bound", "upper_bound", "contains", "is_fixed", "is_literal_true", "is_literal_false",
               "is_literal_fixed", "is_predicate_satisfied", "is_predicate_falsified", "value", "is_assigned",
               "get_assigned_value", "lower_bound_at_trail_position", "upper_bound_at_trail_position")
SELECTING = ("filter", "filter_map", "take", "skip", "take_while", "skip_while", "step_by", "retain")
# state-dependent selections in reasons that were argued correct by hand: (file suffix, function) -> reason
L22_JUSTIFIED = {}


def _reads_state(lib, g, depth=0):
    """a read of the current domains whose result decides a branch (or the returned bool) of closure g"""
    if g is None or depth > 3:
        return None
    discr = set()
    for b in g.blocks:
        t = b["term"]
        if t["t"] == "switch":
            discr |= set(operand_locals(t["discr"]))
    discr.add(0)
    ret_bool = (g.rec.get("ret") or "") == "bool"
    for c in g.calls:
        if c.dst is None:
            continue
        inner = None
        if c.name in STATE_READS:
            inner = c
        elif c.name in ("call", "call_mut", "call_once"):
            for h in lib.callees(c):
                if _reads_state(lib, h, depth + 1) is not None or any(x.name in STATE_READS for x in h.calls):
                    inner = c
        if inner is None:
            continue
        t = forward(g, [c.dst["local"]], effects=False) | {c.dst["local"]}
        sel = (t & discr) - ({0} if not ret_bool else set())
        if sel:
            return c
    return None


def l22(led, rid, ctx):
    """an eager reason built by iterating over the constraint's variables leaves elements out only by
    position (the propagated variable itself), never by a test on the current domains: a fact that
    is dominated *now* is still needed for the nogood learned from the reason to hold elsewhere"""
    lib = ctx.lib
    n = 0
    from ..inline import view
    for f0 in lib.fns.values():
        if "/tests" in f0.file or not ("/propagators/arithmetic" in f0.file or f0.file.endswith("/propagators/element.rs")):
            continue
        if f0.kind == "Closure":
            f = f0
        else:
            # a reason built by a private helper of the propagator is judged where it is used
            f = view(lib, f0, want=lambda g: g.file == f0.file and g.kind != "Closure" and g.vis != "pub"
                     and g.impl_trait is None and len(g.blocks) <= 60)
        R = None
        for c in f.calls:
            if c.name not in ("set_upper_bound", "set_lower_bound", "remove", "assign_literal", "post_predicate", "post") \
                    or len(c.args) < 3:
                continue
            R = R or resolver(f)
            e = R.operand(c.args[-1])
            if any(x.k == "agg" and (x.b or "").startswith("DynamicLazy") for x in e.walk()):
                continue        # a lazy reason: its payload is a value, the facts are built later
            for x in e.walk():
                if x.k != "call" or x.a.name not in SELECTING:
                    continue
                n += 1
                culprit = None
                for a in x.b[1:]:
                    y = peel(a, calls=None)
                    if y.k == "closure":
                        r = _reads_state(lib, lib.fns.get(y.a))
                        if r is not None:
                            culprit = r
                key = (f.file.rsplit("/", 1)[-1], f.name)
                if culprit is not None and key in L22_JUSTIFIED:
                    led.ok(rid, "%s:%s:%s" % (key[0], f.name, x.a.name), c.span, "JUSTIFIED: " + L22_JUSTIFIED[key])
                    continue
                led.check(culprit is None, rid, "%s:%s:%s" % (key[0], f.name, x.a.name), c.span,
                          "selection by position only",
                          "%s (%s) builds the reason of %s with `%s` over a test that reads the current domains (%s): "
                          "the facts it leaves out are only dominated in this state, so the reason is not sufficient "
                          "and nogoods learned from it remove solutions"
                          % (f.name, key[0], c.name, x.a.name, culprit.name if culprit else ""))
    led.floor(rid, "selecting adaptors in eager reasons", n, 3)


def l23(led, rid, ctx):
    """MUST-PASS: a lazy explanation that is handed out from a buffer of the propagator rebuilds the
    buffer on every call (the clear dominates every return): what is in the buffer belongs to the
    state of an earlier call"""
    lib = ctx.lib
    n = 0
    for imp in lib.impls_of("Propagator"):
        if "/tests" in imp["span"]:
            continue
        f = lib.impl_fn(imp, "lazy_explanation")
        if f is None:
            continue
        R = resolver(f)
        who = (imp.get("self_adt") or "?").rsplit("::", 1)[-1]
        filled = {}
        for c in f.calls:
            if c.name in ("push", "extend", "extend_from_slice", "insert", "append") and c.args:
                fl = [x for x in R.operand(c.args[0]).fields()]
                if fl:
                    filled.setdefault(fl[-1], c)
        returned = set()
        for pth in SymExec(f, max_paths=200).run():
            if pth.ret is not None:
                returned |= set(pth.ret.fields())
        for fld, c in filled.items():
            if fld not in returned:
                continue
            clears = [x for x in f.calls if x.name in ("clear", "truncate") and x.args and fld in R.operand(x.args[0]).fields()]
            n += 1
            ok = any(all(f.cfg.dominates(x.bb, r) for r in f.cfg.returns) for x in clears)
            led.check(ok, rid, "%s:lazy_explanation:%s-rebuilt" % (who, fld), c.span, "clear dominates every return",
                      "%s::lazy_explanation can return without rebuilding `%s`: the buffer then holds the explanation "
                      "of an earlier call (another propagation, or the same trail position reached again after a "
                      "backjump), whose facts need not hold in the state now explained" % (who, fld))
    led.floor(rid, "buffered lazy explanations", n, 1)


# the only places where tasks leave a profile: both undo a mandatory part on backtrack
L24_SITES = {
    ("removal.rs", "remove_task_from_profile"): "over-interval incremental: a mandatory part shrank on backtrack",
    ("time_table_per_point_incremental.rs", "{closure}"): "per-point incremental: a mandatory part shrank on backtrack",
}


def l24(led, rid, ctx):
    """WHO-MAY-SHRINK: the tasks of a resource profile are what conflict and propagation
    explanations are built from; they are removed only where a mandatory part is undone"""
    lib = ctx.lib
    n = 0
    seen = set()
    for f in lib.fns.values():
        if "/tests" in f.file or "/cumulative/" not in f.file:
            continue
        R = None
        for c in f.calls:
            if c.name in ("retain", "remove", "swap_remove", "truncate", "pop", "drain", "clear", "retain_mut",
                          "split_off", "dedup", "dedup_by_key") and c.args:
                R = R or resolver(f)
                if "profile_tasks" not in R.operand(c.args[0]).fields():
                    continue
                key = (f.file.rsplit("/", 1)[-1], "{closure}" if f.kind == "Closure" else f.name)
                n += 1
                seen.add(key)
                led.check(key in L24_SITES, rid, "%s:%s:%s" % (key[0], key[1], c.name), c.span, L24_SITES.get(key, ""),
                          "%s (%s) removes tasks from a profile with `%s`: the explanation built from the profile "
                          "then names fewer tasks than were counted in its height, and need not overflow the "
                          "capacity by itself" % (key[1], key[0], c.name))
    led.floor(rid, "sites that shrink a profile's task list", n, 2)


def l25(led, rid, ctx):
    """CACHE-KEY: the explanation memoised per profile (OnceCell::get_or_init, reset whenever the
    handler moves to another profile — L12) is a function of the profile only: the initialising
    closure captures nothing that is derived from the task being propagated.  A value that depends
    on the task but is cached per profile is reused for the next task of the same profile."""
    lib = ctx.lib
    n = 0
    for f in lib.fns.values():
        if "/cumulative/" not in f.file or "/tests" in f.file:
            continue
        R = None
        for c in f.calls:
            if c.name != "get_or_init" or len(c.args) < 2:
                continue
            R = R or resolver(f)
            recv = R.operand(c.args[0])
            if "stored_profile_explanation" not in recv.fields():
                continue
            n += 1
            clo = peel(R.operand(c.args[1]), calls=None)
            bad = []
            if clo.k == "closure":
                for cap in clo.b or []:
                    for x in cap.walk():
                        if x.k == "arg" and 1 <= x.a <= len(f.args):
                            ty = f.args[x.a - 1]["ty"]
                            if "Task<" in ty and "ResourceProfile" not in ty:
                                bad.append("argument %d (%s)" % (x.a, ty.split("::")[-1][:40]))
            else:
                bad.append("an initialiser that is not a closure")
            led.check(not bad, rid, "%s:cache-depends-on-profile-only" % f.name, c.span, "captures: self, context, profile",
                      "%s memoises the profile explanation with an initialiser that depends on %s: the cache is "
                      "keyed on the profile, so the value computed for one task is handed out for the next task of "
                      "the same profile, for which it need not overflow the capacity" % (f.name, ", ".join(sorted(set(bad)))))
    led.floor(rid, "memoised profile explanations", n, 1)


def l21(led, rid, ctx):
    """PropositionalConjunction::extend_and_remove_duplicates is a set union: it treats predicates as
    opaque values (equality / hashing only) and neither drops nor rewrites one because of its content"""
    lib = ctx.lib
    f = lib.method("PropositionalConjunction", "extend_and_remove_duplicates")
    bad = []
    for g in f.with_closures():
        for c in g.calls:
            st = c.self_ty or ""
            if st.endswith("predicate::Predicate") and c.name not in ("eq", "ne", "hash", "clone", "fmt"):
                bad.append(c.name)
    led.check(not bad, rid, "extend_and_remove_duplicates:opaque-union", f.span, "only ==/hash on predicates",
              "extend_and_remove_duplicates inspects predicates (%s): a reason is no longer the union of its "
              "parts — a bound that one part needs is replaced or dropped, and the explanation built from the "
              "chain of profiles no longer implies the propagation" % sorted(set(bad)))


def l12(led, rid, ctx):
    """CACHE-INVALIDATION: the cumulative propagation handler caches the explanation of `the
    current profile`; every way from one use of the cache to the next that passes the point where
    the profile operand is (re)defined also passes next_profile()"""
    lib = ctx.lib
    getter = "get_stored_profile_explanation_or_init"
    users = set()
    for f in lib.fns.values():
        if (f.self_adt or "").endswith("CumulativePropagationHandler") and f.kind != "Closure":
            if any(c.name == getter for g in f.with_closures() for c in g.calls):
                users.add(f.name)
    users.discard(getter)
    led.check(bool(users), rid, "cache-users", None, "handler methods reading the cache: %s" % sorted(users),
              "no method of CumulativePropagationHandler reads the cached profile explanation any more")
    n = 0
    for f in lib.fns.values():
        if "/cumulative/" not in f.file or "/tests" in f.file or f.kind == "Closure":
            continue
        if (f.self_adt or "").endswith("CumulativePropagationHandler"):
            continue
        sites = [c for c in f.calls if c.name in users and
                 "CumulativePropagationHandler" in (c.target_def or c.self_ty or "")]
        if not sites:
            continue
        R = resolver(f)
        cfg = f.cfg
        NP = [c.bb for c in f.calls_named("next_profile")]
        for c in sites:
            n += 1
            prof = peel(R.operand(c.args[2]), calls=None) if len(c.args) > 2 else None
            defs = []
            if prof is not None:
                root = prof
                while root.k in ("proj", "ref", "cast") :
                    root = peel(root.a if root.k != "cast" else root.b, calls=None)
                if root.k == "call":
                    defs.append(root.a.bb)
                elif root.k in ("local", "phi"):
                    l = root.a if root.k == "local" else root.b
                    for d in f.whole_defs(l):
                        if d[0] == "call":
                            defs.append(d[2].bb)
                        elif d[0] == "stmt":
                            defs.append(d[1])
            bad = None
            for D in defs:
                if D == c.bb:
                    continue
                if cfg.reaches(c.bb, [D], avoid=NP, strict=False) and cfg.reaches(D, [c.bb], avoid=NP, strict=False) \
                        and D not in NP:
                    bad = D
            led.check(bad is None, rid, "%s:%s:cache-reset-per-profile" % (f.name, c.name), c.span,
                      "next_profile() lies between the profile's definition and the use of the cache",
                      "%s calls %s for a profile that is redefined in a loop without next_profile() in "
                      "between: the explanation cached for an earlier profile is given as the reason of "
                      "a propagation made by this one (its facts hold, but they do not imply the "
                      "propagation)" % (f.name, c.name))
    led.floor(rid, "uses of the cached profile explanation from loops over profiles", n, 4)


def run(ctx, led):
    run_rule(led, "L1", "propagators/constraints never call the raw domain mutators; the context's "
             "mutators store the reason they are given and pass its reference (WHO-MAY)", l1, ctx)
    run_rule(led, "L2", "a propagator that posts lazy reasons implements lazy_explanation", l2, ctx)
    run_rule(led, "L2b", "every Propagator wrapper forwards lazy_explanation and the other raised "
             "hooks (shared with C09-R2)", C09.r2, ctx)
    run_rule(led, "L3", "no fabricated reason reference; only decisions lack a reason (shared with "
             "C02-U2)", shared.no_fabricated_reason, ctx)
    run_rule(led, "L4", "a reified propagator's conflict carries the literal (shared with C09-R1)", C09.r1, ctx)
    run_rule(led, "L4b", "an explanation cached by the reification wrapper is dropped on every "
             "backtrack, so it is never given in a state in which its facts no longer hold (shared with "
             "C09-R3)", C09.r3, ctx)
    run_rule(led, "L5", "a lazy explanation is independent of the current domains (TAINT with control "
             "dependence from current-state reads into the returned predicates)", l5, ctx)
    run_rule(led, "L8", "a bound fact read directly from the domain is stated about the variable and "
             "direction it was read with (sibling discipline of all 48 sites)", l8, ctx)
    run_rule(led, "L9", "the reason of a propagated bound states every bound the propagated value was "
             "computed from (44 sites)", l9, ctx)
    run_rule(led, "L10", "a computed bound fact in a reason is established by a dominating comparison "
             "of a bound read of the same variable (or has a table entry)", l10, ctx)
    run_rule(led, "L6", "a reason assembled from input data outside propagate is filtered to "
             "predicates that hold (instance-specific regression guard)", l6, ctx)
    from . import predrules
    run_rule(led, "L11", "implicit kernel reasons imply the predicate they explain (shared with C02-U8)", predrules.implicit_reasons, ctx)
    run_rule(led, "L12", "CACHE-INVALIDATION: the cached profile explanation is reset whenever the profile operand changes", l12, ctx)
    from . import C07 as _C07
    run_rule(led, "L14", "the nogood a lazy reason refers to is never deleted while it is the reason of a trail entry (shared with C07-J1)", _C07.j1, ctx)
    run_rule(led, "L15", "the reason implies the branch: every tested bound of another variable that guards a propagation is stated in the reason", l15, ctx)
    run_rule(led, "L16", "SIBLINGS: the `…_at_trail_position` queries agree on the inclusive position convention", l16, ctx)
    run_rule(led, "L17", "lazy reasons of reified propagators keep the reification literal (shared with C09-R7)", C09.r7, ctx)
    from . import C08 as _C08
    run_rule(led, "L18", "WITNESS-POINT of pointwise hole explanations (shared with C08-H11)", _C08.h11, ctx)
    run_rule(led, "L19", "the lazy element reason ranges over every array position", l19, ctx)
    run_rule(led, "L20", "INCREMENTAL-RESET: accumulated un-trailed propagator state is invalidated unconditionally on backtrack", l20, ctx)
    run_rule(led, "L21", "extend_and_remove_duplicates is an opaque set union", l21, ctx)
    run_rule(led, "L22", "eager reasons over the constraint's variables select by position only, never by a test on the current domains", l22, ctx)
    run_rule(led, "L23", "MUST-PASS: buffered lazy explanations are rebuilt on every call", l23, ctx)
    run_rule(led, "L25", "CACHE-KEY: the per-profile explanation cache is initialised from the profile only", l25, ctx)
    run_rule(led, "L24", "WHO-MAY-SHRINK: tasks leave a resource profile only where a mandatory part is undone", l24, ctx)
    from . import kernel as _kernel
    _kernel.run_bundle(led, ctx, "L")

"""C02 — Unsatisfiable only for models without solutions (structural clauses U1–U5b)."""
from ..main import run_rule
from ..flow import resolver, peel, guards_of, rel_fact, aggregates, show, call_guarded, root_local, edge_facts
from ..symexec import SymExec, variant_name
from ..facts import AnchorMissing
from . import shared, C10

LEVEL = ('decides: infeasibility is declared only for a conflict at decision level 0 (dominance in the'
         ' search loop, typestate for every other site) (U1); no reason reference is fabricated and '
         'only decisions/assumptions/root posts lack a reason (U2); an Err from a posting function is '
         'preceded by recording the conflict or guarded by an inconsistent state (U3); a learned '
         'nogood is posted with the lazy reason of the id under which it was just stored, after both '
         'watchers (U4); kernel predicate tables: negation (x≥v ↔ x≤v−1, x=v ↔ x≠v), constructor → '
         'variant, post_predicate → mutator, add_clause negates every literal (U5); posting a '
         'predicate is never skipped unless the predicate already holds (U5b). every reason the kernel'
         ' derives for a predicate that is true without being on the trail implies that predicate, '
         'negation is the exact complement and evaluate_predicate is exact (U8–U10, predicate-algebra '
         'TABLEs decided on a small integer window); assumptions are overwritten per solve (U11); '
         'label TABLE of the recursive minimiser — Keep only for predicates of the nogood, Removable '
         'only after all antecedents, only Poison before the reason is read (U12); the no-learning '
         "resolver's flipped decision carries a reason over every earlier level (U13); WAKE/READD of "
         'the nogood watchers (U14/U15). every reason the kernel derives for a predicate that is true '
         'without being on the trail implies that predicate, negation is the exact complement and '
         'evaluate_predicate is exact (U8–U10, predicate-algebra TABLEs decided on a small integer '
         'window); assumptions are overwritten per solve (U11); label TABLE of the recursive minimiser'
         ' — Keep only for predicates of the nogood, Removable only after all antecedents, only Poison'
         " before the reason is read (U12); the no-learning resolver's flipped decision carries a "
         'reason over every earlier level (U13); WAKE/READD of the nogood watchers (U14/U15). '
         'semantic-minimiser exactness (U18/U19), preprocessed permanent nogoods (U20), reified lazy '
         'reasons keep the literal (U21), equality halves merged when minimisation is off (U22), '
         'conflict resolution always returns in the Solving state (U23). Also runs the KERNEL BUNDLE '
         '(rule ids …K<n>): the kernel rules every verdict depends on — predicate algebra, nogood '
         'watchers, minimisers, conflict-analysis tables, nogood deletion, decision read-back, no-'
         'learning resolver, constraint builders, reified reasons — wherever they are not already '
         'registered here under another id. The semantic minimiser starts every call with empty '
         'scratch vectors (U28); add_clause stores exactly the negation of what it was given (U29); '
         'every Option<bool> evaluator of a predicate, discovered by signature, is sound on all '
         'domains of a 5-value universe (U30). Does not decide soundness of propagation, explanations '
         'or minimisation, nor completeness/termination of search')
TECHNIQUE = "static analysis: dominance, who-may-construct, symbolic table recovery, typestate over rustc MIR"


def u1(led, rid, ctx):
    lib = ctx.lib
    f = __import__("lint.props.shared", fromlist=["x"]).solve_internal(lib)
    ds = f.calls_named("declare_infeasible")
    led.check(len(ds) == 1, rid, "solve_internal:one-site", f.span, "", "%d declare_infeasible sites in the search loop" % len(ds))
    for c in ds:
        ok = False
        for g in guards_of(f, c.bb):
            rf = rel_fact(g)
            if rf and rf[0] == "Eq":
                l, r = peel(rf[1], calls=None), peel(rf[2], calls=None)
                if l.k == "call" and l.a.name == "get_decision_level" and r.k == "const" and r.a == 0:
                    ok = True
        led.check(ok, rid, "solve_internal:only-at-level-0", c.span,
                  "declare_infeasible dominated by get_decision_level() == 0",
                  "the search loop declares the model infeasible for a conflict that need not be at "
                  "decision level 0: a conflict above the root refutes only the current branch")
        # and the conflict branch: dominated by no_conflict() false
        ok2 = call_guarded(f, c.bb, "no_conflict", False) is not None
        led.check(ok2, rid, "solve_internal:only-on-conflict", c.span, "on the conflict branch",
                  "declare_infeasible is reachable without a conflict")
    # every other writer of Infeasible: observed transitions by the interpreter are from level 0
    it = C10.explore(lib)[0]
    n = 0
    for (s0, l0, s1), (fn, site) in sorted(it.transitions.items(), key=str):
        if s1 != "Infeasible":
            continue
        n += 1
        led.check(l0 == 0, rid, "transition:%s/L%s->Infeasible" % (s0, l0), site,
                  "in %s at level 0" % fn.rsplit("::", 1)[-1],
                  "%s declares the model infeasible at a decision level above 0" % fn)
    led.floor(rid, "transitions into Infeasible", n, 1)
    # Infeasible flag ↔ state (typestate T1 shares this)
    who = set()
    inl = {h.defn: "solve_internal" for h in getattr(f, "inlined", [])}     # helpers the search loop is split into
    for g in lib.fns.values():
        for c in g.calls:
            if c.name == "declare_infeasible" and (c.self_ty or "").endswith("CSPSolverState"):
                who.add(inl.get(g.parent or g.defn) or (g.parent or g.defn).rsplit("::", 1)[-1])
    led.check(who <= {"solve_internal", "add_propagator"}, rid, "who-declares-infeasible", None,
              "declared by %s" % sorted(who), "declare_infeasible is now called from %s" % sorted(who))


def u3(led, rid, ctx):
    lib = ctx.lib
    n = 0
    for name in ("add_clause", "add_nogood", "add_propagator", "post_predicate"):
        f = lib.method("ConstraintSatisfactionSolver", name)
        cfg = f.cfg
        decl = [c.bb for c in f.calls if c.name in ("declare_conflict", "declare_infeasible",
                                                    "prepare_for_conflict_resolution")]
        for bb, i, s in aggregates(f, "Result", "Err"):
            if s["dst"]["local"] != 0:
                continue
            n += 1
            ok = any(cfg.dominates(d, bb) for d in decl)
            why = "conflict recorded before the error"
            if not ok:
                for gname, truth in (("is_inconsistent", True), ("is_infeasible", True), ("is_conflicting", True),
                                     ("no_conflict", False)):
                    if call_guarded(f, bb, gname, truth) is not None:
                        ok = True
                        why = "state already inconsistent (%s)" % gname
            if not ok and name == "post_predicate":
                # Assignments::post_predicate failed: the domain is empty — recorded in the domains
                ok = any(fa.kind == "variant" and fa.val == "Err" for fa in guards_of(f, bb))
                why = "the failed domain update itself"
            led.check(ok, rid, "%s:Err" % name, "%s:%d" % (f.file, s["line"]), why,
                      "%s returns an error without the conflict being recorded in the solver state: a "
                      "later solve would search a model that silently misses the refuted constraint" % name)
    led.floor(rid, "Err returns of posting functions", n, 6)


def u4(led, rid, ctx):
    lib = ctx.lib
    f = lib.method("NogoodPropagator", "add_asserting_nogood")
    R = resolver(f)
    lazies = aggregates(f, "reason::Reason", "DynamicLazy")
    led.check(len(lazies) == 1, rid, "one-lazy-reason", f.span, "", "%d lazy reasons built" % len(lazies))
    # the id under which the nogood was stored: the local that indexes self.nogoods / is passed to add_watcher
    watchers = f.calls_named("add_watcher")
    led.check(len(watchers) == 2, rid, "two-watchers", f.span, "", "%d watchers added" % len(watchers))
    ids = {root_local(f, w.args[-1]) for w in watchers}
    led.check(len(ids) == 1, rid, "watchers-same-id", f.span, "", "the two watchers are registered under different ids")
    if lazies and len(ids) == 1:
        bb, i, s = lazies[0]
        e = R.rvalue(s["rv"])
        nid = next(iter(ids))
        # the payload derives from the same id local (new_id.id as u64)
        from ..flow import backward, _rv_locals
        dep = nid in backward(f, _rv_locals(s["rv"]), effects=False)
        led.check(dep, rid, "lazy-reason-is-the-stored-id", "%s:%d" % (f.file, s["line"]),
                  "Reason::DynamicLazy(id of the nogood just stored)",
                  "the asserting predicate is posted with a lazy reason that is not the id under which "
                  "the nogood was stored: conflict analysis would explain it with another clause")
        posts = [c for c in f.calls if c.name == "post_predicate" and "PropagationContextMut" in (c.self_ty or "")]
        ok = bool(posts) and all(all(f.cfg.dominates(w.bb, p.bb) for w in watchers) for p in posts)
        led.check(ok, rid, "watchers-before-post", f.span, "both watchers are added before the post",
                  "the asserting predicate is posted before the nogood is watched")
        for p in posts:
            e = peel(R.operand(p.args[1]), calls=None)
            ok = e.k == "call" and e.a.name == "not"
            led.check(ok, rid, "posts-negated-first-predicate", p.span, "posts !nogood[0]",
                      "the learned nogood asserts %r instead of the negation of its first predicate" % e)


def u5(led, rid, ctx):
    lib = ctx.lib
    # Predicate::not
    f = None
    for g in lib.fns.values():
        if g.name == "not" and (g.self_adt or "").endswith("predicate::Predicate") and (g.impl_trait or "").endswith("ops::Not"):
            f = g
    if f is None:
        raise AnchorMissing("impl Not for Predicate")
    want = {"LowerBound": ("UpperBound", -1), "UpperBound": ("LowerBound", +1),
            "NotEqual": ("Equal", 0), "Equal": ("NotEqual", 0)}
    got = {}
    for p in SymExec(f).run():
        if p.diverged or p.ret is None or p.ret.k != "agg":
            continue
        var = None
        for cond, val, others in p.conds:
            if cond.k == "discr":
                var = variant_name(f, cond, val, others)
        const = peel(p.ret.c[-1], calls=None)
        dom = peel(p.ret.c[0], calls=None)
        k = None
        if const.k == "binop" and const.a in ("Add", "Sub") and const.c.k == "const":
            k = const.c.a if const.a == "Add" else -const.c.a
            inner = peel(const.b, calls=None)
        else:
            k = 0
            inner = const
        same_dom = dom.k == "proj" and inner.k == "proj"
        got[var] = (p.ret.b, k, same_dom)
    for v, (w, k) in want.items():
        g_ = got.get(v)
        led.check(g_ is not None and g_[0] == w and g_[1] == k and g_[2], rid, "not:%s" % v, f.span,
                  "¬%s(v) = %s(v%+d)" % (v, w, k),
                  "¬[x %s v] is computed as %s: over the integers it is %s(v%+d) on the same variable"
                  % (v, g_, w, k))
    # PredicateConstructor for DomainId
    want2 = {"lower_bound_predicate": "LowerBound", "upper_bound_predicate": "UpperBound",
             "equality_predicate": "Equal", "disequality_predicate": "NotEqual"}
    for m, v in want2.items():
        g = lib.method("DomainId", m, "PredicateConstructor")
        aggs = aggregates(g, "predicate::Predicate")
        ok = len(aggs) == 1 and aggs[0][2]["rv"]["variant"] == v
        led.check(ok, rid, "DomainId::%s" % m, g.span, "→ Predicate::%s" % v,
                  "DomainId::%s builds %s" % (m, [a[2]["rv"]["variant"] for a in aggs]))
    # post_predicate dispatch (both)
    for owner, table in (("Assignments", {"LowerBound": "tighten_lower_bound", "UpperBound": "tighten_upper_bound",
                                          "NotEqual": "remove_value_from_domain", "Equal": "make_assignment"}),
                         ("PropagationContextMut", {"LowerBound": "set_lower_bound", "UpperBound": "set_upper_bound",
                                                    "NotEqual": "remove", "Equal": "make_assignment"})):
        g = lib.method(owner, "post_predicate")
        rows = {}
        for p in SymExec(g).run():
            var = None
            for cond, val, others in p.conds:
                if cond.k == "discr" and (cond.b or "").endswith("predicate::Predicate"):
                    var = variant_name(g, cond, val, others)
            muts = [c.name for c, a, r in p.calls if c.name in table.values() or c.name in (
                "tighten_lower_bound", "tighten_upper_bound", "remove_value_from_domain", "make_assignment",
                "set_lower_bound", "set_upper_bound", "remove")]
            if var:
                rows.setdefault(var, set()).update(muts)
        for v, m in table.items():
            led.check(rows.get(v, set()) <= {m} and (m in rows.get(v, set()) or v == "Equal"), rid,
                      "%s::post_predicate:%s" % (owner, v), g.span, "→ %s" % m,
                      "%s::post_predicate handles %s with %s (expected %s)" % (owner, v, sorted(rows.get(v, [])), m))
    # add_clause negates every literal before storing it as a nogood
    ok, detail, site = clause_to_nogood_shape(lib)
    led.check(ok, rid, "add_clause:negates-every-literal", site, "maps every literal to its negation",
              "add_clause does not turn every literal into its negation for the nogood (%s)" % detail)


def u5b(led, rid, ctx):
    lib = ctx.lib
    MUT = ("set_lower_bound", "set_upper_bound", "remove", "make_assignment", "tighten_lower_bound",
           "tighten_upper_bound", "remove_value_from_domain")

    def skip_paths(f):
        out = []
        for p in SymExec(f).run():
            if p.diverged:
                continue
            wrote = any((c.name in MUT and ((c.trait or "").endswith("IntegerVariable") or
                                            (c.self_ty or "").endswith("Assignments") or
                                            "PropagationContextMut" in (c.self_ty or ""))) for c, a, r in p.calls)
            if not wrote:
                out.append(p)
        return out

    def truth(val, others):
        return bool(val) if val is not None else (others is not None and len(others) == 1 and not bool(others[0]))
    n = 0
    # the three plain mutators of the context
    for name, okcond in (("remove", ("contains", False)),
                         ("set_upper_bound", ("Lt", False, "upper_bound")),
                         ("set_lower_bound", ("Gt", False, "lower_bound"))):
        f = lib.method("PropagationContextMut", name)
        for p in skip_paths(f):
            n += 1
            conds = [(c, truth(v, o)) for c, v, o in p.conds]
            good = False
            for c, t in conds:
                cc = c
                while cc.k == "unop" and cc.a == "Not":
                    cc = cc.b
                    t = not t
                if len(okcond) == 2 and cc.k == "call" and cc.a.name == okcond[0] and t == okcond[1]:
                    good = True
                if len(okcond) == 3 and cc.k == "binop":
                    op = cc.a
                    l, r = peel(cc.b, calls=None), peel(cc.c, calls=None)
                    flip = {"Lt": "Gt", "Gt": "Lt", "Le": "Ge", "Ge": "Le"}
                    if r.k == "arg":
                        l, r = r, l
                        op = flip.get(op, op)
                    if l.k == "arg" and r.k == "call" and r.a.name == okcond[2]:
                        holds = op if t else {"Lt": "Ge", "Gt": "Le", "Le": "Gt", "Ge": "Lt"}.get(op)
                        # skip allowed iff the new bound is not tighter
                        if okcond[0] == "Lt" and holds in ("Ge",):
                            good = True
                        if okcond[0] == "Gt" and holds in ("Le",):
                            good = True
            led.check(good and len(conds) == 1, rid, "ctx.%s:skip-only-if-satisfied" % name, f.span,
                      "returns Ok without writing only when the predicate already holds",
                      "PropagationContextMut::%s can return Ok(()) without changing the domain on the "
                      "condition %s, which is not `the predicate already holds`" % (name, [show(c) for c, _ in conds]))
    # the Equal arm of post_predicate
    f = lib.method("PropagationContextMut", "post_predicate")
    for p in skip_paths(f):
        var = None
        rest = []
        for c, v, o in p.conds:
            if c.k == "discr" and (c.b or "").endswith("predicate::Predicate"):
                var = variant_name(f, c, v, o)
            else:
                rest.append((c, truth(v, o)))
        if var != "Equal":
            # the other arms delegate to the mutators above (checked there)
            continue
        n += 1
        good = False
        bad_conds = []
        for c, t in rest:
            cc = c
            while cc.k == "unop" and cc.a == "Not":
                cc = cc.b
                t = not t
            if cc.k == "call" and cc.a.name == "is_predicate_satisfied" and t is True:
                good = True
            elif cc.k == "call" and cc.a.name == "evaluate_predicate":
                good = True
            else:
                bad_conds.append("%s=%s" % (show(cc), t))
        # value in the domain and the domain assigned ⇒ the equality holds
        if set(bad_conds) == {"is_value_in_domain(&**arg1.assignments, arg2@Equal.domain_id, arg2@Equal.equality_constant)=True",
                              "is_domain_assigned(&**arg1.assignments, &arg2@Equal.domain_id)=True"} or \
                (len(bad_conds) == 2 and all(b.endswith("=True") for b in bad_conds) and
                 any(b.startswith("is_value_in_domain(") for b in bad_conds) and
                 any(b.startswith("is_domain_assigned(") for b in bad_conds)):
            good, bad_conds = True, []
        led.check(good and not bad_conds, rid, "ctx.post_predicate:Equal:skip-only-if-satisfied", f.span,
                  "[x = v] is skipped only when it already holds",
                  "PropagationContextMut::post_predicate returns Ok(()) for [x = v] without assigning on "
                  "the path (%s): that includes v not being in the domain, so a propagated equality "
                  "literal outside the domain is silently ignored instead of emptying the domain"
                  % ", ".join(bad_conds))
    led.floor(rid, "skip paths examined", n, 4)


def u12(led, rid, ctx):
    """label TABLE of the recursive minimiser: Keep only for predicates of the nogood itself,
    Removable only after every antecedent has been examined, nothing but Poison before the reason
    of the predicate has been looked at"""
    lib = ctx.lib
    f = lib.method("RecursiveMinimiser", "compute_label")
    R = resolver(f)
    cfg = f.cfg
    reasons = f.calls_named("get_propagation_reason")
    led.check(len(reasons) == 1, rid, "compute_label:reads-reason", f.span, "",
              "compute_label no longer looks at the reason of the predicate")
    if not reasons:
        return
    rc = reasons[0]
    nexts = [c for c in f.calls if c.name == "next" and cfg.dominates(rc.bb, c.bb)]
    n = 0
    sites = []
    for c0 in f.calls_named("assign_predicate_label"):
        lab0 = peel(R.operand(c0.args[2]), calls=None)
        if lab0.k == "phi":
            # the label is chosen by a branch and assigned once afterwards: every alternative is judged
            # at the block that chooses it
            from ..flow import root_local as _rl
            ll = _rl(f, c0.args[2])
            alts = []
            for d in (f.whole_defs(ll) if ll is not None else []):
                if d[0] == "stmt" and d[3]["s"] == "assign" and d[3]["rv"]["r"] == "aggregate":
                    alts.append((R.rvalue(d[3]["rv"]), d[1]))
            if alts:
                for lab_, bb_ in alts:
                    sites.append((c0, lab_, bb_))
                continue
        sites.append((c0, lab0, c0.bb))

    class _Site:
        def __init__(self, c0, bb):
            self.bb = bb
            self.span = c0.span
    for c0, lab, sbb in sites:
        c = _Site(c0, sbb)
        name = lab.b if lab.k == "agg" else None
        n += 1
        after = cfg.dominates(rc.bb, c.bb)
        inst = "compute_label:%s:%s" % (name, "after-reason" if after else "before-reason")
        if name == "Poison":
            led.ok(rid, inst, c.span, "Poison is always a safe label")
        elif name == "Keep":
            g = call_guarded(f, c.bb, "is_predicate_assigned_seen", True)
            led.check(g is not None, rid, inst, c.span, "guarded by is_predicate_assigned_seen(input)",
                      "compute_label labels a predicate Keep although it is not known to be part of the "
                      "nogood being minimised: a Keep antecedent lets other predicates be removed, so a "
                      "predicate that merely was cut off (depth limit, decision, foreign level) makes "
                      "the minimised nogood unsound")
        elif name == "Removable":
            done = False
            for nx in nexts:
                for fa in all_edge_facts_of(f):
                    if fa.kind == "variant" and fa.val == "None" and peel(fa.atom, calls=None).k == "call" \
                            and peel(fa.atom, calls=None).a is nx and cfg.dominates(fa.edge.node, c.bb):
                        done = True
            led.check(after and done, rid, inst, c.span, "only after the antecedent loop has finished",
                      "compute_label labels a predicate Removable without having examined every "
                      "antecedent of its reason")
        else:
            led.bad(rid, inst, c.span, "compute_label assigns an unrecognised label %s" % show(lab))
    led.floor(rid, "label assignments in compute_label", n, 6)


def all_edge_facts_of(f):
    from ..flow import edge_facts
    for bb in f.cfg.edges:
        for fa in edge_facts(f, bb):
            yield fa


def u16(led, rid, ctx):
    """routing TABLE of conflict analysis: a predicate entering the working nogood is dropped when it
    holds at the root, queued for resolution when it is of the current level (1-UIP) / not a decision
    (all-decision), and otherwise becomes part of the learned nogood; decided over all worlds
    (level of the predicate, mode, decision?)"""
    from ..predalg import ev, Unknown
    lib = ctx.lib
    f = lib.method("ResolutionResolver", "add_predicate_to_conflict_nogood")
    paths = [p for p in SymExec(f, max_paths=800, max_visits=1).run() if not p.diverged]
    CUR = 5
    n = 0
    for mode in ("OneUIP", "AllDecision"):
        for level in (0, 1, 2, CUR):
            for dec in (0, 1):
                if level == 0 and dec:
                    continue
                def leaf(e):
                    if e.k == "call":
                        nm = e.a.name
                        if nm in ("unwrap_or_else", "unwrap", "expect") and any(
                                c.name == "get_decision_level_for_predicate" for c in e.calls()):
                            return level
                        if nm == "get_decision_level":
                            return CUR
                        if nm == "is_decision_predicate":
                            return dec
                    return None
                effects = set()
                for p in paths:
                    ok = True
                    for cond, val, others in p.conds:
                        if cond.k == "discr":
                            if (cond.b or "").endswith("AnalysisMode") and variant_name(f, cond, val, others) != mode:
                                ok = False
                            continue
                        try:
                            w = ev(cond, leaf)
                        except Unknown:
                            continue
                        if (val is not None and w != val) or (val is None and others and w in others):
                            ok = False
                    if not ok:
                        continue
                    pushed = any(c.name == "push" and "processed_nogood_predicates" in show(a[0]) for c, a, r in p.calls)
                    queued = any(c.name in ("get_id", "restore_key") for c, a, r in p.calls)
                    effects.add("nogood" if pushed else "queue" if queued else "dropped")
                if level == 0:
                    want = "dropped"
                elif mode == "OneUIP":
                    want = "queue" if level == CUR else "nogood"
                else:
                    want = "nogood" if dec else "queue"
                n += 1
                led.check(effects == {want}, rid, "route:%s:level=%s:decision=%d" % (
                          mode, {0: "root", 1: "first", 2: "earlier", CUR: "current"}[level], dec), f.span, "-> %s" % want,
                          "add_predicate_to_conflict_nogood (%s) sends a predicate of %s that is %sa decision to %s "
                          "instead of %s: %s" % (mode, {0: "the root level", 1: "decision level 1", 2: "an earlier level", CUR: "the current level"}[level],
                                                 "" if dec else "not ", sorted(effects) or "nowhere", want,
                                                 {"dropped": "a root fact must not enter the nogood",
                                                  "queue": "it has to be resolved away, the learned nogood is not asserting otherwise",
                                                  "nogood": "resolving it away needs its reason at a level the analysis does not visit"}[want]))
    led.floor(rid, "routing worlds", n, 10)


def u17(led, rid, ctx):
    """the learned nogood is ordered by trail position (latest first) and the backjump level is the
    level of its second predicate, 0 for a unit nogood; the 1-UIP loop runs while more than one
    predicate of the current level is queued"""
    lib = ctx.lib
    f = lib.method("ResolutionResolver", "extract_final_nogood")
    R = resolver(f)
    cfg = f.cfg
    sorts = [c for c in f.calls if c.name in ("sort_by_key", "sort_unstable_by_key", "sort_by_cached_key")]
    revs = f.calls_named("reverse")
    ok = False
    for s_ in sorts:
        clo = [x for x in R.operand(s_.args[1]).walk() if x.k == "closure"] if len(s_.args) > 1 else []
        key_ok = False
        for x in clo:
            g = lib.fns.get(x.a)
            if g and any(c.name == "get_trail_position" for c in g.calls):
                key_ok = True
        if key_ok and any(cfg.dominates(s_.bb, r.bb) for r in revs):
            ok = True
    led.check(ok, rid, "final-nogood:ordered-by-trail-position", f.span, "sort_by_key(trail position) then reverse",
              "extract_final_nogood no longer orders the learned nogood by decreasing trail position: the "
              "asserting predicate is not at index 0 and the backjump level is read from the wrong predicate")
    # backjump level
    aggs = aggregates(f, "LearnedNogood")
    led.check(bool(aggs), rid, "final-nogood:built", f.span, "", "extract_final_nogood builds no LearnedNogood")
    for b, s_, st in aggs:
        e = R.rvalue(st["rv"])
        lv = None
        for fe, name in zip(e.c, e.d or []):
            if name == "backjump_level":
                lv = fe
        shown = show(lv) if lv is not None else "?"
        good = False
        if lv is not None:
            alts = lv.a if lv.k == "phi" else [lv]
            consts = [a for a in alts if peel(a, calls=None).k == "const"]
            lvls = [a for a in alts if any(c.name == "get_decision_level_for_predicate" for c in a.calls())]
            idx_ok = False
            for a in lvls:
                for x in a.walk():
                    if x.k == "call" and x.a.name == "index":
                        from ..facts import op_const_int
                        ci = op_const_int(x.a.args[1]) if len(x.a.args) > 1 else None
                        if ci == 1:
                            idx_ok = True
                    if x.k == "proj" and any(pr.get("const_index") == 1 for pr in (x.b or [])):
                        idx_ok = True
            good = len(alts) == 2 and len(consts) == 1 and peel(consts[0], calls=None).a == 0 and idx_ok
            # the guard: len > 1
            if good:
                gd = False
                for bb in cfg.edges:
                    for fa in edge_facts(f, bb):
                        rf = rel_fact(fa)
                        if rf and rf[0] in ("Gt", "Ge", "Lt", "Le") and \
                                any(x.k == "call" and x.a.name == "len" for x in rf[1].walk()):
                            k_ = peel(rf[2], calls=None)
                            if k_.k == "const" and ((rf[0] == "Gt" and k_.a == 1) or (rf[0] == "Ge" and k_.a == 2)):
                                gd = True
                good = gd
        led.check(good, rid, "final-nogood:backjump-level", f.span,
                  "level of predicates[1] if len > 1 else 0",
                  "the backjump level of a learned nogood is %s; it must be the decision level of the second "
                  "predicate (in trail order) when there is one and 0 for a unit nogood: jumping elsewhere the "
                  "nogood does not propagate its asserting predicate (or propagates it at a level from which "
                  "it is undone while still implied)" % shown[:160])
    # loop condition of resolve_conflict
    g = lib.method("ResolutionResolver", "resolve_conflict", "*")
    rows = {}
    Rg = resolver(g)
    switched = set()
    for b in g.blocks:
        t = b["term"]
        if t["t"] == "switch":
            pl = t["discr"].get("move") or t["discr"].get("copy")
            if pl and not pl["proj"]:
                switched.add(pl["local"])
    for b in g.blocks:
        for st in b["stmts"]:
            if st["s"] != "assign" or st["rv"]["r"] != "binop" or st["dst"]["proj"]:
                continue
            if st["dst"]["local"] not in switched:
                continue
            e = Rg.rvalue(st["rv"])
            if e.a not in ("Gt", "Ge") or not any(x.k == "call" and x.a.name == "num_nonremoved_elements" for x in e.b.walk()):
                continue
            k_ = peel(e.c, calls=None)
            modes = [h.val for h in guards_of(g, b["id"]) if h.kind == "variant" and h.val in ("OneUIP", "AllDecision")]
            if k_.k == "const" and modes:
                rows[modes[-1]] = (e.a, k_.a)
            elif k_.k in ("phi", "local"):
                # the threshold is a local chosen per mode before the loop: one constant per mode arm
                from ..flow import const_defs, root_local as _rl
                from ..facts import op_place
                kl = _rl(g, st["rv"]["b"]) if op_place(st["rv"]["b"]) is not None else None
                for bb2, v in (const_defs(g, kl) or []) if kl is not None else []:
                    ms = [h.val for h in guards_of(g, bb2) if h.kind == "variant" and h.val in ("OneUIP", "AllDecision") and not h.neg]
                    if ms:
                        rows[ms[-1]] = (e.a, v)
    want = {"OneUIP": ("Gt", 1), "AllDecision": ("Gt", 0)}
    norm = {m: (("Gt", k - 1) if op == "Ge" else (op, k)) for m, (op, k) in rows.items()}
    for m, w in want.items():
        led.check(norm.get(m) == w, rid, "resolve-loop:%s" % m, g.span, "while queued > %d" % w[1],
                  "the %s resolution loop runs while the number of queued predicates is %s (expected > %d)"
                  % (m, norm.get(m), w[1]))


def u22(led, rid, ctx):
    """when recursive minimisation is off, the first semantic pass merges the two halves of an
    equality (the final merging pass only exists on the minimising branch)"""
    lib = ctx.lib
    f = lib.method("ResolutionResolver", "extract_final_nogood")
    n = 0
    ok = False
    for bb, i, st in aggregates(f, "Mode", "EnableEqualityMerging"):
        n += 1
        for fa in guards_of(f, bb):
            a = peel(fa.atom, calls=None) if fa.kind == "bool" else None
            if a is None:
                continue
            neg = False
            while a.k == "unop" and a.a == "Not":
                a = peel(a.b, calls=None)
                neg = not neg
            if "should_minimise" in a.fields():
                truth = fa.val if not neg else (not fa.val)
                if truth is False or truth == 0:
                    ok = True
    led.check(ok, rid, "first-pass-merges-equalities-when-not-minimising", f.span,
              "Mode::EnableEqualityMerging on the !should_minimise edge",
              "extract_final_nogood never merges [x >= v] and [x <= v] when minimisation is off: the learned "
              "nogood keeps both halves of an equality decision, its backjump level equals the current level "
              "and the solver asserts (or loses solutions) only under that option")
    led.floor(rid, "constructions of Mode::EnableEqualityMerging", n, 2)


def u23(led, rid, ctx):
    """conflict resolution always hands the solver back in the Solving state (MUST-PASS), whether or
    not a nogood was learned"""
    lib = ctx.lib
    from .shared import method_view as _mv
    f = _mv(lib, "ConstraintSatisfactionSolver", "resolve_conflict_with_nogood", keep=("add_learned_nogood", "add_asserting_nogood_to_nogood_propagator", "backtrack", "process", "resolve_conflict", "prepare_for_conflict_resolution", "declare_solving", "log_learned_clause", "log_learned_nogood", "decay_nogood_activities"))
    cfg = f.cfg
    ds = f.calls_named("declare_solving")
    ok = bool(ds) and all(any(cfg.dominates(c.bb, r) for c in ds) for r in cfg.returns)
    led.check(ok, rid, "resolve_conflict_with_nogood:declares-solving", f.span, "declare_solving dominates every return",
              "resolve_conflict_with_nogood can return without state.declare_solving(): with a resolver that "
              "learns nothing the state stays Conflict, the stale conflict is resolved again level by level and "
              "a satisfiable model is reported unsatisfiable")


def u24(led, rid, ctx):
    """retention TABLE of the recursive minimiser: a predicate of the learned nogood is dropped only
    when its label is Removable (decided per label from the label comparisons on each path)"""
    lib = ctx.lib
    f = lib.method("RecursiveMinimiser", "remove_dominated_predicates")
    paths = [p for p in SymExec(f, max_paths=600, max_visits=2).run() if not p.diverged]
    labels = ("Poison", "Keep", "Removable")
    n = 0
    for L in labels:
        outcomes = set()
        for p in paths:
            tested = False
            ok = True
            for cond, val, others in p.conds:
                c_ = peel(cond, calls=None)
                neg = False
                while c_.k == "unop" and c_.a == "Not":
                    c_ = peel(c_.b, calls=None)
                    neg = not neg
                if not (c_.k == "call" and c_.a.name in ("eq", "ne") and len(c_.b) == 2):
                    continue
                rhs = peel(c_.b[1], calls=None)
                lhs = peel(c_.b[0], calls=None)
                if rhs.k != "agg":
                    lhs, rhs = rhs, lhs
                if rhs.k != "agg" or not (rhs.a or "").endswith("Label"):
                    continue
                tested = True
                truth = (val != 0) if val is not None else (0 in (others or []))
                is_eq = (L == rhs.b)
                want = is_eq if c_.a.name == "eq" else (not is_eq)
                if neg:
                    want = not want
                if want != truth:
                    ok = False
            if not tested or not ok:
                continue
            kept = any(c.name == "index_mut" for c, a, r in p.calls) or bool(p.stores)
            outcomes.add("kept" if kept else "dropped")
        n += 1
        want_o = {"dropped"} if L == "Removable" else {"kept"}
        led.check(outcomes == want_o, rid, "retain:%s" % L, f.span, "%s → %s" % (L, sorted(want_o)[0]),
                  "remove_dominated_predicates %s a predicate labelled %s (expected: %s): a predicate that is "
                  "not implied by the rest of the nogood is removed, the minimised nogood is too strong and "
                  "cuts off solutions" % ("/".join(sorted(outcomes)) or "never decides", L, sorted(want_o)[0]))
    led.floor(rid, "labels decided", n, 3)


def clause_to_nogood_shape(lib):
    """How add_clause turns its `predicates` into the nogood it stores.  Returns (ok, detail, site):
    ok iff the nogood consists of exactly the negation of every given predicate, in one of the two
    forms maintainers write: the iterator chain into_iter → map(|p| !p) → collect, or a loop that
    pushes !p for every p of the iteration onto a fresh vector that is not touched otherwise."""
    fs = [f for f in lib.fns.values() if f.name == "add_clause" and "ConstraintSatisfactionSolver" in f.defn]
    if len(fs) != 1:
        raise AnchorMissing("ConstraintSatisfactionSolver::add_clause")
    f = fs[0]
    R = resolver(f)
    cs = f.calls_named("add_nogood")
    if not cs:
        raise AnchorMissing("add_nogood in add_clause")
    PASS = ("collect", "map", "into_iter", "iter", "copied", "cloned", "into", "from_iter", "to_vec")
    c = cs[0]
    e = R.operand(c.args[1])
    names = [x.a.name for x in e.walk() if x.k == "call"]
    if any(x.k == "arg" and x.a == 2 for x in e.walk()):
        other = [n_ for n_ in names if n_ not in PASS]
        if other:
            return False, "passes its predicates through %s before they reach add_nogood" % ", ".join(other), c.span
        clos = [x for x in e.walk() if x.k == "closure"]
        if len(clos) != 1:
            return False, "maps %d closures over its predicates" % len(clos), c.span
        g = lib.fns.get(clos[0].a)
        rets = [p.ret for p in SymExec(g).run() if not p.diverged and p.ret is not None] if g else []
        ok = bool(rets) and all(peel(r, calls=None).k == "call" and peel(r, calls=None).a.name == "not"
                                and peel(peel(r, calls=None).b[0], calls=None).k == "arg" for r in rets)
        if not ok:
            return False, "maps its predicates to %s rather than to their negation" % [show(r)[:60] for r in rets], c.span
        return True, " → ".join(reversed(names)), c.span
    # loop form: the argument is a vector built in this function
    vec = root_local(f, c.args[1])
    ctor = [d for d in f.whole_defs(vec) if d[0] == "call" and d[2].name in ("new", "with_capacity", "default")]
    if vec is None or not ctor:
        return False, "hands add_nogood %s, which is neither derived from `predicates` nor a vector built here" % show(e)[:60], c.span
    pushes = 0
    for x in f.calls:
        if not x.args:
            continue
        tys = x.term.get("arg_tys") or [""]
        if not tys[0].lstrip().startswith("&mut") or root_local(f, x.args[0]) != vec:
            continue
        if x.name in ("reserve", "shrink_to_fit"):
            continue
        if x.name != "push":
            return False, "modifies the nogood with `%s` before it is stored" % x.name, x.span
        v = peel(R.operand(x.args[1]), calls=None)
        inner = peel(v.b[0], calls=None) if v.k == "call" and v.a.name == "not" and v.b else None
        from_iter = inner is not None and any(y.k == "call" and y.a.name == "next" for y in inner.walk()) and \
            any(y.k == "arg" and y.a == 2 for y in inner.walk()) and \
            not any(y.k == "call" and y.a.name not in ("next", "into_iter", "iter", "copied", "cloned") for y in inner.walk())
        if not from_iter:
            return False, "pushes %s rather than the negation of the predicate being iterated" % show(v)[:70], x.span
        # the push happens for every element: its block is dominated by the Some edge only
        extra = [show(g.atom)[:50] for g in guards_of(f, x.bb)
                 if not (g.kind == "variant" and peel(g.atom, calls=None).k == "call"
                         and peel(g.atom, calls=None).a.name == "next")
                 and f.cfg.reaches(x.bb, [g.edge.node], strict=True)]
        if extra:
            return False, "pushes the negation only if %s" % ", ".join(extra), x.span
        pushes += 1
    if pushes != 1:
        return False, "has %d pushes onto the nogood" % pushes, c.span
    return True, "for p in predicates { nogood.push(!p) }", c.span


def u29(led, rid, ctx):
    """CLAUSE-PASS-THROUGH: add_clause hands the nogood propagator exactly the negation of every
    predicate it was given (iterator chain or push loop).  Anything else in between rewrites the
    clause, and its correctness is a theorem about predicates no rule here has checked."""
    ok, detail, site = clause_to_nogood_shape(ctx.lib)
    led.check(ok, rid, "add_clause:chain", site, detail,
              "add_clause %s: the clause that is stored is a rewriting of the clause that was given "
              "(merged, filtered or reordered literals)" % detail)


def run(ctx, led):
    run_rule(led, "U1", "Infeasible is declared only for a conflict at decision level 0", u1, ctx)
    run_rule(led, "U2", "no fabricated reason reference; None reason only for decisions, assumptions, "
             "root posts and new variables (WHO-MAY)", shared.no_fabricated_reason, ctx)
    run_rule(led, "U3", "an Err from a posting function is preceded by recording the conflict or guarded "
             "by an inconsistent state", u3, ctx)
    run_rule(led, "U4", "a learned nogood asserts ¬nogood[0] with the lazy reason of its own id, after "
             "both watchers", u4, ctx)
    run_rule(led, "U5", "kernel predicate TABLES: negation, constructor → variant, post_predicate → "
             "mutator, add_clause negates every literal", u5, ctx)
    from . import C07
    run_rule(led, "U6", "SWAP-REMOVE-SKIP and nogood deletion discipline in the kernel the verdicts rely on (shared with C13-F1b / C07-J1)", shared.swap_remove_skip, ctx)
    run_rule(led, "U7", "a learned nogood is deleted only if it is not the reason of a trail entry (shared with C07-J1)", C07.j1, ctx)
    run_rule(led, "U5b", "posting is total: a predicate is skipped only when it already holds", u5b, ctx)
    from . import predrules
    run_rule(led, "U8", "every reason the kernel derives for a predicate that is true without being on the trail implies that predicate (TABLE over the implicit-reason match, decided on a small integer window)", predrules.implicit_reasons, ctx)
    run_rule(led, "U9", "Predicate negation is the exact complement on the same variable (TABLE)", predrules.negation_exact, ctx)
    run_rule(led, "U10", "Assignments::evaluate_predicate is exact on every domain shape (TABLE over all 31 domains of a 5-value universe)", predrules.evaluate_exact, ctx)
    run_rule(led, "U11", "every solve starts from exactly the assumptions it was given (shared with C05-A3)", shared.assumptions_overwritten, ctx)
    run_rule(led, "U12", "label TABLE of the recursive nogood minimiser", u12, ctx)
    from . import C07 as _C07
    run_rule(led, "U13", "no-learning resolver: the flipped decision carries a reason covering every earlier decision level (shared with C07-J7)", _C07.j7, ctx)
    from . import watchrules
    run_rule(led, "U14", "WAKE: each watcher loop of the nogood propagator looks at exactly the watchers whose predicate became true (decided on all old/new domain pairs of a 5-value universe)", watchrules.wake, ctx)
    run_rule(led, "U15", "READD: loops that copy nogood watchers back run to the number of watchers", watchrules.readd, ctx)
    run_rule(led, "U16", "routing TABLE of conflict analysis (root facts dropped, current level / non-decisions resolved, the rest learned)", u16, ctx)
    run_rule(led, "U17", "learned nogood ordered by trail position, backjump level = level of the second predicate, loop bound per analysis mode", u17, ctx)
    from . import minimiser
    run_rule(led, "U18", "semantic minimiser: every folding step maps the values a record stands for to exactly those satisfying the folded predicate (decided on all records of a 5-value window)", minimiser.steps_exact, ctx)
    run_rule(led, "U30", "every Option<bool> evaluator of a predicate (discovered by signature) is sound on all domains of a 5-value universe", predrules.evaluators_sound, ctx)
    run_rule(led, "U29", "CLAUSE-PASS-THROUGH: add_clause stores exactly the negation of the predicates it was given", u29, ctx)
    run_rule(led, "U28", "SCRATCH-RESET: the semantic minimiser starts every call with empty scratch vectors", minimiser.scratch_reset, ctx)
    run_rule(led, "U19", "semantic minimiser: the emitted predicates describe the record exactly relative to the root domain; holes leave the bounds before redundant holes are dropped", minimiser.emission_exact, ctx)
    from . import C07 as _C07b
    run_rule(led, "U20", "a permanent nogood (blocking clause) is stored in its preprocessed form (shared with C07-J10)", _C07b.j10, ctx)
    from . import C09 as _C09r
    run_rule(led, "U21", "lazy reasons of reified propagators keep the reification literal (shared with C09-R7)", _C09r.r7, ctx)
    run_rule(led, "U22", "equality halves are merged in the first semantic pass when minimisation is off", u22, ctx)
    run_rule(led, "U23", "conflict resolution always returns in the Solving state (MUST-PASS)", u23, ctx)
    run_rule(led, "U24", "retention TABLE of the recursive minimiser: only Removable predicates are dropped", u24, ctx)
    from . import C07 as _C07c
    run_rule(led, "U25", "an equality decision is read back in the order and arity it was written with (shared with C07-J5)", _C07c.j5, ctx)
    from . import C05 as _C05b, C17 as _C17b
    run_rule(led, "U26", "dropping an unsatisfiable-under-assumptions result restores the root state, so the next verdict is about the model (shared with C05-A1)", _C05b.a1, ctx)
    run_rule(led, "U27", "the …_at_trail_position queries agree on the inclusive position convention and look at the time of each hole (shared with C17-L16)", _C17b.l16, ctx)
    from . import kernel as _kernel
    _kernel.run_bundle(led, ctx, "U")
    from . import kernel as _kernel2
    _kernel2.run_lifecycle(led, ctx, "U")

"""C01 — every returned solution satisfies the whole model (structural clauses S1–S5)."""
from ..main import run_rule
from ..flow import (resolver, peel, guards_of, rel_fact, aggregates, show, call_guarded, edge_facts,
                    root_local)
from ..facts import AnchorMissing
from ..symexec import SymExec
from . import C04, C10, shared

LEVEL = ('decides: a solution handed out is the snapshot taken while the solver still holds it, never '
         'after the root was restored (S1); the placeholder solution never escapes (S2, shared with '
         'C04-O5); a decision is made — and a solution declared — only at a conflict-free propagation '
         'fix-point and only when the brancher proposes nothing AND no domain is unassigned (S3/S3b); '
         'decision-level bookkeeping is paired over all trailed structures and backtracking notifies '
         'every propagator and the brancher (S4); a propagator that overrides notify_backtrack '
         'registers for backtrack events and vice versa, one that overrides notify registers variables'
         ' (S5); event routing tables of the watch lists and of the domain mutators (S5b); posting a '
         'predicate is never silently dropped (shared with C02-U5b); API returns happen at decision '
         'level 0 (typestate). a watcher registration is skipped only for an identical (propagator, '
         'local id) pair (S5c); affine views translate bounds/predicates with the right inner '
         'operation, rounding and divisibility guard (S8–S10, shared with C12); evaluate_predicate and'
         ' Predicate negation are exact, decided on all domains of a 5-value universe (S11/S12); the '
         'nogood propagator looks at exactly the watchers whose predicate became true and never drops '
         'an unvisited watcher (S13/S14, WAKE/READD decided on all old⊇new domain pairs). the '
         'arithmetic constraint builders and their negations mean what their names say (S15 = C09-R10,'
         ' linear-form abstract evaluation); all_different posts x_i != x_j for every pair i < j '
         '(S16). Also runs the KERNEL BUNDLE (rule ids …K<n>): the kernel rules every verdict depends '
         'on — predicate algebra, nogood watchers, minimisers, conflict-analysis tables, nogood '
         'deletion, decision read-back, no-learning resolver, constraint builders, reified reasons — '
         'wherever they are not already registered here under another id. backtrack resets the '
         'notification cursor of the trail (S17). no post / implied_by returns Ok(()) without posting '
         '(S18 MUST-PASS on path summaries) and every public variable constructor reaches exactly one '
         'engine constructor (S19 API-FORWARD) — both forbid input-dependent shortcuts, justified '
         'exceptions are listed in a table. The fallback scan for unfixed variables covers every '
         'domain (S3c). Does not decide that any propagator detects every violation once its variables'
         ' are fixed')
TECHNIQUE = "static analysis: must-pass / dominance / paired-set / override⇒declare / table rules over rustc MIR"


def feasible_edges(f):
    out = []
    for bb in f.cfg.edges:
        for fa in edge_facts(f, bb):
            if fa.kind == "variant" and not fa.neg and fa.val == "Feasible":
                a = peel(fa.atom, calls=None)
                if a.k == "call" and a.a.name in ("solve", "solve_under_assumptions"):
                    out.append(fa.edge)
    return out


def s1(led, rid, ctx):
    lib = ctx.lib
    fns = [lib.method("Solver", "satisfy"), lib.method("Solver", "satisfy_under_assumptions"),
           C04.optimise_fn(lib, "LinearSatUnsat"), C04.optimise_fn(lib, "LinearUnsatSat")]
    n = 0
    def own_sites(g):
        Rg = resolver(g)
        sn = []
        for c in g.calls:
            if c.name == "update_best_solution_and_process":
                sn.append(c.bb)
            if c.name in ("into", "from") and c.args:
                e = Rg.operand(c.args[0])
                if any(x.name == "get_solution_reference" for x in e.calls()):
                    sn.append(c.bb)
        rs = [c.bb for c in g.calls if c.name in ("restore_state_at_root", "backtrack")]
        return sn, rs

    for f in fns:
        snaps, restores = own_sites(f)
        # helpers of the same file: a helper that copies the solution before it restores counts as a copy,
        # one that restores without having copied counts as a restore
        for c in f.calls:
            for h in lib.callees(c):
                if h is f or h.file != f.file or h.kind == "Closure" or h in fns:
                    continue
                hs, hr = own_sites(h)
                if not hs and not hr:
                    continue
                early = bool(hr) and h.cfg.reaches(0, hr, avoid=hs, strict=False)
                if hs and not early and all(any(h.cfg.dominates(x, r) for x in hs) for r in h.cfg.returns):
                    snaps.append(c.bb)
                elif hr:
                    restores.append(c.bb)
        label = (f.self_adt or "").rsplit("::", 1)[-1] + "::" + f.name
        for e in feasible_edges(f):
            n += 1
            bad = f.cfg.reaches(e.node, restores, avoid=snaps, strict=False)
            led.check(not bad, rid, "%s:Feasible@bb%d" % (label, 0 if not bad else 1), "%s:%d" % (f.file, f.blocks[e.src]["line"]),
                      "the solution is copied before the root state is restored",
                      "%s can restore the root state after a Feasible solve before the solution has been "
                      "copied out: the `solution` would be the root domains — a partial assignment" % label)
            led.check(bool(snaps), rid, "%s:snapshots" % label, f.span, "", "%s never copies the solution out" % label)
        # the snapshot is what is returned / handed to the callback
    led.floor(rid, "Feasible arms", n, 6)


def s3(led, rid, ctx):
    lib = ctx.lib
    f = __import__("lint.props.shared", fromlist=["x"]).solve_internal(lib)
    cfg = f.cfg
    props = f.calls_named("propagate")
    for c in f.calls_named("make_next_decision"):
        ok1 = any(cfg.dominates(p.bb, c.bb) for p in props)
        ok2 = call_guarded(f, c.bb, "no_conflict", True) is not None
        led.check(ok1 and ok2, rid, "decide-at-conflict-free-fixpoint", c.span,
                  "make_next_decision dominated by propagate() and by no_conflict() true",
                  "a decision (or the declaration of a solution) can happen without propagation having "
                  "run to a conflict-free fix-point")
    # who declares a solution
    who = set()
    for g in lib.fns.values():
        for c in g.calls:
            if c.name == "declare_solution_found":
                who.add((g.parent or g.defn).rsplit("::", 1)[-1])
    led.check(who == {"make_next_decision"}, rid, "who-declares-solution", None, "only make_next_decision",
              "declare_solution_found is called from %s" % sorted(who))
    m = lib.method("ConstraintSatisfactionSolver", "make_next_decision")
    for c in m.calls_named("declare_solution_found"):
        none_facts = [fa for fa in guards_of(m, c.bb) if fa.kind == "variant" and not fa.neg and fa.val == "None"]
        dep_brancher = False
        dep_total = False
        for fa in none_facts:
            e = fa.atom
            calls = list(e.calls())
            closures = [x for x in e.walk() if x.k == "closure"]
            for cl in closures:
                g = lib.fns.get(cl.a)
                if g is not None:
                    for h in g.with_closures():
                        calls.extend(h.calls)
            names = {x.name for x in calls}
            if "next_decision" in names:
                dep_brancher = True
            if names & {"is_domain_assigned", "are_all_variables_assigned", "is_integer_fixed"} and \
                    names & {"get_domains", "are_all_variables_assigned"}:
                dep_total = True
        led.check(dep_brancher, rid, "solution-only-if-brancher-has-nothing", c.span,
                  "on the None edge of a value derived from Brancher::next_decision",
                  "a solution is declared on a path that does not depend on the brancher having nothing "
                  "left to propose")
        led.check(dep_total, rid, "S3b:solution-is-total", c.span,
                  "the None also depends on a scan for unassigned domains",
                  "a solution is declared as soon as the brancher proposes nothing; a brancher is only "
                  "responsible for its own variables (C18), so a variable created after the brancher — or "
                  "outside a user brancher — stays unassigned and the returned Solution has no value for it")


def s3c(led, rid, ctx):
    """the scan that backs S3b looks at every domain: between get_domains() and the search for an
    unassigned one there is no adaptor that leaves domains out (skip / take / step_by / …) — a
    resumed scan is only right if every way of unfixing a variable resets the resume point, which
    the conflict-analysis backjump (an associated function without access to the solver's fields)
    cannot do"""
    lib = ctx.lib
    m = lib.method("ConstraintSatisfactionSolver", "make_next_decision")
    OUT = ("skip", "take", "step_by", "skip_while", "take_while", "nth", "last", "rev_skip", "filter", "filter_map")
    n = 0
    for g in m.with_closures():
        R = None
        for c in g.calls:
            if c.name not in ("find", "any", "all", "position", "find_map", "next", "try_fold", "fold") or not c.args:
                continue
            R = R or resolver(g)
            e = R.operand(c.args[0])
            names = [x.a.name for x in e.walk() if x.k == "call"]
            if "get_domains" not in names:
                continue
            n += 1
            bad = [x for x in names if x in OUT]
            led.check(not bad, rid, "S3c:scan-covers-all-domains", c.span, " → ".join(reversed(names)) + " → " + c.name,
                      "the scan for a variable the brancher left unfixed passes the domains through `%s`: domains "
                      "that are left out are taken to be fixed, and after a backjump that unfixes one of them a "
                      "partial assignment is declared a solution" % ", ".join(bad))
    # a loop form of the scan: an index loop over the domains must start at zero
    led.floor(rid, "scans over get_domains() in make_next_decision", n, 1)


def s4(led, rid, ctx):
    lib = ctx.lib
    up = lib.method("ConstraintSatisfactionSolver", "declare_new_decision_level")
    R = resolver(up)
    incs = set()
    for c in up.calls:
        if c.name == "increase_decision_level":
            incs.update(x for x in R.operand(c.args[0]).fields())
    down = lib.method("ConstraintSatisfactionSolver", "backtrack")
    Rd = resolver(down)
    syncs = set()
    for c in down.calls:
        if c.name == "synchronise" and not c.trait:
            e = peel(Rd.operand(c.args[0]), calls=None)
            if e.k == "arg":
                syncs.add(down.local_name(e.a))
    want = {"assignments", "stateful_assignments", "reason_store"}
    led.check(incs == want, rid, "levels-increased", up.span, "increase_decision_level on %s" % sorted(incs),
              "declare_new_decision_level increases the level of %s (expected %s)" % (sorted(incs), sorted(want)))
    led.check(syncs == want, rid, "levels-synchronised", down.span, "synchronise on %s" % sorted(syncs),
              "backtrack synchronises %s but levels are increased on %s: a structure that is not rolled "
              "back makes later propagation work on stale data" % (sorted(syncs), sorted(want)))
    names = []
    for g in down.with_closures():
        names += [(c.name, c.trait_item) for c in g.calls]
    need = {("synchronise", "Propagator::synchronise"), ("on_backtrack", "Brancher::on_backtrack"),
            ("on_unassign_integer", "Brancher::on_unassign_integer"), ("synchronise", "Brancher::synchronise"),
            ("process_backtrack_events", None), ("clear", None)}
    for nm, ti in sorted(need, key=str):
        ok = any(n == nm and (ti is None or t == ti) for n, t in names)
        led.check(ok, rid, "backtrack-calls:%s" % (ti or nm), down.span, "",
                  "backtrack no longer calls %s" % (ti or nm))


def overrides(imp, name):
    return name not in imp["defaulted"]


def s5_propagator_events(led, rid, ctx, only=None):
    lib = ctx.lib
    n = 0
    for imp in lib.impls_of("propagator::Propagator"):
        if "/tests" in imp["span"] or (only and only not in imp["span"]):
            continue
        wname = (imp["self_adt"] or "?").rsplit("::", 1)[-1]
        init = lib.impl_fn(imp, "initialise_at_root")
        if init is None:
            continue
        from . import C18
        wrapper = bool([t for t in C18.children(lib, imp).values() if t == "Propagator"])
        calls = []
        for g in lib.closure_of([init], stop=lambda h: "/engine/" in h.file and h is not init):
            calls += [c for c in g.calls]
        reg_tasks = [c for c in calls if c.name == "register_tasks"]
        # register_tasks(tasks, context, flag) registers for backtrack events only under its flag
        from ..facts import op_const_int
        reg_tasks_bt = [c for c in reg_tasks if not (len(c.args) >= 3 and op_const_int(c.args[2]) == 0)]
        reg_bt = [c for c in calls if c.name == "register_for_backtrack_events" and
                  not ((c.fn.parent or c.fn.defn).endswith("register_tasks"))]
        if reg_tasks_bt:
            reg_bt_conditional = True
        else:
            reg_bt_conditional = False
        reg = [c for c in calls if c.name in ("register", "register_literal")]
        has_bt = overrides(imp, "notify_backtrack")
        n += 1
        if wrapper:
            led.ok(rid, "%s:wrapper" % wname, imp["span"], "forwards initialise_at_root and the handlers (C09-R2)")
            continue
        if has_bt:
            ok = bool(reg_bt) or bool(reg_tasks_bt)
            led.check(ok, rid, "%s:backtrack-handler-registered" % wname, init.span,
                      "overrides notify_backtrack and registers for backtrack events",
                      "%s overrides notify_backtrack but never registers for backtrack events: its cached "
                      "state is never told about a backtrack" % wname)
            if reg_tasks and not reg_bt:
                # registration is conditional on a flag: the !flag path must rebuild in synchronise
                sync = lib.impl_fn(imp, "synchronise")
                ok2 = sync is not None and any(c.name in ("reset_all_bounds_and_remove_fixed",) for c in sync.calls)
                led.check(ok2, rid, "%s:non-incremental-path-rebuilds" % wname, (sync or init).span,
                          "synchronise resets from scratch when backtrack events are not registered",
                          "%s registers for backtrack events only under a flag but its synchronise does "
                          "not rebuild on the other path" % wname)
        else:
            led.check(not reg_bt and not reg_bt_conditional, rid, "%s:no-dangling-backtrack-registration" % wname, init.span,
                      "no backtrack registration without a handler",
                      "%s registers for backtrack events but does not override notify_backtrack" % wname)
        if wname == "NogoodPropagator":
            led.ok(rid, "%s:registers-variables" % wname, init.span, "exception: the nogood propagator is "
                   "notified through its own predicate watch lists (notify_nogood_propagator)")
        else:
            led.check(bool(reg) or bool(reg_tasks), rid, "%s:registers-variables" % wname, init.span,
                      "registers at least one variable", "%s::initialise_at_root registers no variable: "
                      "it would never be woken up" % wname)
    led.floor(rid, "propagators", n, 4 if only else 12)


def s5(led, rid, ctx):
    s5_propagator_events(led, rid, ctx)


EVENT_FIELD = {"Assign": "assign_watchers", "LowerBound": "lower_bound_watchers",
               "UpperBound": "upper_bound_watchers", "Removal": "removal_watchers"}


def s5b(led, rid, ctx):
    lib = ctx.lib
    rows = 0
    for owner, name, side in (("WatchListCP", "get_affected_propagators", "forward_watcher"),
                              ("WatchListCP", "get_backtrack_affected_propagators", "backtrack_watcher"),
                              ("Watchers", "watch_all", "forward_watcher"),
                              ("Watchers", "watch_all_backtrack", "backtrack_watcher")):
        from .shared import method_view as _mv
        f = _mv(lib, owner, name)         # a per-event selector method of the watcher is spliced in
        for bb in f.cfg.edges:
            for fa in edge_facts(f, bb):
                if fa.kind != "variant" or fa.neg or fa.val not in EVENT_FIELD:
                    continue
                t = f.blocks[bb]["term"]
                cond = resolver(f).operand(t["discr"])
                if not (cond.k == "discr" and (cond.b or "").endswith("IntDomainEvent")):
                    continue
                # the arm's first block selects the list
                fields = None
                blk = f.blocks[fa.edge.dst]
                Rf = resolver(f)
                for s in blk["stmts"]:
                    if s["s"] == "assign" and s["rv"]["r"] == "ref":
                        nm = [e.get("name") for e in s["rv"]["place"]["proj"] if "field" in e]
                        if nm and nm[-1].endswith("_watchers"):
                            # the whole field path, through the receiver a selector method was called with
                            full = [x for x in Rf.rvalue(s["rv"]).fields() if x and x != nm[-1]]
                            fields = [x for x in full if x not in nm] + nm
                rows += 1
                ok = fields is not None and fields[-1] == EVENT_FIELD[fa.val] and side in fields
                led.check(ok, rid, "%s:%s" % (name, fa.val), "%s:%d" % (f.file, blk["line"]),
                          "%s → %s.%s" % (fa.val, side, EVENT_FIELD[fa.val]),
                          "%s routes %s events to %s (expected %s.%s): propagators watching that event are "
                          "never notified" % (name, fa.val, ".".join(fields or ["?"]), side, EVENT_FIELD[fa.val]))
    led.floor(rid, "routing rows", rows, 16)


def s5c(led, rid, ctx):
    """a watcher registration is skipped only when the identical (propagator, local id) pair is
    already in the list"""
    lib = ctx.lib
    n = 0
    for name in ("watch_all", "watch_all_backtrack"):
        f = lib.method("Watchers", name)
        R = resolver(f)
        for c in f.calls_named("push"):
            arg = peel(R.operand(c.args[1]), calls=None) if len(c.args) > 1 else None
            if arg is None or "propagator_var" not in arg.fields():
                continue
            n += 1
            bad = None
            for fa in guards_of(f, c.bb):
                if fa.kind != "bool":
                    continue
                a = peel(fa.atom, calls=None)
                while a.k == "unop" and a.a == "Not":
                    a = peel(a.b, calls=None)
                mentions = "propagator_var" in a.fields() or any(
                    "propagator_var" in cap.fields() for x in a.walk() if x.k == "closure" for cap in x.b)
                if not mentions:
                    continue
                if a.k == "call" and a.a.name == "contains":
                    needle = peel(a.b[-1], calls=None)
                    flds = [e.get("name") for e in (needle.b or []) if "field" in e] if needle.k == "proj" else []
                    if flds and flds[-1] == "propagator_var":
                        continue
                    bad = "tests `contains(%s)`" % show(needle)[:80]
                else:
                    # a hand-written search: both components must be compared
                    compared = set()
                    for x in a.walk():
                        if x.k == "closure":
                            g = lib.fns.get(x.a)
                            if g is None:
                                continue
                            Rg = resolver(g)
                            for c2 in g.calls:
                                if c2.name in ("eq", "ne"):
                                    for ar in c2.args:
                                        fl = peel(Rg.operand(ar), calls=None).fields()
                                        compared |= {q for q in fl if q in ("propagator", "variable")}
                                        if fl and list(fl)[-1:] == ["propagator_var"] or \
                                                (not ({"propagator", "variable"} & set(fl)) and "propagator_var" in fl):
                                            compared |= {"propagator", "variable"}
                    if compared >= {"propagator", "variable"}:
                        continue
                    bad = "compares only %s of the registration" % (sorted(compared) or "part")
            led.check(bad is None, rid, "%s:skip-only-identical" % name, c.span,
                      "skipped only if the same (propagator, local id) is present",
                      "Watchers::%s skips a registration when it %s: the second occurrence of a variable "
                      "in one constraint (another local id of the same propagator) is never notified, and "
                      "the propagator works with stale bounds for it" % (name, bad))
    led.floor(rid, "watcher registrations", n, 2)


def s16(led, rid, ctx):
    """PAIR-LOOP: all_different posts x_i != x_j for every unordered pair i < j exactly"""
    lib = ctx.lib
    fs = [f for d, f in lib.fns.items() if d.endswith("constraints::all_different::all_different")]
    if len(fs) != 1:
        raise AnchorMissing("constraints::all_different")
    f = fs[0]
    R = resolver(f)
    ranges = []
    for b, i, st in aggregates(f, None):
        e = R.rvalue(st["rv"])
        if e.k == "agg" and (e.a or "").split("::")[-1] in ("Range", "RangeInclusive"):
            ranges.append(e)
    outer = [r for r in ranges if peel(r.c[0], calls=None).k == "const" and peel(r.c[0], calls=None).a == 0
             and r.a.split("::")[-1] == "Range"]
    inner = [r for r in ranges if r not in outer]
    ok = len(outer) == 1 and len(inner) == 1
    why = "expected one loop from 0 and one nested loop (found %d ranges)" % len(ranges)
    if ok:
        o, n_ = outer[0], inner[0]
        st_ = peel(n_.c[0], calls=None)
        from_outer = lambda x: any(y.k == "agg" and y is not n_ and peel(y.c[0], calls=None).k == "const"
                                   for y in x.walk()) and any(c.name == "next" for c in x.calls())
        ends_ok = show(peel(o.c[1], calls=None)) == show(peel(n_.c[1], calls=None)) and \
            any(c.name == "len" for c in o.c[1].calls()) and n_.a.split("::")[-1] == "Range"
        start_ok = st_.k == "binop" and st_.a == "Add" and peel(st_.c, calls=None).k == "const" and \
            peel(st_.c, calls=None).a == 1 and from_outer(st_.b)
        ok = ends_ok and start_ok
        why = "the inner loop runs over %s (it must run from i + 1 to the number of variables)" % show(n_)[:120]
    led.check(ok, rid, "all_different:pairs-i<j", f.span, "for i in 0..n, for j in i+1..n",
              "all_different: %s: a pair of variables is skipped (two variables may then be equal) or a variable "
              "is required to differ from itself" % why)
    ne = f.calls_named("binary_not_equals")
    ok2 = False
    if len(ne) == 1 and ok:
        idx = []
        for a_ in ne[0].args:
            e = R.operand(a_)
            ls = [pr["index"] for x in e.walk() if x.k == "proj" for pr in (x.b or []) if "index" in pr]
            if len(ls) == 1:
                ie = R.operand({"copy": {"local": ls[0], "proj": []}})
                idx.append("inner" if "Add" in show(ie) else "outer")
        ok2 = sorted(idx) == ["inner", "outer"]
    led.check(ok2, rid, "all_different:posts-x_i!=x_j", f.span, "binary_not_equals(x[i], x[j])",
              "all_different does not post binary_not_equals on the two loop indices")


# justified exceptions of S18 / S19: "<Type>::<method>" or "new_<ctor>" -> one line of reason
# (a fast path whose condition has been argued correct by hand).  Empty on the pinned tree.
JUSTIFIED = {}

POSTING = ("add_clause", "add_propagator", "add_tagged_propagator", "implied_by", "post", "add_nogood", "new_propagator")


def s18(led, rid, ctx):
    """MUST-PASS on the path summaries of every Constraint::post / implied_by: a path that returns a
    freshly built Ok(()) has called something that posts (directly, or in a closure it hands to an
    iterator), or went through a loop over the constraint's parts.  A branch that returns Ok without
    posting is a constraint that is silently dropped for the inputs that take it."""
    lib = ctx.lib

    def posts_in(g):
        return any(c.name in POSTING for c in g.calls) or any(posts_in(h) for h in g.closures)

    n = 0
    for imp in lib.impls_of("constraints::Constraint"):
        if "/tests" in imp["span"]:
            continue
        w = (imp.get("self_adt") or imp["self_ty"]).rsplit("::", 1)[-1]
        for meth in ("post", "implied_by"):
            f = lib.impl_fn(imp, meth)
            if f is None:
                continue
            heads = set(f.cfg.loop_heads())
            clos = {g.defn for g in f.closures if posts_in(g)}
            silent = None
            paths = 0
            for p in SymExec(f, max_paths=400, max_visits=2).run():
                if p.diverged or p.ret is None:
                    continue
                paths += 1
                r = peel(p.ret, calls=None)
                if not (r.k == "agg" and r.b == "Ok"):
                    continue
                posted = False
                for c, a, res in p.calls:
                    if c.name in POSTING:
                        posted = True
                    for x in a:
                        for y in x.walk():
                            if y.k == "closure" and y.a in clos:
                                posted = True
                if not posted and not any(b in heads for b in p.blocks) and silent is None:
                    silent = ", ".join("%s = %s" % (show(c)[:50], v) for c, v, o in p.conds) or "unconditionally"
            n += 1
            if silent is not None and "%s::%s" % (w, meth) in JUSTIFIED:
                led.ok(rid, "%s::%s:every-Ok-path-posts" % (w, meth), f.span, "JUSTIFIED: " + JUSTIFIED["%s::%s" % (w, meth)])
                continue
            led.check(silent is None and paths > 0, rid, "%s::%s:every-Ok-path-posts" % (w, meth), f.span,
                      "%d path summaries" % paths,
                      "%s::%s returns Ok(()) without posting anything when %s: for those inputs the constraint is "
                      "not part of the model, and assignments that violate it are reported as solutions"
                      % (w, meth, silent))
    led.floor(rid, "post / implied_by implementations", n, 20)


def s19(led, rid, ctx):
    """API-FORWARD: each public variable constructor of `Solver` reaches exactly one engine
    constructor (through helpers of api/solver.rs): the representation of a domain is not chosen by
    an input-dependent branch in the API layer, whose correctness no rule here could argue"""
    lib = ctx.lib
    n = 0
    sets = {}
    for f in lib.fns.values():
        if not f.file.endswith("api/solver.rs") or not f.name.startswith("new_") or f.kind == "Closure" \
                or "Solver" not in (f.self_ty or f.defn) or f.vis != "pub":
            continue
        seen, eng, todo = set(), {}, [f]
        while todo:
            g = todo.pop()
            if g.defn in seen:
                continue
            seen.add(g.defn)
            todo += list(g.closures)
            for c in g.calls:
                for h in lib.callees(c):
                    if h.file.endswith("api/solver.rs"):
                        todo.append(h)
                    elif "/engine/" in h.file and h.name.startswith(("create_new", "new_")):
                        eng.setdefault(h.name, c.span)
        n += 1
        sets[f.name] = sorted(eng)

        def must_reach(g, depth=0):
            """some call that dominates every return of g is an engine constructor or a helper that must reach one"""
            for c in g.calls:
                if not all(g.cfg.dominates(c.bb, r) for r in g.cfg.returns):
                    continue
                for h in lib.callees(c):
                    if "/engine/" in h.file and h.name.startswith(("create_new", "new_")):
                        return True
                    if h.file.endswith("api/solver.rs") and depth < 3 and h is not g and must_reach(h, depth + 1):
                        return True
            # a lazily evaluated iterator: the parent is branch-free and its closure must reach the constructor
            if not any(b["term"]["t"] == "switch" for b in g.blocks if not b.get("cleanup")):
                return any(must_reach(h, depth + 1) for h in g.closures) if depth < 3 else False
            return False
        if len(eng) == 1 and f.name not in JUSTIFIED:
            led.check(must_reach(f), rid, "%s:constructor-on-every-path" % f.name, f.span, "dominates every return",
                      "Solver::%s can return without calling %s: some inputs are answered by a shortcut in the API "
                      "layer (a constant literal, an existing variable) whose condition no rule here can argue"
                      % (f.name, sorted(eng)[0]))
        if len(eng) != 1 and f.name in JUSTIFIED:
            led.ok(rid, "%s:one-engine-constructor" % f.name, f.span, "JUSTIFIED: " + JUSTIFIED[f.name])
            continue
        led.check(len(eng) == 1, rid, "%s:one-engine-constructor" % f.name, f.span, ", ".join(sorted(eng)),
                  "Solver::%s reaches %s: which kind of domain is created depends on a branch in the API layer "
                  "(%s); if that branch misjudges the input (duplicates, order, emptiness) the variable gets values "
                  "the model did not give it" % (f.name, " and ".join(sorted(eng)) or "no engine constructor",
                                                 ", ".join("%s at %s" % kv for kv in sorted(eng.items()))))
    for a, b in (("new_bounded_integer", "new_named_bounded_integer"), ("new_sparse_integer", "new_named_sparse_integer"),
                 ("new_literal", "new_named_literal")):
        if a in sets and b in sets:
            led.check(sets[a] == sets[b], rid, "%s~%s" % (a, b), None, "same engine constructor",
                      "Solver::%s and Solver::%s create their variable through different engine constructors "
                      "(%s / %s)" % (a, b, sets[a], sets[b]))
    led.floor(rid, "public variable constructors", n, 8)


def s17(led, rid, ctx):
    """after the trail is cut back, the mark up to which propagators have been notified is reset to
    the new trail length on every path (otherwise a later backtrack replays undo events of entries
    the propagators never saw)"""
    lib = ctx.lib
    f = lib.method("ConstraintSatisfactionSolver", "backtrack")
    R = resolver(f)
    cfg = f.cfg
    param = None
    for a in f.args:
        if f.local_name(a["local"]) == "last_notified_cp_trail_index":
            param = a["local"]
    if param is None:
        raise AnchorMissing("parameter last_notified_cp_trail_index of backtrack")
    syncs = [c for c in f.calls if c.name == "synchronise" and "Assignments" in (c.self_ty or c.target_def or "")]
    stores = []
    for b in f.blocks:
        for st in b["stmts"]:
            if st["s"] == "assign" and st["dst"]["local"] == param and st["dst"]["proj"] and "deref" in st["dst"]["proj"][0]:
                e = R.rvalue(st["rv"])
                if any(c.name == "num_trail_entries" for c in e.calls()):
                    stores.append(b["id"])
    ok = bool(syncs) and bool(stores) and all(
        any(cfg.dominates(sy.bb, sb) and all(cfg.dominates(sb, r) for r in cfg.returns) for sb in stores)
        for sy in syncs)
    led.check(ok, rid, "backtrack:notified-mark-reset", f.span,
              "*last_notified_cp_trail_index = num_trail_entries() after synchronise, on every path",
              "backtrack does not reset the notified-trail mark after cutting the trail back: the next "
              "backtrack sends undo notifications for entries no propagator was told about, incremental "
              "propagator state (fixed-term counters, sums) goes negative or stale")


def s_level(led, rid, ctx):
    res = C10.explore(ctx.lib)
    it, apis, B, trans, guards = res
    bad = set()
    n = 0
    for label, b, st2, rt in trans:
        if rt is None or rt[0] != "enum":
            continue
        if rt[2] in ("Satisfiable", "Solution", "Optimal"):
            n += 1
            if st2[1] != 0 or st2[0] not in ("Ready", "Conflict", "Infeasible"):
                key = "%s:%s->%s" % (label, rt[2], C10.short(st2))
                if key not in bad:
                    bad.add(key)
                    led.bad(rid, key, None, "`%s` hands out a solution while the solver is left in %s"
                            % (label, C10.short(st2)))
    if not bad:
        led.ok(rid, "solution-results-at-root", None, "%d solution-carrying returns end at the root" % n)
    led.floor(rid, "solution-carrying returns", n, 4)


def run(ctx, led):
    run_rule(led, "S1", "snapshot before restore: every path from a Feasible solve to the next root "
             "restore passes the copy of the solution (MUST-PASS)", s1, ctx)
    run_rule(led, "S2", "the placeholder Solution::default() never escapes (shared with C04-O5)", C04.o5, ctx)
    run_rule(led, "S3", "decisions and solutions only at a conflict-free fix-point; a solution is total "
             "(S3b)", s3, ctx)
    run_rule(led, "S4", "PAIRED-SET: level increase vs synchronise over the trailed structures; "
             "backtrack notifies propagators and brancher", s4, ctx)
    run_rule(led, "S5", "OVERRIDE⇒DECLARE: backtrack handler ⇔ backtrack registration; propagators "
             "register variables", s5, ctx)
    run_rule(led, "S5b", "event routing TABLES of the watch lists (4 functions × 4 events)", s5b, ctx)
    run_rule(led, "S6", "posting a predicate is never silently dropped (shared with C02-U5b)", _u5b, ctx)
    run_rule(led, "S7", "solution-carrying results are returned with the solver back at the root "
             "(typestate)", s_level, ctx)


def _u5b(led, rid, ctx):
    from .C02 import u5b
    u5b(led, rid, ctx)
    from . import C12 as _C12, predrules
    run_rule(led, "S8", "affine views translate bounds and predicates with the right inner operation and rounding (shared with C12-V1)", _C12.v1, ctx)
    run_rule(led, "S9", "map / invert arithmetic of views (shared with C12-V1a)", _C12.v1_arith, ctx)
    run_rule(led, "S10", "contains / remove / equality / disequality on a view are guarded by the divisibility test (shared with C12-V1d)", _C12.v1_divis, ctx)
    run_rule(led, "S11", "Assignments::evaluate_predicate is exact (shared with C02-U10)", predrules.evaluate_exact, ctx)
    run_rule(led, "S12", "Predicate negation is the exact complement (shared with C02-U9)", predrules.negation_exact, ctx)
    from . import watchrules
    run_rule(led, "S13", "WAKE: each watcher loop of the nogood propagator looks at exactly the watchers whose predicate became true (decided on all old/new domain pairs of a 5-value universe)", watchrules.wake, ctx)
    run_rule(led, "S14", "READD: loops that copy nogood watchers back run to the number of watchers", watchrules.readd, ctx)
    run_rule(led, "S5c", "a watcher registration is skipped only for an identical (propagator, local id) pair", s5c, ctx)
    from . import C09 as _C09
    run_rule(led, "S15", "LINFORM: the arithmetic constraint builders mean what they say (shared with C09-R10)", _C09.r10, ctx)
    run_rule(led, "S16", "PAIR-LOOP: all_different posts x_i != x_j for every pair i < j", s16, ctx)
    run_rule(led, "S3c", "the fallback scan for unfixed variables covers every domain (no resumed / partial scan)", s3c, ctx)
    run_rule(led, "S17", "backtrack resets the notified-trail mark", s17, ctx)
    from . import fznrules as _fz
    run_rule(led, "S20", "ZIP-ALIGNMENT: coefficients and variables are paired position by position in the library and the front ends (shared with C13-F11)", _fz.zip_alignment, ctx)
    run_rule(led, "S19", "API-FORWARD: each public variable constructor reaches exactly one engine constructor", s19, ctx)
    run_rule(led, "S18", "MUST-PASS: no path of a Constraint::post / implied_by returns Ok(()) without posting", s18, ctx)
    from . import kernel as _kernel
    _kernel.run_bundle(led, ctx, "S")
    from . import kernel as _kernel2
    _kernel2.run_lifecycle(led, ctx, "S")

"""C10 — the solver stays usable across any sequence of API calls (state-machine clause)."""
from ..main import run_rule
from ..typestate import Interp
from ..facts import AnchorMissing

LEVEL = ('typestate abstract interpretation of the solver life-cycle (7-variant state × decision level'
         ' 0/+) over the MIR of every API entry point and everything it can call, run to a fix-point '
         'under the most general client (arbitrary sequences of API calls): decides that every API '
         'return leaves the solver in {Ready, Infeasible, root-Conflict} at level 0, that result '
         'variant and state agree, and that no life-cycle assertion can fail. posting and variable-'
         'creating API functions are inert while an inconsistency is recorded (T10) and add_clause / '
         "add_propagator leave at once in every inconsistent state, with the guards' truth tables "
         'interpreted from MIR (T11). The three solver-state kinds are mutually exclusive (T12) and '
         'contains_domain_id / stored-solution extent are exact (T13). SolutionIterator reports '
         'Unsatisfiable only before and Finished only after it handed out a solution (T14 PROTOCOL, '
         'finite abstraction of its flag fields). Does not decide that later answers are correct, nor '
         'the absence of data-dependent panics')
TECHNIQUE = "static analysis: typestate abstract interpretation over rustc MIR (most general client)"
NOTE = ("trusted: rustc MIR/type resolution; the trail level is abstracted to {0,+} with "
        "Assignments::{increase_decision_level,synchronise,get_decision_level} and backtrack as "
        "primitives; data-dependent assertions are assumed to hold; mem::forget of a borrow guard "
        "is not a valid API sequence")

GOOD_BOUNDARY = {"Ready", "Infeasible", "Conflict"}

# result variant -> allowed life-cycle states left behind (T7).  A result that asserts
# satisfiability (or "unknown") must leave the solver Ready; a recorded root conflict may only be
# left behind by a result that reports unsatisfiability (Ready is harmless there: the next solve
# searches again — the interpreter cannot see that `solve` passes no assumptions).
UNSAT_OK = {"Infeasible", "Conflict", "Ready"}
RESULT_TABLE = {
    "SatisfactionResult": {"Satisfiable": {"Ready"}, "Unsatisfiable": UNSAT_OK,
                           "Unknown": {"Ready"}},
    "SatisfactionResultUnderAssumptions": {
        "Satisfiable": {"Ready"}, "Unsatisfiable": UNSAT_OK, "Unknown": {"Ready"},
        "UnsatisfiableUnderAssumptions": {"InfeasibleUnderAssumptions"}},
    "OptimisationResult": {"Optimal": {"Ready"}, "Satisfiable": {"Ready"},
                           "Unsatisfiable": UNSAT_OK, "Unknown": {"Ready"}},
    "IteratedSolution": {"Solution": {"Ready"}, "Finished": UNSAT_OK,
                         "Unsatisfiable": UNSAT_OK, "Unknown": {"Ready"}},
    # Ok with a recorded root conflict (add_nogood finds the conflict by propagation and still
    # returns Ok — the D13 path) keeps every later answer right: the conflict is recorded.  It is a
    # proof-logging defect and is reported under C06-P4, not here.
    "Result": {"Ok": {"Ready", "Conflict"}, "Err": {"Infeasible", "Conflict"}},
}


def api_functions(lib):
    """entry points of the most general client: (label, Fn, kind)"""
    out = []
    for f in lib.fns.values():
        if f.kind != "AssocFn" or not f.args:
            continue
        a0 = f.args[0]["ty"]
        if f.self_adt and f.self_adt.endswith("api::solver::Solver") and f.impl_trait is None:
            if f.vis == "pub" and a0.startswith("&mut ") and "Solver" in a0:
                out.append(("Solver::" + f.name, f, "solver"))
        elif f.self_adt and f.self_adt.endswith("SolutionIterator") and f.name == "next_solution":
            out.append(("SolutionIterator::next_solution", f, "solver"))
        elif f.self_adt and f.self_adt.endswith("ConstraintPoster") and f.vis == "pub" \
                and f.impl_trait is None and f.name in ("post", "implied_by", "reify"):
            out.append(("ConstraintPoster::" + f.name, f, "solver"))
    for imp in lib.impls_of("OptimisationProcedure"):
        f = lib.impl_fn(imp, "optimise")
        if f is not None:
            out.append(("%s::optimise" % (imp["self_adt"] or "?").rsplit("::", 1)[-1], f, "solver"))
    return out


def short(st):
    return "%s/L%s" % (st[0], st[1])


def explore(lib, track_x=None, x0=0):
    it = Interp(lib, track_x=track_x)

    def norm(st):
        return (st[0], st[1], x0 | (st[2] & Interp.ROOT_CONFLICT))

    def good(st):
        return st[0] in GOOD_BOUNDARY and st[1] == 0
    apis = api_functions(lib)
    guard_fns = []
    try:
        guard_fns.append(("UnsatisfiableUnderAssumptions::extract_core",
                          lib.method("UnsatisfiableUnderAssumptions", "extract_core")))
    except AnchorMissing:
        pass
    drop_fn = lib.method("UnsatisfiableUnderAssumptions", "drop", "Drop", required=False)

    def thunk():
        B = {("Ready", 0, x0)}
        trans = []        # (label, entry, exit, result tag)
        guard_states = set()
        changed = True
        while changed:
            changed = False
            for b in sorted(B, key=str):
                for label, f, _k in apis:
                    for (st2, rt) in it.summary(f, b, ()):
                        trans.append((label, b, st2, rt))
                        is_guard = (rt is not None and rt[0] == "enum" and
                                    rt[2] == "UnsatisfiableUnderAssumptions")
                        if is_guard:
                            if st2 not in guard_states:
                                guard_states.add(st2)
                                changed = True
                        elif norm(st2) not in B and good(st2):
                            # a bad boundary state is reported where it arises; exploring on
                            # from it would only cascade
                            B.add(norm(st2))
                            changed = True
            # while the core guard lives only extract_core may run; then it is dropped
            for g in sorted(guard_states, key=str):
                held = {g}
                frontier = [g]
                while frontier:
                    s0 = frontier.pop()
                    for label, gf in guard_fns:
                        for (st2, rt) in it.summary(gf, s0, ()):
                            trans.append((label, s0, st2, rt))
                            if st2 not in held:
                                held.add(st2)
                                frontier.append(st2)
                for h in held:
                    if drop_fn is None:
                        trans.append(("drop(UnsatisfiableUnderAssumptions) [no Drop impl]", h, h, None))
                        if norm(h) not in B and good(h):
                            B.add(norm(h))
                            changed = True
                    else:
                        for (st2, rt) in it.summary(drop_fn, h, ()):
                            trans.append(("drop(UnsatisfiableUnderAssumptions)", h, st2, rt))
                            if norm(st2) not in B and good(st2):
                                B.add(norm(st2))
                                changed = True
        return B, trans, guard_states
    B, trans, guards = it.fixpoint(thunk)
    return it, apis, B, trans, guards


def t_boundary(led, rid, ctx, res):
    it, apis, B, trans, guards = res
    led.floor(rid, "API entry points", len(apis), 20)
    bad_seen = set()
    for label, b, st2, rt in trans:
        is_guard = rt is not None and rt[0] == "enum" and rt[2] == "UnsatisfiableUnderAssumptions"
        if is_guard or label.startswith("UnsatisfiableUnderAssumptions::extract_core"):
            continue
        ok = st2[0] in GOOD_BOUNDARY and st2[1] == 0
        key = "%s->%s" % (label, short(st2))
        if not ok and key not in bad_seen:
            bad_seen.add(key)
            led.bad(rid, key, it.p.fns and next((f.span for l, f, _ in apis if l == label), None),
                    "`%s` entered in %s can return leaving the solver in %s: the next solve asserts "
                    "Ready/Conflict at level 0 (witness entry state %s)"
                    % (label, short(b), short(st2), short(b)))
    for label, f, _k in apis:
        exits = {short(s2) for l, b, s2, rt in trans if l == label}
        if not any(k.startswith(label + "->") for k in bad_seen):
            led.ok(rid, label, f.span, "exits: %s" % ", ".join(sorted(exits)))
    led.count("T2/T3:boundary states", len(B))
    led.count("T2/T3:transitions", len(trans))


def t_result(led, rid, ctx, res):
    it, apis, B, trans, guards = res
    seen = set()
    n = 0
    for label, b, st2, rt in trans:
        if rt is None or rt[0] != "enum":
            continue
        adt = rt[1].rsplit("::", 1)[-1]
        tbl = RESULT_TABLE.get(adt)
        if tbl is None or rt[2] not in tbl:
            continue
        n += 1
        key = "%s:%s::%s->%s" % (label, adt, rt[2], st2[0])
        if key in seen:
            continue
        seen.add(key)
        if st2[0] in tbl[rt[2]]:
            led.ok(rid, key, None, "entry %s" % short(b))
        elif adt == "Result" and rt[2] == "Ok" and tuple(b) == tuple(st2):
            # entered in an inconsistent state, left in the same state with Ok: a posting function that had
            # nothing to post (an empty conjunction).  That everything it *does* post refuses in this state
            # is T10 / T11; here only a change of state under Ok would be wrong.
            seen.discard(key)
            continue
        else:
            led.bad(rid, key, next((f.span for l, f, _ in apis if l == label), None),
                    "`%s` returns %s::%s while leaving the solver in state %s (allowed: %s); "
                    "witness entry state %s" % (label, adt, rt[2], st2[0],
                                                "/".join(sorted(tbl[rt[2]])), short(b)))
    led.floor(rid, "result/state pairs", len(seen), 12)


def t_assert(led, rid, ctx, res):
    it, apis, B, trans, guards = res
    seen = set()
    for key, pn in sorted(it.panics.items(), key=lambda kv: str(kv[0])):
        root = pn.fn.parent or pn.fn.defn
        k = "%s@%s" % (root.rsplit("::", 2)[-2] + "::" + root.rsplit("::", 1)[-1]
                       if "::" in root else root, pn.st[0] + "/L%s" % pn.st[1])
        if k in seen:
            continue
        seen.add(k)
        led.bad(rid, k, pn.span,
                "life-cycle assertion fails: `%s` is reached in abstract state %s and panics (%s); "
                "call stack: %s" % (root, short(pn.st), pn.callee, " > ".join(
                    s.rsplit("::", 1)[-1] for s in pn.stack[-6:])))
    led.count("T4:functions interpreted", len(it.reached))
    led.count("T4:function summaries", len(it.memo))
    if not seen:
        led.ok(rid, "all", None, "no life-cycle assertion can fail in any of %d (function, state) "
               "summaries" % len(it.memo))
    else:
        led.ok(rid, "explored", None, "%d summaries" % len(it.memo))


def t_flag(led, rid, ctx, res):
    """T1: execution flag and state agree at the return of solve_under_assumptions"""
    it = res[0]
    lib = ctx.lib
    f = lib.method("ConstraintSatisfactionSolver", "solve_under_assumptions")
    allowed = {"Feasible": {"ContainsSolution"}, "Timeout": {"Timeout"},
               "Infeasible": {"Infeasible", "InfeasibleUnderAssumptions", "Conflict"}}
    n = 0
    seen = set()
    for (d, st, at), exits in it.memo.items():
        if d != f.defn:
            continue
        for (st2, rt) in exits:
            if rt is None or rt[0] != "enum" or not rt[1].endswith("CSPSolverExecutionFlag"):
                led.bad(rid, "flag-unknown", f.span, "return value of solve_under_assumptions not "
                        "recognised as an execution flag (tag %r)" % (rt,))
                continue
            n += 1
            key = "%s->%s/L%s" % (rt[2], st2[0], st2[1])
            if key in seen:
                continue
            seen.add(key)
            ok = st2[0] in allowed.get(rt[2], ())
            if rt[2] == "Infeasible":
                if st2[0] == "Infeasible" and st2[1] != 0:
                    ok = False
                if st2[0] == "InfeasibleUnderAssumptions" and st2[1] == 0:
                    ok = False
            led.check(ok, rid, key, f.span, "entry %s" % short(st),
                      "solve returns flag %s in state %s at level %s" % (rt[2], st2[0], st2[1]))
    led.floor(rid, "flag/state pairs", len(seen), 3)


def t_transitions(led, rid, ctx, res):
    """T8: a recorded root conflict is definitive — it may only become Infeasible; Infeasible is
    absorbing"""
    it = res[0]
    n = 0
    for (s0, l0, s1), (fn, site) in sorted(it.transitions.items(), key=str):
        n += 1
        key = "%s/L%s->%s" % (s0, l0, s1)
        bad = None
        if s0 == "Infeasible" and s1 != "Infeasible":
            bad = "the solver leaves the Infeasible state (%s): a proven root conflict is forgotten" % fn
        elif s0 == "Conflict@root" and s1 not in ("Infeasible", "Conflict"):
            bad = ("a conflict at decision level 0 is overwritten by state %s in %s: the refutation of "
                   "the model is forgotten and a later solve can answer Satisfiable" % (s1, fn))
        if bad:
            led.bad(rid, key, site, bad)
        else:
            led.ok(rid, key, site, "in %s" % fn.rsplit("::", 1)[-1])
    led.floor(rid, "life-cycle transitions observed", n, 10)


POSTING = ("ConstraintPoster::", "Solver::add_", "Solver::new_")


def t_inert(led, rid, ctx, res):
    """a posting / variable-creating API function entered while a root conflict or infeasibility is
    recorded leaves the life-cycle state as it is (it reports the error and does no work)"""
    it, apis, B, trans, guards = res
    seen = {}
    n = 0
    for label, b, st2, rt in trans:
        if b[0] not in ("Conflict", "Infeasible") or b[1] != 0 or not label.startswith(POSTING):
            continue
        key = "%s@%s" % (label, short(b))
        n += 1
        if (st2[0], st2[1]) != (b[0], b[1]):
            seen[key] = short(st2)
        else:
            seen.setdefault(key, None)
    for key, moved in sorted(seen.items()):
        led.check(moved is None, rid, key, None, "state unchanged",
                  "`%s` does work although the solver already records an inconsistency: it leaves the solver "
                  "in %s (propagation and conflict bookkeeping run on a refuted model; the conflict that was "
                  "recorded has no propagator to blame)" % (key.replace("@", "` entered in `"), moved))
    led.floor(rid, "posting transitions from inconsistent states", n, 10)


REJECT = ("Conflict", "Infeasible", "InfeasibleUnderAssumptions")


def t_guards(led, rid, ctx, res):
    """ENTRY-GUARD: add_clause and add_propagator of the engine test the life-cycle state before
    anything else and leave at once in every inconsistent state; the set of states a guard rejects is
    computed by interpreting the predicate's MIR in each state"""
    from ..flow import edge_facts, peel
    lib = ctx.lib
    it = res[0]
    STATES = ("Ready", "Solving", "ContainsSolution", "Conflict", "Infeasible", "InfeasibleUnderAssumptions",
              "Timeout")
    n = 0
    for name in ("add_clause", "add_propagator"):
        f = lib.method("ConstraintSatisfactionSolver", name)
        cfg = f.cfg
        preds = [c for c in f.calls if (c.self_ty or "").endswith("CSPSolverState") and
                 (c.name.startswith("is_") or c.name.startswith("no_") or c.name.startswith("has_"))]
        def mutating(c):
            g = lib.fns.get(c.resolved or c.defn or "")
            if g is None:
                return bool(c.trait)
            return bool(g.args) and g.args[0]["ty"].startswith("&mut")
        others = [c for c in f.calls if c not in preds and not c.is_panic() and not c.exp and
                  not any("assert" in m for m in (c.macros or [])) and (c.callee.get("local") or c.trait)
                  and mutating(c)]
        rejected = set()
        used = []
        for c in preds:
            if not all(cfg.dominates(c.bb, o.bb) for o in others if o.bb != c.bb):
                continue
            g = lib.fns.get(c.resolved or c.defn)
            if g is None:
                continue
            table = {}
            for S in STATES:
                out = {rt for st, rt in it.summary(g, (S, 0, 0), ())}
                if len(out) == 1 and list(out)[0] is not None and list(out)[0][0] == "bool":
                    table[S] = list(out)[0][1]
            # which outcome leaves the function before any other call?
            for bb in cfg.edges:
                for fa in edge_facts(f, bb):
                    if fa.kind != "bool":
                        continue
                    a = peel(fa.atom, calls=None)
                    neg = False
                    while a.k == "unop" and a.a == "Not":
                        a = peel(a.b, calls=None)
                        neg = not neg
                    if not (a.k == "call" and a.a is c):
                        continue
                    truth = fa.val if not neg else (not fa.val)
                    if cfg.reaches(fa.edge.node, cfg.returns, avoid=[o.bb for o in others], strict=False) and \
                            not any(cfg.dominates(fa.edge.node, o.bb) for o in others):
                        rejected |= {S for S, v in table.items() if v == bool(truth)}
                        used.append(c.name)
        n += 1
        missing = [S for S in REJECT if S not in rejected]
        led.check(not missing, rid, "%s:entry-guard" % name, f.span,
                  "leaves at once in %s (guard %s)" % (sorted(rejected), used),
                  "%s starts work in the state(s) %s: its entry guard (%s) only rejects %s. After a root "
                  "conflict was recorded by an earlier call the function goes on to propagate / complete the "
                  "proof with a stale conflict (unreachable!() in complete_proof for RootLevelConflict)"
                  % (name, missing, used or "none", sorted(rejected)))
    led.floor(rid, "entry guards", n, 2)


def t_contains(led, rid, ctx, res):
    """a stored solution claims exactly the variables that existed when it was taken:
    contains_domain_id(d) ⇔ d < number of domains (decided on a window)"""
    from ..symexec import SymExec
    from ..predalg import ev, Unknown
    from ..flow import peel, show
    lib = ctx.lib
    n = 0
    for f in lib.fns.values():
        if f.name != "contains_domain_id" or "/tests" in f.file:
            continue
        ps = [p for p in SymExec(f).run() if not p.diverged and p.ret is not None]
        n += 1
        bad = None
        try:
            for d in range(0, 6):
                for k in range(0, 6):
                    def leaf(x):
                        x = peel(x, calls=None)
                        if x.k == "call" and x.a.name in ("num_domains", "len"):
                            return k
                        if x.k == "call" and x.a.name in ("index",):
                            return d
                        if x.k == "proj" and list(x.fields())[-1:] == ["id"]:
                            return d
                        if x.k == "arg":
                            return d
                        return None
                    vals = set()
                    for p in ps:
                        ok = True
                        for cond, val, others in p.conds:
                            try:
                                w = ev(cond, leaf)
                            except Unknown:
                                continue
                            if (val is not None and w != val) or (val is None and others and w in others):
                                ok = False
                        if ok:
                            vals.add(bool(ev(p.ret, leaf)))
                    if vals != {d < k}:
                        bad = "domain id %d with %d domains stored: answers %s" % (d, k, sorted(vals))
                        break
                if bad:
                    break
        except Unknown as u:
            bad = "cannot be evaluated (%s)" % u
        who = (f.self_adt or "?").rsplit("::", 1)[-1]
        led.check(bad is None, rid, "%s::contains_domain_id" % who, f.span, "⇔ id < num_domains",
                  "%s::contains_domain_id: %s — a variable created after the solution was taken is treated as "
                  "part of it, and the brancher indexes the stored solution out of bounds on the next solve"
                  % (who, bad))
    led.floor(rid, "contains_domain_id implementations", n, 1)


def run(ctx, led):
    lib = ctx.lib
    try:
        res = explore(lib)
    except AnchorMissing as e:
        led.anchor_missing("T", e.what)
        return
    run_rule(led, "T2/T3", "every API function, entered in any reachable boundary state, returns "
             "with the solver in {Ready, Infeasible, Conflict} at decision level 0 (or hands out the "
             "core guard whose Drop does) — TYPESTATE fix-point over arbitrary API sequences",
             t_boundary, ctx, res)
    run_rule(led, "T7", "the result variant an API function returns agrees with the state it leaves "
             "behind (TABLE result → allowed states)", t_result, ctx, res)
    run_rule(led, "T4", "no life-cycle assertion (condition a function of state/level) can fail "
             "under the most general client", t_assert, ctx, res)
    run_rule(led, "T1", "execution flag and life-cycle state agree when a solve returns", t_flag, ctx, res)
    run_rule(led, "T8", "life-cycle transitions: a root conflict only ever becomes Infeasible and "
             "Infeasible is absorbing (transition relation observed by the interpreter under the most "
             "general client)", t_transitions, ctx, res)
    from . import shared
    run_rule(led, "T9", "no stale model: every solve overwrites the stored assumptions (shared with "
             "C05-A3)", shared.assumptions_overwritten, ctx)
    run_rule(led, "T10", "posting functions are inert while an inconsistency is recorded", t_inert, ctx, res)
    run_rule(led, "T11", "ENTRY-GUARD: add_clause / add_propagator leave at once in every inconsistent state (guard truth tables interpreted from MIR)", t_guards, ctx, res)
    from . import predrules as _pr
    run_rule(led, "T12", "is_mutually_exclusive_with is sound, so extract_core does not panic on consistent assumptions (shared with C05-A12)", _pr.mutex_sound, ctx)
    from . import protocol as _proto
    run_rule(led, "T14", "PROTOCOL: SolutionIterator reports Unsatisfiable only before, and Finished only after, it handed out a solution (finite abstraction of its flag fields)", _proto.iterator_protocol, ctx)
    from . import C01 as _C01
    run_rule(led, "T15", "a solution is declared only when no domain is unassigned, and the scan for one covers every domain (shared with C01-S3/S3c): a partial solution panics when it is read", _C01.s3, ctx)
    run_rule(led, "T16", "the fallback scan covers every domain (shared with C01-S3c)", _C01.s3c, ctx)
    run_rule(led, "T13", "a stored solution claims exactly the variables that existed when it was taken", t_contains, ctx, res)

"""Rules over the two-watched-predicate scheme of the nogood propagator.

WAKE: in each of the four watcher loops of NogoodPropagator::propagate the test that decides
whether a watcher is looked at is extracted from the MIR (the conditions between the read of the
watcher's right-hand side and the read of its nogood id) and decided on every pair of domains
old ⊇ new over a 5-value universe: a watched predicate that became true between the two states
must be looked at (otherwise a nogood whose two watched predicates became true that way is never
checked again), and a watcher that is looked at must be true in the new state (the code that
follows assumes it).

READD: when a propagation inside a watcher loop fails, every watcher that has not been visited
yet is copied back before the list is truncated: the copy loop runs on the same bound as the
visiting loop.
"""
import itertools
from ..flow import resolver, peel, show, E
from ..predalg import ev, holds, Unknown, is_pred_adt
from ..facts import AnchorMissing

KINDS = {
    "lower_bound": ("LowerBound", "LowerBound"),
    "upper_bound": ("UpperBound", "UpperBound"),
    "inequality": ("NotEqual", "Removal"),
    "equality": ("Equal", "Assign"),
}
U = list(range(0, 5))


def _models(kind):
    sets = [frozenset(s) for k in range(1, len(U) + 1) for s in itertools.combinations(U, k)]
    for old in sets:
        for new in sets:
            if not new < old:
                continue
            if kind == "lower_bound" and not min(new) > min(old):
                continue
            if kind == "upper_bound" and not max(new) < max(old):
                continue
            if kind == "equality" and len(new) != 1:
                continue
            yield old, new


def _walk(f, R, start_bb, stop, leaf, limit=400):
    """follow the MIR from the end of start_bb under the valuation `leaf` until a block in `stop`"""
    bb = start_bb
    first = True
    for _ in range(limit):
        if not first and bb in stop:
            return stop[bb]
        first = False
        t = f.blocks[bb]["term"]
        k = t["t"]
        if k == "switch":
            v = ev(R.operand(t["discr"]), leaf)
            nxt = t["otherwise"]
            for val, tgt in t["targets"]:
                if val == v:
                    nxt = tgt
            bb = nxt
        elif k == "call":
            if t.get("target") is None:
                return "diverges"
            bb = t["target"]
        elif k in ("goto", "drop", "assert", "falseedge", "falseunwind"):
            bb = t["target"]
        elif k == "return":
            return "returns"
        else:
            if "target" in t and t["target"] is not None:
                bb = t["target"]
            else:
                return "diverges"
    return "no-exit"


def wake(led, rid, ctx):
    lib = ctx.lib
    f = lib.method("NogoodPropagator", "propagate", "*")
    R = resolver(f)
    cfg = f.cfg
    n = 0
    for kind, (variant, event) in KINDS.items():
        gets = [c for c in f.calls if c.name == "get_%s_watcher_at_index" % kind]
        reads_rhs, reads_id = [], []
        for c in gets:
            flds = set()
            for g in [f]:
                for b in g.blocks:
                    for s in b["stmts"]:
                        if s["s"] == "assign" and s["rv"]["r"] in ("use", "ref") :
                            pl = s["rv"].get("op", {}).get("copy") or s["rv"].get("op", {}).get("move") or s["rv"].get("place")
                            if pl and c.dst and pl["local"] == c.dst["local"]:
                                flds |= {e.get("name") for e in pl["proj"] if "field" in e}
            if "right_hand_side" in flds:
                reads_rhs.append(c)
            if "nogood_id" in flds:
                reads_id.append(c)
        if not reads_rhs or not reads_id:
            raise AnchorMissing("the %s watcher loop of NogoodPropagator::propagate (reads of "
                                "right_hand_side / nogood_id)" % kind)
        S = reads_rhs[0]
        P = [c for c in reads_id if cfg.dominates(S.bb, c.bb)]
        if not P:
            raise AnchorMissing("nogood_id read dominated by the right_hand_side read (%s watchers)" % kind)
        P = P[0]
        stop = {P.bb: "looked-at"}
        for c in f.calls:
            if c.name == "set_%s_watcher_to_other_watcher" % kind and not cfg.dominates(P.bb, c.bb):
                stop[c.bb] = "kept-unseen"
        stop[S.bb] = "kept-unseen"
        bad = None
        checked = 0
        for old, new in _models(kind):
            for rhs in range(-1, 6):
                def leaf(e, old=old, new=new, rhs=rhs):
                    if e.k == "call":
                        nm = e.a.name
                        if nm == "lower_bound_at_trail_position":
                            return min(old)
                        if nm == "upper_bound_at_trail_position":
                            return max(old)
                        if nm == "lower_bound":
                            return min(new)
                        if nm == "upper_bound":
                            return max(new)
                        if nm in ("is_predicate_satisfied", "is_predicate_falsified"):
                            p = peel(e.b[-1], calls=None)
                            CTOR = {"lower_bound_predicate": "LowerBound", "upper_bound_predicate": "UpperBound",
                                    "equality_predicate": "Equal", "disequality_predicate": "NotEqual"}
                            if p.k == "call" and p.a.name in CTOR and "DomainId" in (p.a.self_ty or ""):
                                p = E("agg", "engine::predicates::predicate::Predicate", CTOR[p.a.name], [p.b[0], p.b[1]], ["domain_id", "c"])
                            if p.k == "agg" and is_pred_adt(p.a):
                                c_ = None
                                for fe, name in zip(p.c, p.d or []):
                                    if name != "domain_id":
                                        c_ = ev(fe, leaf)
                                if nm == "is_predicate_satisfied":
                                    return int(all(holds(p.b, c_, x) for x in new))
                                return int(not any(holds(p.b, c_, x) for x in new))
                        if nm in ("contains", "is_value_in_domain") and len(e.b) >= 2:
                            return int(ev(e.b[-1], leaf) in new)
                    if e.k == "proj" and e.b and e.b[-1].get("name") == "right_hand_side":
                        return rhs
                    return None
                try:
                    out = _walk(f, R, S.bb, stop, leaf)
                except Unknown as u:
                    bad = "tests the undecidable value %s before looking at a watcher" % u
                    break
                checked += 1
                sat_new = all(holds(variant, rhs, x) for x in new)
                sat_old = all(holds(variant, rhs, x) for x in old)
                if sat_new and not sat_old and out != "looked-at":
                    bad = ("does not look at the watcher of [x %s %d] when the domain of x goes from %s to %s, "
                           "although that predicate has just become true: a nogood whose watched predicates "
                           "become true this way is never examined again, so it neither propagates nor "
                           "raises its conflict" % (variant, rhs, sorted(old), sorted(new)))
                    break
                if out == "looked-at" and not sat_new:
                    bad = ("looks at the watcher of [x %s %d] when the domain of x goes from %s to %s although "
                           "the predicate is not true there: the code that follows treats it as true"
                           % (variant, rhs, sorted(old), sorted(new)))
                    break
            if bad:
                break
        n += 1
        led.check(bad is None and checked > 0, rid, "wake:%s-watchers" % kind, S.span,
                  "decided on %d (old domain, new domain, right-hand side) triples" % checked,
                  "NogoodPropagator::propagate (%s event) %s" % (event, bad or "could not be evaluated"))
    led.floor(rid, "watcher loops", n, 4)


def readd(led, rid, ctx):
    """after a failed propagation the remaining watchers are all copied back"""
    from ..flow import edge_facts, rel_fact
    lib = ctx.lib
    f = lib.method("NogoodPropagator", "propagate", "*")
    R = resolver(f)
    cfg = f.cfg
    n = 0
    heads = cfg.loop_heads()
    for kind in KINDS:
        nums = [c for c in f.calls if c.name == "num_%s_watchers" % kind]
        if not nums:
            raise AnchorMissing("num_%s_watchers in NogoodPropagator::propagate" % kind)
        num_local = nums[0].dst["local"] if nums[0].dst else None
        setters = [c for c in f.calls if c.name == "set_%s_watcher_to_other_watcher" % kind]
        # every loop whose body copies a watcher is bounded by `index < num_watchers` exactly
        seen_heads = set()
        for c in setters:
            # the innermost loop head dominating the call from which the call is on a cycle
            hs = []
            for h in heads:
                if not cfg.dominates(h, c.bb):
                    continue
                latches = [u for u in cfg.pred.get(h, []) if cfg.dominates(h, u)]
                if c.bb == h or any(cfg.reaches(c.bb, [u], avoid=[h], strict=False) for u in latches):
                    hs.append(h)
            if not hs:
                continue
            h = max(hs, key=lambda x: sum(1 for y in hs if cfg.dominates(y, x)))
            if h in seen_heads:
                continue
            seen_heads.add(h)
            # the exit test of that loop
            tests = []
            for bb in cfg.edges:
                if not (cfg.dominates(h, bb) and cfg.reaches(bb, [h], strict=False)):
                    continue
                for fa in edge_facts(f, bb):
                    rf = rel_fact(fa)
                    if not rf:
                        continue
                    op, a, b = rf
                    if fa.edge.node is not None and cfg.dominates(fa.edge.node, c.bb) and bb == h or \
                            (bb == h and cfg.dominates(fa.edge.node, c.bb)):
                        tests.append((op, a, b))
            n += 1
            ok = False
            shown = ""
            for op, a, b in tests:
                shown = "%s %s %s" % (show(a)[:40], op, show(b)[:60])
                a_, b_ = peel(a, calls=None), peel(b, calls=None)
                if op == "Gt":
                    a_, b_, op = b_, a_, "Lt"
                if op == "Lt" and b_.k == "call" and b_.a.name == "num_%s_watchers" % kind:
                    ok = True
                if op == "Lt" and b_.k in ("local", "phi") and (b_.a if b_.k == "local" else b_.b) == num_local:
                    ok = True
            led.check(ok, rid, "readd:%s:loop@%d" % (kind, len(seen_heads)), c.span,
                      "bounded by index < num_%s_watchers" % kind,
                      "a loop of NogoodPropagator::propagate that copies %s watchers back stops at `%s` "
                      "rather than at the number of watchers: a watcher that was not visited is dropped "
                      "from the list, and its nogood is not examined when that predicate becomes true"
                      % (kind, shown or "a bound other than index < num_%s_watchers" % kind))
    led.floor(rid, "watcher copy loops", n, 8)

"""C20 — runs are reproducible for a fixed seed.

Decides (DESIGN §4-C20): every source of run-to-run variation is absent or confined.
Q1 no iteration over a std-hashed (RandomState) map/set        Q2 no entropy source
Q3 the clock is read only in a frozen set of functions and a clock value reaches no branch / store
   other than the time limit test and the time statistic      Q4 no address → integer
Q5 no environment / pid / threads / directory order           Q6 RNGs are built by seed_from_u64 only
"""
import re

from ..main import run_rule
from ..flow import forward, operand_locals
from ..facts import op_local

LEVEL = ("static who-may-call / taint rules over the resolved MIR of pumpkin-solver (lib + bin) and "
         "drcp-format: every call site that could introduce run-to-run variation is enumerated and "
         "must be absent or in a frozen table; decides the whole property modulo the listed trusted "
         "dependencies (fnv, rand::SmallRng, the flatzinc parser crate, std sorting)")

PROGS = ("lib", "bin", "drcp")

ITER_METHODS = {"iter", "iter_mut", "keys", "values", "values_mut", "into_iter", "drain", "retain",
                "into_keys", "into_values", "extract_if", "fmt", "extend", "from_iter", "collect",
                "for_each", "difference", "intersection", "union", "symmetric_difference"}
KEYED_METHODS = {"new", "default", "with_capacity", "with_hasher", "with_capacity_and_hasher",
                 "insert", "get", "get_mut", "get_key_value", "contains", "contains_key", "entry",
                 "remove", "remove_entry", "take", "len", "is_empty", "clear", "reserve", "index",
                 "shrink_to_fit", "capacity", "hasher", "eq", "ne", "or_insert", "or_insert_with",
                 "or_default", "and_modify", "replace", "get_or_insert_with", "try_insert",
                 "is_subset", "is_superset", "is_disjoint", "drop", "drop_in_place", "clone", "clone_from",
                 "deref", "deref_mut", "borrow", "borrow_mut", "as_ref", "as_mut", "unwrap",
                 "expect", "branch", "from_residual", "from_output", "as_deref", "as_deref_mut",
                 "unwrap_or_default", "is_some", "is_none", "take_mut", "into", "from",
                 "key", "into_mut", "or_insert_with_key", "insert_entry"}

# Q1 exceptions: (function def-path suffix, method, container element) -> reason
Q1_ALLOWED = {
    ("DynamicBrancher::new", "into_iter", "BrancherEvent"):
        "the set of subscribed events is turned into a Vec that is only used as a set "
        "(`contains`, and per-event index lists keyed by the event itself); its order reaches "
        "neither output nor control flow",
}


def split_top(s):
    """split generic argument list at top-level commas"""
    out, depth, cur = [], 0, ""
    for ch in s:
        if ch in "<([":
            depth += 1
        elif ch in ">)]":
            depth -= 1
        if ch == "," and depth == 0:
            out.append(cur.strip())
            cur = ""
        else:
            cur += ch
    if cur.strip():
        out.append(cur.strip())
    return out


HASH_RE = re.compile(r"(std::collections::(?:hash::(?:map|set)::)?(HashMap|HashSet)|hashbrown::(?:map::|set::)?(HashMap|HashSet))<")


def random_hashed_containers(ty):
    """yield (kind, args) for every std hash container in the type string that uses RandomState"""
    res = []
    i = 0
    while True:
        m = HASH_RE.search(ty, i)
        if not m:
            break
        kind = m.group(2) or m.group(3)
        # find the matching '>'
        j = m.end()
        depth = 1
        while j < len(ty) and depth:
            if ty[j] == "<":
                depth += 1
            elif ty[j] == ">":
                if ty[j - 1] != "-":
                    depth -= 1
            j += 1
        args = split_top(ty[m.end():j - 1])
        hasher_pos = 2 if kind == "HashMap" else 1
        hasher = args[hasher_pos] if len(args) > hasher_pos else None
        if hasher is None or "RandomState" in hasher:
            res.append((kind, args))
        elif hasher in ("S", "H", "BH") or len(hasher) <= 2:
            pass  # generic hasher parameter inside std's own signatures: not a concrete container
        i = m.end()
    return res


def q1(led, rid, ctx):
    n_sites = 0
    n_keyed = 0
    for pk in PROGS:
        p = getattr(ctx, pk)
        for f in p.fns.values():
            for c in f.calls:
                tys = list(c.term.get("arg_tys", []))
                gens = c.generics
                # inherent methods of HashMap/HashSet carry the hasher in their generic args
                inherent = c.defn and re.match(r"(std::collections|hashbrown)::.*(HashMap|HashSet)::<", c.defn)
                rnd = []
                for t in tys:
                    rnd.extend(random_hashed_containers(t))
                if c.trait and gens:
                    rnd.extend(random_hashed_containers(gens[0]))
                if inherent and any("RandomState" in g for g in gens):
                    m = re.search(r"(HashMap|HashSet)", c.defn)
                    rnd.append((m.group(1), gens))
                if not rnd:
                    continue
                n_sites += 1
                name = c.name
                if name in KEYED_METHODS and name not in ITER_METHODS:
                    n_keyed += 1
                    continue
                local_callee = c.callee.get("local") and not c.trait
                if local_callee:
                    # a function of the analysed crate receiving the container: its own body is
                    # analysed by this same rule
                    continue
                elem = rnd[0][1][0] if rnd[0][1] else "?"
                elem_short = elem.rsplit("::", 1)[-1]
                key = None
                for (fsuf, meth, el), reason in Q1_ALLOWED.items():
                    if (f.defn == fsuf or f.defn.endswith("::" + fsuf)) and meth == name and el == elem_short:
                        key = (fsuf, meth, el)
                        led.ok(rid, "%s:%s<%s>" % (fsuf, meth, el), c.span, "allowed: " + reason)
                        break
                if key is None:
                    led.bad(rid, "%s:%s<%s>" % (f.defn, name, elem_short), c.span,
                            "`%s` over a %s with std's randomly keyed hasher: iteration order differs "
                            "between runs (use the Fnv aliases of basic_types::hash_structures, a "
                            "BTreeMap, or sort)" % (name, rnd[0][0]))
    led.count("Q1:calls on RandomState containers", n_sites)
    led.count("Q1:keyed (order-free) calls", n_keyed)
    led.ok(rid, "scan", None, "%d call sites touching a RandomState container examined, %d keyed"
           % (n_sites, n_keyed))


ENTROPY = re.compile(r"thread_rng|from_entropy|from_os_rng|rand::random|getrandom|OsRng|"
                     r"RandomState::new|hash::RandomState as|::rng\b|rand::rng|fastrand|"
                     r"std::hash::RandomState")


def q2(led, rid, ctx):
    n = 0
    for pk in PROGS:
        p = getattr(ctx, pk)
        for f in p.fns.values():
            for c in f.calls:
                s = (c.defn or "") + " " + (c.resolved or "")
                n += 1
                if ENTROPY.search(s):
                    led.bad(rid, "%s:%s" % (f.defn, c.name), c.span,
                            "entropy source `%s` used as a value" % c.target_def)
    led.ok(rid, "scan", None, "%d call sites examined for entropy sources" % n)


CLOCK_CALL = re.compile(r"std::time::(Instant|SystemTime)::(now|elapsed|duration_since|"
                        r"checked_duration_since|saturating_duration_since)|UNIX_EPOCH|"
                        r"chrono::|time::OffsetDateTime")
# Q3 who-may-call table: function -> why reading the clock there is confined
CLOCK_ALLOWED = {
    "engine::termination::time_budget::TimeBudget::starting_now": "start of the time limit",
    "<engine::termination::time_budget::TimeBudget as engine::termination::TerminationCondition>::should_stop":
        "the time limit test itself (runs with a time limit are outside the quantifier)",
    "engine::constraint_satisfaction_solver::ConstraintSatisfactionSolver::solve_under_assumptions":
        "accumulates the wall-clock statistic time_spent_in_solver",
    "maxsat::optimisation::stopwatch::Stopwatch::starting_now": "log-line stopwatch",
    "maxsat::optimisation::stopwatch::Stopwatch::elapsed": "log-line stopwatch",
    "maxsat::encoders::cardinality_networks_encoder::CardinalityNetworkEncoder::create_encoding":
        "encoding time reported in a log line",
    "maxsat::encoders::pseudo_boolean_constraint_encoder::PseudoBooleanConstraintEncoder::create_encoding":
        "encoding time reported in a log line",
}
CLOCK_BRANCH_ALLOWED = {
    "<engine::termination::time_budget::TimeBudget as engine::termination::TerminationCondition>::should_stop",
}
CLOCK_FIELD_ALLOWED = {"time_spent_in_solver", "time_start", "started_at", "budget"}
CLOCK_TYPES = re.compile(r"^&?(mut )?std::time::(Instant|SystemTime)$")
# external callees a clock value may be handed to: formatting/logging and time arithmetic
CLOCK_SINK_OK = re.compile(r"^(std|core)::(time|fmt|ops|cmp|convert|clone|option|result|num)|"
                           r"^log::|Argument|<.* as std::fmt|^std::io::_print|std::time::")


def q3(led, rid, ctx):
    # (a) who may read the clock
    n_reads = 0
    for pk in PROGS:
        p = getattr(ctx, pk)
        for f in p.fns.values():
            for c in f.calls:
                s = c.target_def or ""
                if CLOCK_CALL.search(s):
                    n_reads += 1
                    root = f.parent or f.defn
                    if root in CLOCK_ALLOWED:
                        led.ok(rid, "read:%s" % root, c.span, CLOCK_ALLOWED[root])
                    else:
                        led.bad(rid, "read:%s" % root, c.span,
                                "clock read `%s` outside the frozen who-may-call table" % s)
    led.floor(rid, "clock reads", n_reads, 8)
    # (b) inter-procedural taint: values derived from a clock reading
    for pk in ("lib", "bin"):
        p = getattr(ctx, pk)
        ret_tainted = set()      # def paths whose return value is clock-derived
        param_tainted = {}       # def -> set of arg locals
        changed = True
        results = {}
        rounds = 0
        while changed and rounds < 8:
            changed = False
            rounds += 1
            for f in p.fns.values():
                seeds = set(param_tainted.get(f.defn, ()))
                for l in f.locals:
                    if CLOCK_TYPES.search(l["ty"]):
                        seeds.add(l["id"])
                for c in f.calls:
                    if c.dst is None:
                        continue
                    s = c.target_def or ""
                    if CLOCK_CALL.search(s) or s in ret_tainted or (c.defn in ret_tainted):
                        seeds.add(c.dst["local"])
                if not seeds:
                    results.pop(f.defn, None)
                    continue
                t = forward(f, seeds, effects=False, call_filter=lambda c: not p.callees(c))
                results[f.defn] = t
                if 0 in t and f.defn not in ret_tainted:
                    # only value-carrying returns (not bool verdict of should_stop)
                    if f.defn not in CLOCK_BRANCH_ALLOWED:
                        ret_tainted.add(f.defn)
                        changed = True
                for c in f.calls:
                    tgt = [g for g in p.callees(c)]
                    if not tgt:
                        continue
                    for i, a in enumerate(c.args):
                        if any(l in t for l in operand_locals(a)):
                            for g in tgt:
                                if i < len(g.args):
                                    al = g.args[i]["local"]
                                    if al not in param_tainted.setdefault(g.defn, set()):
                                        param_tainted[g.defn].add(al)
                                        changed = True
        n_fn = 0
        for d, t in results.items():
            f = p.fns[d]
            n_fn += 1
            root = f.parent or f.defn
            # branches
            for b in f.blocks:
                if b.get("cleanup"):
                    continue
                term = b["term"]
                if term["t"] == "switch":
                    l = op_local(term["discr"])
                    if l is not None and l in t and root not in CLOCK_BRANCH_ALLOWED:
                        led.bad(rid, "branch:%s" % root, "%s:%d" % (f.file, b["line"]),
                                "control flow depends on a clock reading")
                # stores into fields reachable from the outside
                for s in b["stmts"]:
                    if s["s"] != "assign":
                        continue
                    dst = s["dst"]
                    if dst["proj"] and "deref" in dst["proj"][0]:
                        from ..flow import _rv_locals
                        if any(l in t for l in _rv_locals(s["rv"])):
                            names = [e.get("name") for e in dst["proj"] if "field" in e]
                            if not names or names[-1] not in CLOCK_FIELD_ALLOWED:
                                led.bad(rid, "store:%s.%s" % (root, ".".join(n or "?" for n in names)),
                                        "%s:%d" % (f.file, s["line"]),
                                        "a clock reading is stored where later computation can read it")
            for c in f.calls:
                if c.callee.get("local") and p.callees(c):
                    continue
                if any(l in t for a in c.args for l in operand_locals(a)):
                    s = c.target_def or c.callee.get("ty") or "?"
                    if not CLOCK_SINK_OK.search(s):
                        led.bad(rid, "sink:%s:%s" % (root, c.name), c.span,
                                "a clock reading is passed to `%s`" % s)
        led.count("Q3:functions holding clock-derived values (%s)" % pk, n_fn)
    led.ok(rid, "taint", None, "clock-derived values reach no branch, no store and no call outside "
           "formatting/time arithmetic, except the time-limit test and the time statistic")


ADDR_CALL = re.compile(r"fmt::Pointer|::expose_provenance|ptr::.*::addr\b|Rc::<.*>::as_ptr|"
                       r"std::ptr::hash|as std::hash::Hash>::hash")


def q4(led, rid, ctx):
    n = 0
    for pk in PROGS:
        p = getattr(ctx, pk)
        for f in p.fns.values():
            for b in f.blocks:
                for s in b["stmts"]:
                    if s["s"] == "assign" and s["rv"]["r"] == "cast":
                        rv = s["rv"]
                        n += 1
                        k = rv["kind"]
                        is_ptr = rv["from"].startswith(("*const", "*mut", "&", "fn", "std::ptr::NonNull"))
                        to_int = rv["to"] in ("usize", "u64", "isize", "i64", "u128", "u32", "i32")
                        compiler_check = (k == "Transmute" and rv["from"] in ("*const ()", "*mut ()"))
                        if k == "PointerExposeProvenance" or (k == "Transmute" and is_ptr and to_int
                                                             and not compiler_check):
                            led.bad(rid, "%s:cast %s->%s" % (f.defn, rv["from"], rv["to"]),
                                    "%s:%d" % (f.file, s["line"]), "address converted to an integer")
            for c in f.calls:
                s = (c.defn or "") + " " + (c.resolved or "")
                if c.trait == "std::fmt::Pointer" or "std::ptr::hash" in s or \
                        re.search(r"<\*(const|mut) .* as std::hash::Hash>", s) or \
                        re.search(r"::expose_provenance|pointer::addr", s):
                    led.bad(rid, "%s:%s" % (f.defn, c.name), c.span, "address observed via `%s`" % s)
    led.ok(rid, "scan", None, "%d casts examined" % n)


ENV_CALL = re.compile(r"std::env::(var|var_os|vars|vars_os|current_dir|temp_dir|home_dir)\b|"
                      r"std::process::id|std::thread::(spawn|scope|Builder|current|available_parallelism)|"
                      r"rayon|crossbeam|std::fs::read_dir|std::sync::mpsc|tokio")


def q5(led, rid, ctx):
    n = 0
    for pk in PROGS:
        p = getattr(ctx, pk)
        for f in p.fns.values():
            for c in f.calls:
                s = (c.defn or "") + " " + (c.resolved or "")
                n += 1
                if ENV_CALL.search(s):
                    led.bad(rid, "%s:%s" % (f.defn, c.name), c.span,
                            "environment / process / thread dependent call `%s`" % c.target_def)
    led.ok(rid, "scan", None, "%d call sites examined" % n)


RNG_CTOR = re.compile(r"SeedableRng::(from_seed|from_rng|try_from_rng|from_entropy|from_os_rng|seed_from_u64)|"
                      r"rand::rngs::|Rng::.*::new\b")


def q6(led, rid, ctx):
    n = 0
    for pk in PROGS:
        p = getattr(ctx, pk)
        for f in p.fns.values():
            for c in f.calls:
                s = c.target_def or ""
                d = c.defn or ""
                if "SeedableRng::" in d or "SeedableRng>::" in s:
                    n += 1
                    if c.name != "seed_from_u64":
                        led.bad(rid, "%s:%s" % (f.defn, c.name), c.span,
                                "random generator built by `%s`, not from the seed option" % s)
                        continue
                    # the seed must be a constant or derive from a parameter / option field
                    from ..flow import resolver
                    e = resolver(f).operand(c.args[0])
                    ext = [x for x in e.calls() if not x.callee.get("local")
                           and x.name not in ("clone", "into", "from", "deref", "unwrap_or", "unwrap")
                           and not (x.target_def or "").startswith("clap::")]
                    if ext:
                        led.bad(rid, "%s:seed" % f.defn, c.span,
                                "seed computed by `%s`" % ext[0].target_def)
                    else:
                        led.ok(rid, "%s:seed_from_u64" % f.defn, c.span, "seed = %r" % e)
    led.floor(rid, "rng constructions", n, 2)


def run(ctx, led):
    run_rule(led, "Q1", "no iteration over a map/set hashed with std's RandomState (WHO-MAY ∅; "
             "keyed access allowed; Fnv-hashed containers are deterministic)", q1, ctx)
    run_rule(led, "Q2", "no entropy source is used as a value (WHO-MAY ∅)", q2, ctx)
    run_rule(led, "Q3", "the clock is read only in the frozen table of functions; a clock-derived "
             "value reaches no branch, store or foreign call except the time-limit test and the "
             "wall-clock statistic (WHO-MAY + inter-procedural TAINT must-not-reach)", q3, ctx)
    run_rule(led, "Q4", "no address is turned into an integer, printed or hashed", q4, ctx)
    run_rule(led, "Q5", "no environment variable, process id, thread or directory order is read", q5, ctx)
    from . import C14 as _C14
    run_rule(led, "Q7", "output files are created truncating: what a run writes does not depend on what an earlier run left at the path (shared with C14-G10)", _C14.g10, ctx)
    run_rule(led, "Q6", "random generators are built only by seed_from_u64 from an option or "
             "constant", q6, ctx)

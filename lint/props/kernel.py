"""The kernel bundle: rules about the CP/SAT kernel that every verdict-level property depends on
(C01 solutions, C02 UNSAT, C03 enumeration, C04 optima, C07 configurations, C13 FlatZinc, C14 DIMACS,
C15 MaxSAT).  A property runs the whole bundle under its own rule ids `<prefix>K<n>`; rules the
property already registered under another id are not run twice."""
from ..main import run_rule


def _rules():
    from . import (shared, predrules, watchrules, minimiser, C01, C02, C05, C07, C08, C09, C12, C17)
    return [
        ("every solve starts from exactly the assumptions it was given", shared.assumptions_overwritten),
        ("no reason reference is fabricated", shared.no_fabricated_reason),
        ("no element skipped after swap_remove in an index loop", shared.swap_remove_skip),
        ("implicit kernel reasons imply the predicate they explain", predrules.implicit_reasons),
        ("Predicate negation is the exact complement", predrules.negation_exact),
        ("is_mutually_exclusive_with is sound", predrules.mutex_sound),
        ("Assignments::evaluate_predicate is exact", predrules.evaluate_exact),
        ("WAKE: nogood watchers are looked at exactly when their predicate became true", watchrules.wake),
        ("READD: watcher copy loops run to the number of watchers", watchrules.readd),
        ("semantic minimiser: folding steps are exact", minimiser.steps_exact),
        ("semantic minimiser: emission is exact", minimiser.emission_exact),
        ("semantic minimiser: scratch vectors are reset per call", minimiser.scratch_reset),
        ("add_clause stores exactly the negation of the predicates it was given", C02.u29),
        ("every Option<bool> evaluator of a predicate is sound", predrules.evaluators_sound),
        ("label TABLE of the recursive minimiser", C02.u12),
        ("retention TABLE of the recursive minimiser", C02.u24),
        ("routing TABLE of conflict analysis", C02.u16),
        ("final nogood order / backjump level / loop bounds", C02.u17),
        ("equality halves merged when minimisation is off", C02.u22),
        ("conflict resolution returns in the Solving state", C02.u23),
        ("the core guard's Drop restores the root state", C05.a1),
        ("nogood deletion discipline and is_nogood_propagating TABLE", C07.j1),
        ("an equality decision is read back as written", C07.j5),
        ("no-learning resolver: reason of the flipped decision", C07.j7),
        ("a permanent nogood is stored preprocessed", C07.j10),
        ("watcher removal selects exactly one watcher", C07.j13),
        ("lazy reasons of reified propagators keep the literal", C09.r7),
        ("the cached inconsistency of a reified propagator is cleared on synchronise", C09.r3),
        ("arithmetic constraint builders mean what they say", C09.r10),
        ("affine views: inner operation and rounding by sign of the scale", C12.v1),
        ("affine views: map / invert arithmetic", C12.v1_arith),
        ("div_ceil / div_floor sign-case table", C12.v1_div),
        ("affine views: divisibility guard of contains / remove / (dis)equality", C12.v1_divis),
        ("the …_at_trail_position queries agree", C17.l16),
        ("INCREMENTAL-RESET of un-trailed propagator state", C17.l20),
        ("backtrack resets the notified-trail mark", C01.s17),
        ("a solution is declared only when the brancher has nothing and no domain is unassigned", C01.s3),
        ("the fallback scan for unfixed variables covers every domain", C01.s3c),
        ("no Constraint::post / implied_by returns Ok(()) without posting", C01.s18),
        ("eager reasons select by position only", C17.l22),
        ("buffered lazy explanations are rebuilt on every call", C17.l23),
        ("tasks leave a resource profile only where a mandatory part is undone", C17.l24),
        ("each public variable constructor reaches exactly one engine constructor", C01.s19),
        ("decision-level bookkeeping is paired over the trailed structures", C01.s4 if hasattr(C01, "s4") else C01.s17),
        ("explanations: direct bound facts name the right variable and direction", C17.l8),
        ("explanations: every bound the propagated value was computed from is stated", C17.l9),
        ("explanations: computed bound facts are established by, and as strong as, a dominating test", C17.l10),
        ("explanations: tested bounds of other variables are stated", C17.l15),
        ("explanations: the cached profile explanation is reset per profile", C17.l12),
        ("explanations: the lazy element reason ranges over every position", C17.l19),
        ("explanations: lazy explanations do not read the current domains", C17.l5),
        ("explanations: WITNESS-POINT of pointwise hole explanations", C08.h11),
        ("explanations: extend_and_remove_duplicates is an opaque set union", C17.l21),
    ]


def run_bundle(led, ctx, prefix):
    seen = getattr(led, "_rule_fns", set())
    k = 0
    for text, fn in _rules():
        k += 1
        key = getattr(fn, "__qualname__", str(fn)) + "@" + getattr(fn, "__module__", "")
        if key in seen:
            continue
        run_rule(led, "%sK%d" % (prefix, k), "kernel bundle: " + text, fn, ctx)


def run_lifecycle(led, ctx, prefix):
    """the life-cycle bundle (typestate over arbitrary API sequences, C10) for properties whose
    statement spans several API calls"""
    from . import C10
    seen = getattr(led, "_rule_fns", set())
    res = None
    k = 0
    for text, fn in (("every API function returns with the solver in a usable root state", C10.t_boundary),
                     ("posting functions are inert while an inconsistency is recorded", C10.t_inert),
                     ("ENTRY-GUARD of add_clause / add_propagator", C10.t_guards),
                     ("a stored solution claims exactly the variables that existed", C10.t_contains)):
        k += 1
        key = getattr(fn, "__qualname__", str(fn)) + "@" + getattr(fn, "__module__", "")
        if key in seen:
            continue
        if res is None:
            res = C10.explore(ctx.lib)
        run_rule(led, "%sL%d" % (prefix, k), "life-cycle bundle: " + text, fn, ctx, res)

"""FlatZinc front-end rules decided on small windows / structural alignment (C13 F9–F11)."""
import itertools
from ..symexec import SymExec, variant_name
from ..flow import show, peel, resolver, E
from ..predalg import ev, holds, Unknown
from ..facts import AnchorMissing

CTOR = {"lower_bound_predicate": "LowerBound", "upper_bound_predicate": "UpperBound",
        "equality_predicate": "Equal", "disequality_predicate": "NotEqual"}
SELECTING = ("filter", "filter_map", "skip", "take", "skip_while", "take_while", "step_by", "dedup",
             "rev", "flat_map", "flatten", "chain", "cycle", "peekable_skip")


def _range_contains(e, leaf):
    """value of `<range>.contains(&v)` when the receiver is a literal range"""
    if e.k != "call" or e.a.name != "contains" or len(e.b) != 2:
        return None
    r = peel(e.b[0], calls=None)
    if r.k == "agg" and (r.a or "").split("::")[-1] in ("Range", "RangeInclusive"):
        lo, hi = ev(r.c[0], leaf), ev(r.c[1], leaf)
        v = ev(e.b[1], leaf)
        return int(lo <= v < hi) if r.a.split("::")[-1] == "Range" else int(lo <= v <= hi)
    if r.k == "call" and r.a.name == "new" and "RangeInclusive" in (r.a.target_def or ""):
        lo, hi = ev(r.b[0], leaf), ev(r.b[1], leaf)
        v = ev(e.b[1], leaf)
        return int(lo <= v <= hi)
    return None


def merge_is_intersection(led, rid, ctx):
    """Domain::merge computes the intersection of the two domains"""
    b = ctx.bin
    f = b.method("Domain", "merge")
    paths = [p for p in SymExec(f, max_paths=600).run() if not p.diverged]
    W = range(0, 5)
    rows = {}
    for p in paths:
        vs = {}
        for cond, val, others in p.conds:
            if cond.k == "discr" and (cond.b or "").endswith("Domain"):
                side = "other" if peel(cond.a, calls=None).k == "arg" and peel(cond.a, calls=None).a == 2 else "self"
                vs[side] = variant_name(f, cond, val, others)
        if len(vs) != 2:
            continue
        st = [v for d, v in p.stores if d["local"] == 1]
        if not st:
            rows.setdefault((vs["self"], vs["other"]), "does not store a merged domain")
            continue
        res = peel(st[-1], calls=None)
        key = (vs["self"], vs["other"])
        bad = None

        def side_of(e):
            s_ = show(e)
            return "other" if s_.startswith("arg2") or "arg2@" in s_ else "self"

        def field_leaf(env):
            def leaf(e):
                if e.k == "proj" and e.b and "field" in e.b[-1]:
                    nm = e.b[-1].get("name")
                    sd = side_of(e)
                    if (sd, nm) in env:
                        return env[(sd, nm)]
                if e.k == "call" and e.a.name in ("max", "min") and len(e.b) == 2:
                    a_, b_ = ev(e.b[0], leaf), ev(e.b[1], leaf)
                    return max(a_, b_) if e.a.name == "max" else min(a_, b_)
                return None
            return leaf
        try:
            if key == ("IntervalDomain", "IntervalDomain"):
                if res.k == "call" and res.a.name == "from_lower_bound_and_upper_bound":
                    lo_e, hi_e = res.b[0], res.b[1]
                elif res.k == "agg" and res.b == "IntervalDomain":
                    lo_e, hi_e = res.c[0], res.c[1]
                else:
                    raise Unknown(show(res)[:80])
                for a1, b1, a2, b2 in itertools.product(W, W, W, W):
                    leaf = field_leaf({("self", "lb"): a1, ("self", "ub"): b1, ("other", "lb"): a2, ("other", "ub"): b2})
                    lo, hi = ev(lo_e, leaf), ev(hi_e, leaf)
                    want = set(range(a1, b1 + 1)) & set(range(a2, b2 + 1))
                    if set(range(lo, hi + 1)) != want:
                        bad = "merges %d..%d with %d..%d into %d..%d" % (a1, b1, a2, b2, lo, hi)
                        break
            else:
                if not (res.k == "agg" and res.b == "SparseDomain"):
                    raise Unknown(show(res)[:80])
                inner = peel(res.c[0], calls=None)
                flt = [x for x in inner.walk() if x.k == "call" and x.a.name in ("filter", "retain")]
                if not flt:
                    raise Unknown("no filter in " + show(inner)[:80])
                fl = flt[0]
                src = show(fl.b[0])
                clo = [x for x in fl.b[1].walk() if x.k == "closure"]
                if "SparseDomain.values" not in src or not clo:
                    raise Unknown("filter over " + src[:60])
                it_side = "other" if "arg2@" in src else "self"
                g = b.fns.get(clo[0].a)
                caps = clo[0].b
                cpaths = [q for q in SymExec(g).run() if not q.diverged]
                if key == ("SparseDomain", "SparseDomain"):
                    # keep v iff v is in the values of the side that is not iterated
                    cap_sides = [side_of(peel(c_, calls=None)) for c_ in caps]
                    if not caps or any(s_ == it_side for s_ in cap_sides):
                        bad = "filters one sparse domain by itself"
                    else:
                        for q in cpaths:
                            r_ = peel(q.ret, calls=None) if q.ret is not None else None
                            if not (r_ is not None and r_.k == "call" and r_.a.name == "contains" and not q.conds):
                                bad = "keeps a value under the test %s" % (show(q.ret)[:80] if q.ret is not None else None)
                else:
                    cap_field = {}
                    for i, c_ in enumerate(caps):
                        pc = peel(c_, calls=None)
                        if pc.k == "proj" and pc.b and "field" in pc.b[-1]:
                            cap_field[i] = pc.b[-1].get("name")
                    for v, lo, hi in itertools.product(range(-1, 6), W, W):
                        def leaf(e, v=v, lo=lo, hi=hi):
                            s_ = show(e)
                            if e.k == "proj" or e.k == "arg":
                                if s_.replace("*", "") == "arg2":
                                    return v
                                for i, nm in cap_field.items():
                                    if s_.replace("*", "") == "arg1.%d" % i:
                                        return lo if nm in ("lb", "lower_bound") else hi
                            if e.k == "call":
                                return _range_contains(e, leaf)
                            return None
                        kept = None
                        for q in cpaths:
                            ok = True
                            for cond, val, others in q.conds:
                                w = ev(cond, leaf)
                                if (val is not None and w != val) or (val is None and others and w in others):
                                    ok = False
                            if ok:
                                kept = ev(q.ret, leaf)
                        if kept is None or bool(kept) != (lo <= v <= hi):
                            bad = ("%s the value %d of the sparse domain when it is intersected with %d..%d"
                                   % ("drops" if not kept else "keeps", v, lo, hi))
                            break
        except Unknown as u:
            bad = "builds the merged domain from %s, which the rule cannot evaluate" % u
        if bad or key not in rows:
            rows[key] = bad
    n = 0
    for key in sorted(rows):
        n += 1
        led.check(rows[key] is None, rid, "merge:%s/%s" % key, f.span, "= intersection",
                  "Domain::merge (%s with %s) %s: a value the model allows is lost (or a forbidden one kept) "
                  "before the variable is created" % (key[0], key[1], rows[key]))
    led.floor(rid, "variant pairs of Domain::merge", n, 4)


def set_in_reif_clauses(led, rid, ctx):
    """the clauses posted for set_in_reif over an interval mean r ⇔ lb ≤ x ≤ ub"""
    b = ctx.bin
    f = b.fn("compile_set_in_reif")
    paths = [p for p in SymExec(f, max_paths=3000).run() if not p.diverged]
    best = None
    for p in paths:
        vs = [variant_name(f, c, v, o) for c, v, o in p.conds if c.k == "discr" and (c.b or "").endswith("Set")]
        if vs != ["Interval"]:
            continue
        cl = [a[1] for c, a, r in p.calls if c.name == "add_clause" and len(a) > 1]
        if best is None or len(cl) > len(best):
            best = cl
    if not best:
        raise AnchorMissing("clauses posted by compile_set_in_reif for an interval set")

    def lit(e, x, r, lo, hi):
        e = peel(e, calls=None)
        if e.k == "call" and e.a.name == "not":
            return not lit(e.b[0], x, r, lo, hi)
        if e.k == "call" and e.a.name == "get_true_predicate":
            return bool(r)
        if e.k == "call" and e.a.name == "get_false_predicate":
            return not r

        def leaf(y):
            if y.k == "proj" and y.b and "field" in y.b[-1]:
                nm = y.b[-1].get("name")
                if nm == "lower_bound":
                    return lo
                if nm == "upper_bound":
                    return hi
            return None
        if e.k == "call" and e.a.name in CTOR:
            return holds(CTOR[e.a.name], ev(e.b[1], leaf), x)
        raise Unknown(show(e)[:80])
    bad = None
    try:
        for lo in range(0, 4):
            for hi in range(lo, 4):
                for x in range(-2, 7):
                    for r in (0, 1):
                        val = True
                        for cl in best:
                            arr = peel(cl, calls=None)
                            lits = arr.a if arr.k == "array" else None
                            if lits is None:
                                raise Unknown(show(arr)[:80])
                            if not any(lit(l, x, r, lo, hi) for l in lits):
                                val = False
                        want = (bool(r) == (lo <= x <= hi))
                        if val != want:
                            bad = ("%s x=%d, r=%s for the set %d..%d" %
                                   ("rejects" if want else "accepts", x, "true" if r else "false", lo, hi))
                            break
                    if bad:
                        break
                if bad:
                    break
            if bad:
                break
    except Unknown as u:
        bad = "contains the literal %s, which the rule cannot evaluate" % u
    led.check(bad is None, rid, "set_in_reif:interval", f.span, "%d clauses ⇔ (r ⇔ lb ≤ x ≤ ub)" % len(best),
              "the clause decomposition of set_in_reif over an interval %s: the printed solutions are not those "
              "of the FlatZinc builtin" % bad)


def zip_alignment(led, rid, ctx):
    """two parallel sequences are paired position by position: nothing is selected from one side
    before the zip"""
    n = 0
    for prog, where in ((ctx.lib, "lib"), (ctx.bin, "bin")):
        for f in prog.fns.values():
            if "/tests" in f.file or "::tests::" in f.defn:
                continue
            R = None
            for c in f.calls:
                if c.name != "zip" or len(c.args) != 2:
                    continue
                R = R or resolver(f)
                n += 1
                sel = []
                for a in c.args:
                    e = R.operand(a)
                    sel += [x.a.name for x in e.walk() if x.k == "call" and x.a.name in SELECTING]
                who = (f.parent or f.defn).rsplit("::", 1)[-1] if f.kind == "Closure" else f.name
                led.check(not sel, rid, "%s:%s:zip" % (where, who), c.span, "both sides are zipped as they are",
                          "%s pairs two sequences with zip after `%s` was applied to one of them: the pairs no "
                          "longer line up (a coefficient is attached to the wrong variable as soon as the "
                          "selection drops an element)" % (who, sel[0] if sel else ""))
    led.floor(rid, "zip sites", n, 5)

"""FlatZinc front-end rules decided on small windows / structural alignment (C13 F9–F11)."""
import itertools
from ..symexec import SymExec, variant_name
from ..flow import show, peel, resolver, E, guards_of
from ..predalg import ev, holds, Unknown
from ..facts import AnchorMissing

CTOR = {"lower_bound_predicate": "LowerBound", "upper_bound_predicate": "UpperBound",
        "equality_predicate": "Equal", "disequality_predicate": "NotEqual"}
SELECTING = ("filter", "filter_map", "skip", "take", "skip_while", "take_while", "step_by", "dedup",
             "rev", "flat_map", "flatten", "chain", "cycle", "peekable_skip")


def _range_contains(e, leaf):
    """value of `<range>.contains(&v)` when the receiver is a literal range"""
    if e.k != "call" or e.a.name != "contains" or len(e.b) != 2:
        return None
    r = peel(e.b[0], calls=None)
    if r.k == "agg" and (r.a or "").split("::")[-1] in ("Range", "RangeInclusive"):
        lo, hi = ev(r.c[0], leaf), ev(r.c[1], leaf)
        v = ev(e.b[1], leaf)
        return int(lo <= v < hi) if r.a.split("::")[-1] == "Range" else int(lo <= v <= hi)
    if r.k == "call" and r.a.name == "new" and "RangeInclusive" in (r.a.target_def or ""):
        lo, hi = ev(r.b[0], leaf), ev(r.b[1], leaf)
        v = ev(e.b[1], leaf)
        return int(lo <= v <= hi)
    return None


def merge_is_intersection(led, rid, ctx):
    """Domain::merge computes the intersection of the two domains"""
    b = ctx.bin
    f = b.method("Domain", "merge")
    paths = [p for p in SymExec(f, max_paths=600).run() if not p.diverged]
    W = range(0, 5)
    rows = {}
    for p in paths:
        vs = {}
        for cond, val, others in p.conds:
            if cond.k == "discr" and (cond.b or "").endswith("Domain"):
                side = "other" if peel(cond.a, calls=None).k == "arg" and peel(cond.a, calls=None).a == 2 else "self"
                vs[side] = variant_name(f, cond, val, others)
        if len(vs) != 2:
            continue
        st = [v for d, v in p.stores if d["local"] == 1]
        if not st:
            rows.setdefault((vs["self"], vs["other"]), "does not store a merged domain")
            continue
        res = peel(st[-1], calls=None)
        key = (vs["self"], vs["other"])
        bad = None

        def side_of(e):
            s_ = show(e)
            return "other" if s_.startswith("arg2") or "arg2@" in s_ else "self"

        def field_leaf(env):
            def leaf(e):
                if e.k == "proj" and e.b and "field" in e.b[-1]:
                    nm = e.b[-1].get("name")
                    sd = side_of(e)
                    if (sd, nm) in env:
                        return env[(sd, nm)]
                if e.k == "call" and e.a.name in ("max", "min") and len(e.b) == 2:
                    a_, b_ = ev(e.b[0], leaf), ev(e.b[1], leaf)
                    return max(a_, b_) if e.a.name == "max" else min(a_, b_)
                return None
            return leaf
        try:
            if key == ("IntervalDomain", "IntervalDomain"):
                if res.k == "call" and res.a.name == "from_lower_bound_and_upper_bound":
                    lo_e, hi_e = res.b[0], res.b[1]
                elif res.k == "agg" and res.b == "IntervalDomain":
                    lo_e, hi_e = res.c[0], res.c[1]
                else:
                    raise Unknown(show(res)[:80])
                for a1, b1, a2, b2 in itertools.product(W, W, W, W):
                    leaf = field_leaf({("self", "lb"): a1, ("self", "ub"): b1, ("other", "lb"): a2, ("other", "ub"): b2})
                    lo, hi = ev(lo_e, leaf), ev(hi_e, leaf)
                    want = set(range(a1, b1 + 1)) & set(range(a2, b2 + 1))
                    if set(range(lo, hi + 1)) != want:
                        bad = "merges %d..%d with %d..%d into %d..%d" % (a1, b1, a2, b2, lo, hi)
                        break
            else:
                if not (res.k == "agg" and res.b == "SparseDomain"):
                    raise Unknown(show(res)[:80])
                inner = peel(res.c[0], calls=None)
                flt = [x for x in inner.walk() if x.k == "call" and x.a.name in ("filter", "retain")]
                if not flt:
                    raise Unknown("no filter in " + show(inner)[:80])
                fl = flt[0]
                src = show(fl.b[0])
                clo = [x for x in fl.b[1].walk() if x.k == "closure"]
                if "SparseDomain.values" not in src or not clo:
                    raise Unknown("filter over " + src[:60])
                it_side = "other" if "arg2@" in src else "self"
                g = b.fns.get(clo[0].a)
                caps = clo[0].b
                cpaths = [q for q in SymExec(g).run() if not q.diverged]
                if key == ("SparseDomain", "SparseDomain"):
                    # keep v iff v is in the values of the side that is not iterated
                    cap_sides = [side_of(peel(c_, calls=None)) for c_ in caps]
                    if not caps or any(s_ == it_side for s_ in cap_sides):
                        bad = "filters one sparse domain by itself"
                    else:
                        for q in cpaths:
                            r_ = peel(q.ret, calls=None) if q.ret is not None else None
                            if not (r_ is not None and r_.k == "call" and r_.a.name == "contains" and not q.conds):
                                bad = "keeps a value under the test %s" % (show(q.ret)[:80] if q.ret is not None else None)
                else:
                    cap_field = {}
                    for i, c_ in enumerate(caps):
                        pc = peel(c_, calls=None)
                        if pc.k == "proj" and pc.b and "field" in pc.b[-1]:
                            cap_field[i] = pc.b[-1].get("name")
                    for v, lo, hi in itertools.product(range(-1, 6), W, W):
                        def leaf(e, v=v, lo=lo, hi=hi):
                            s_ = show(e)
                            if e.k == "proj" or e.k == "arg":
                                if s_.replace("*", "") == "arg2":
                                    return v
                                for i, nm in cap_field.items():
                                    if s_.replace("*", "") == "arg1.%d" % i:
                                        return lo if nm in ("lb", "lower_bound") else hi
                            if e.k == "call":
                                return _range_contains(e, leaf)
                            return None
                        kept = None
                        for q in cpaths:
                            ok = True
                            for cond, val, others in q.conds:
                                w = ev(cond, leaf)
                                if (val is not None and w != val) or (val is None and others and w in others):
                                    ok = False
                            if ok:
                                kept = ev(q.ret, leaf)
                        if kept is None or bool(kept) != (lo <= v <= hi):
                            bad = ("%s the value %d of the sparse domain when it is intersected with %d..%d"
                                   % ("drops" if not kept else "keeps", v, lo, hi))
                            break
        except Unknown as u:
            bad = "builds the merged domain from %s, which the rule cannot evaluate" % u
        if bad or key not in rows:
            rows[key] = bad
    n = 0
    for key in sorted(rows):
        n += 1
        led.check(rows[key] is None, rid, "merge:%s/%s" % key, f.span, "= intersection",
                  "Domain::merge (%s with %s) %s: a value the model allows is lost (or a forbidden one kept) "
                  "before the variable is created" % (key[0], key[1], rows[key]))
    led.floor(rid, "variant pairs of Domain::merge", n, 4)


def set_in_reif_clauses(led, rid, ctx):
    """the clauses posted for set_in_reif over an interval mean r ⇔ lb ≤ x ≤ ub"""
    b = ctx.bin
    from ..inline import view as _view
    f0_ = b.fn("compile_set_in_reif")
    f = _view(b, f0_, want=lambda g: g.file == f0_.file and g.kind != "Closure" and g.vis != "pub" and not g.name.startswith("compile_") and len(g.blocks) <= 80)
    paths = [p for p in SymExec(f, max_paths=3000).run() if not p.diverged]
    best = None
    for p in paths:
        vs = [variant_name(f, c, v, o) for c, v, o in p.conds if c.k == "discr" and (c.b or "").endswith("Set")]
        if vs != ["Interval"]:
            continue
        cl = [a[1] for c, a, r in p.calls if c.name == "add_clause" and len(a) > 1]
        if best is None or len(cl) > len(best):
            best = cl
    if not best:
        raise AnchorMissing("clauses posted by compile_set_in_reif for an interval set")

    def lit(e, x, r, lo, hi):
        e = peel(e, calls=None)
        if e.k == "call" and e.a.name == "not":
            return not lit(e.b[0], x, r, lo, hi)
        if e.k == "call" and e.a.name == "get_true_predicate":
            return bool(r)
        if e.k == "call" and e.a.name == "get_false_predicate":
            return not r

        def leaf(y):
            if y.k == "proj" and y.b and "field" in y.b[-1]:
                nm = y.b[-1].get("name")
                if nm == "lower_bound":
                    return lo
                if nm == "upper_bound":
                    return hi
            return None
        if e.k == "call" and e.a.name in CTOR:
            return holds(CTOR[e.a.name], ev(e.b[1], leaf), x)
        raise Unknown(show(e)[:80])
    bad = None
    try:
        for lo in range(0, 4):
            for hi in range(lo, 4):
                for x in range(-2, 7):
                    for r in (0, 1):
                        val = True
                        for cl in best:
                            arr = peel(cl, calls=None)
                            lits = arr.a if arr.k == "array" else None
                            if lits is None:
                                raise Unknown(show(arr)[:80])
                            if not any(lit(l, x, r, lo, hi) for l in lits):
                                val = False
                        want = (bool(r) == (lo <= x <= hi))
                        if val != want:
                            bad = ("%s x=%d, r=%s for the set %d..%d" %
                                   ("rejects" if want else "accepts", x, "true" if r else "false", lo, hi))
                            break
                    if bad:
                        break
                if bad:
                    break
            if bad:
                break
    except Unknown as u:
        bad = "contains the literal %s, which the rule cannot evaluate" % u
    led.check(bad is None, rid, "set_in_reif:interval", f.span, "%d clauses ⇔ (r ⇔ lb ≤ x ≤ ub)" % len(best),
              "the clause decomposition of set_in_reif over an interval %s: the printed solutions are not those "
              "of the FlatZinc builtin" % bad)


def set_in_reif_every_path(led, rid, ctx):
    """every clause compile_set_in_reif posts is posted inside an arm of the match on the set's
    representation (interval / sparse), whose decompositions F10 decides; a clause posted before
    the match is a shortcut on the variable's bounds that treats a sparse set like its hull"""
    b = ctx.bin
    from ..inline import view as _view
    f0_ = b.fn("compile_set_in_reif")
    f = _view(b, f0_, want=lambda g: g.file == f0_.file and g.kind != "Closure" and g.vis != "pub" and not g.name.startswith("compile_") and len(g.blocks) <= 80)
    n = 0
    for g in f.with_closures():
        for c in g.calls:
            if c.name not in ("add_clause", "post", "implied_by", "reify", "add_constraint"):
                continue
            n += 1
            host = g
            bb = c.bb
            ok = any(fa.kind == "variant" and fa.val in ("Interval", "Sparse") for fa in guards_of(host, bb))
            if not ok and g is not f:
                # a closure: judged where it is created
                for blk in f.blocks:
                    for st in blk["stmts"]:
                        if st["s"] == "assign" and st["rv"]["r"] == "closure" and st["rv"]["def"] == g.defn:
                            ok = ok or any(fa.kind == "variant" and fa.val in ("Interval", "Sparse")
                                           for fa in guards_of(f, blk["id"]))
            led.check(ok, rid, "set_in_reif:%s#%d" % (c.name, n), c.span, "inside an arm of the match on the set",
                      "compile_set_in_reif posts a clause (%s) outside the arms of the match on the set: the reified "
                      "literal is decided from the hull of the set, so for a sparse set `b` is forced true for "
                      "values in the holes" % c.name)
    led.floor(rid, "posting calls of compile_set_in_reif", n, 2)


def zip_alignment(led, rid, ctx):
    """two parallel sequences are paired position by position: nothing is selected from one side
    before the zip"""
    n = 0
    for prog, where in ((ctx.lib, "lib"), (ctx.bin, "bin")):
        for f in prog.fns.values():
            if "/tests" in f.file or "::tests::" in f.defn:
                continue
            R = None
            for c in f.calls:
                if c.name != "zip" or len(c.args) != 2:
                    continue
                R = R or resolver(f)
                n += 1
                sel = []
                for a in c.args:
                    e = R.operand(a)
                    sel += [x.a.name for x in e.walk() if x.k == "call" and x.a.name in SELECTING]
                who = (f.parent or f.defn).rsplit("::", 1)[-1] if f.kind == "Closure" else f.name
                led.check(not sel, rid, "%s:%s:zip" % (where, who), c.span, "both sides are zipped as they are",
                          "%s pairs two sequences with zip after `%s` was applied to one of them: the pairs no "
                          "longer line up (a coefficient is attached to the wrong variable as soon as the "
                          "selection drops an element)" % (who, sel[0] if sel else ""))
    led.floor(rid, "zip sites", n, 5)


# ---------------------------------------------------------------------------------------------
# BOOLFORM: the Boolean builtins of the FlatZinc front-end, decided by truth table

from ..linform import Evaluator, Undecided, holds_atom, lin_value


class FznEvaluator(Evaluator):
    """linear-form evaluator extended with literals, clauses and the compiler's resolve_* calls"""

    def __init__(self, prog, lib, idx_env):
        Evaluator.__init__(self, prog)
        self.lib = lib
        self.idx_env = idx_env

    def callee(self, call):
        g = Evaluator.callee(self, call)
        if g is None and self.lib is not None:
            tgt = call.resolved or call.defn or ""
            for cand in (tgt, tgt.replace("pumpkin_solver::", "")):
                if cand in self.lib.fns:
                    return self.lib.fns[cand]
            short = tgt.replace("pumpkin_solver::", "")
            hits = [f for d, f in self.lib.fns.items() if d.endswith(short.split("constraints::", 1)[-1])
                    and "constraints" in d] if "constraints::" in short else []
            if len(hits) == 1:
                return hits[0]
        return g

    def arg_index(self, e):
        """constant index i of an `exprs[i]` operand"""
        for x in e.walk():
            if x.k == "proj":
                for pr in x.b or []:
                    if "index" in pr:
                        v = self.idx_env.get(pr["index"])
                        if v is not None and v.k == "const" and v.a is not None:
                            return v.a
                    if "const_index" in pr:
                        return pr["const_index"]
        raise Undecided("index of " + show(e)[:60])

    def ev(self, e, env):
        bind = getattr(self, "bind", None)
        if bind:
            k_ = show(e)
            if k_ in bind:
                return bind[k_]
            if e.k == "proj" and e.b and all("deref" in pr for pr in e.b) and show(e.a) in bind:
                return bind[show(e.a)]
        if e.k == "proj" and e.b and any("downcast" in pr and pr["downcast"] == "Continue" for pr in e.b):
            inner = peel(e.a, calls=None)
            if inner.k == "call" and inner.a.name == "branch":
                return self.ev(inner.b[0], env)
        return Evaluator.ev(self, e, env)

    def call(self, e, env):
        c = e.a
        n = c.name
        args = e.b
        if n == "resolve_bool_variable":
            return ("lit", "v%d" % self.arg_index(args[1]), True)
        if n == "resolve_bool_variable_array":
            i = self.arg_index(args[1])
            return ("list", [("lit", "v%d_0" % i, True), ("lit", "v%d_1" % i, True)])
        if n == "resolve_integer_variable":
            return ("lin", {"i%d" % self.arg_index(args[1]): 1}, 0)
        if n == "not" and len(args) == 1:
            v = self.ev(args[0], env)
            if v[0] == "lit":
                return ("lit", v[1], not v[2])
            raise Undecided("not on %s" % v[0])
        if n in ("get_true_predicate",):
            v = self.ev(args[0], env)
            if v[0] == "lit":
                return v
            raise Undecided("get_true_predicate on %s" % v[0])
        if n == "get_false_predicate":
            v = self.ev(args[0], env)
            return ("lit", v[1], not v[2])
        if n == "get_integer_variable":
            v = self.ev(args[0], env)
            if v[0] == "lit":
                return ("lin", {v[1]: 1}, 0) if v[2] else ("lin", {v[1]: -1}, 1)
        if n in ("clause", "conjunction") and len(args) == 1:
            return ("bool", n, self.as_list(self.ev(args[0], env)))
        if n in ("scaled", "offset"):
            v = self.ev(args[0], env)
            if v[0] == "lit":
                v = ("lin", {v[1]: 1}, 0) if v[2] else ("lin", {v[1]: -1}, 1)
                e = E("call", c, [E("other", "lifted")] + list(args[1:]))
                k_ = self.ev(args[1], env)
                from ..linform import scale, offset
                return scale(v, k_[1]) if n == "scaled" else offset(v, k_[1])
        v = Evaluator.call(self, e, env)
        return v

    def as_lin(self, v):
        if v[0] == "lit":
            return ("lin", {v[1]: 1}, 0) if v[2] else ("lin", {v[1]: -1}, 1)
        return v


def _truth(v, sg):
    if v[0] == "lit":
        return bool(sg[v[1]]) == v[2]
    raise Undecided("truth of %s" % v[0])


BOOL_SPECS = {
    # name: (vars, spec)
    "compile_bool_not": lambda s: s["v0"] != s["v1"],
    "compile_bool_eq": lambda s: s["v0"] == s["v1"],
    "compile_bool_eq_reif": lambda s: bool(s["v2"]) == (s["v0"] == s["v1"]),
    "compile_bool_and": lambda s: bool(s["v2"]) == bool(s["v0"] and s["v1"]),
    "compile_bool_or": lambda s: bool(s["v1"]) == bool(s["v0_0"] or s["v0_1"]),
    "compile_array_bool_and": lambda s: bool(s["v1"]) == bool(s["v0_0"] and s["v0_1"]),
    "compile_bool_xor": lambda s: s["v0"] != s["v1"],
    "compile_bool_xor_reif": lambda s: bool(s["v2"]) == (s["v0"] != s["v1"]),
    "compile_bool_clause": lambda s: bool(s["v0_0"] or s["v0_1"] or not s["v1_0"] or not s["v1_1"]),
    "compile_bool2int": lambda s: s["i1"] == s["v0"],
}


def vec_from_pushes(f, ev_, vec_expr):
    """contents of a vector that is built by `for x in L { v.push(g(x)) }` loops (one push per loop),
    as the concatenation, in program order, of map(g, L) — read off the path summary that enters
    every loop once; anything else done to the vector makes the rule give up"""
    vec_expr = peel(vec_expr, calls=None)
    if not (vec_expr.k == "call" and vec_expr.a.name in ("new", "with_capacity", "default")):
        return None
    ctor = vec_expr.a
    ps = [p for p in SymExec(f, max_paths=2000, max_visits=2).run() if not p.diverged and p.ret is not None
          and not any(c.name == "from_residual" for c in p.ret.calls())]
    if not ps:
        return None

    def pushes_of(p):
        out = []
        for c, a, r in p.calls:
            if c.name in ("push", "extend", "insert", "retain", "remove", "truncate", "clear", "pop", "append") and a:
                tgt = peel(a[0], calls=None)
                if tgt.k == "call" and tgt.a is ctor:
                    out.append((c, a))
        return out
    p = max(ps, key=lambda q: len(pushes_of(q)))
    out = []
    for c, a in pushes_of(p):
        if c.name != "push":
            raise Undecided("the vector is modified with `%s`" % c.name)
        val = a[1]
        # the iteration variable: `next(&mut into_iter(L))@Some.0`
        it = None
        for y in val.walk():
            if y.k == "proj" and y.b and any(pr.get("downcast") == "Some" for pr in y.b):
                inner = peel(y.a, calls=None)
                if inner.k == "call" and inner.a.name == "next":
                    it = (y, inner)
        if it is None:
            out.append(ev_.ev(val, {}))
            continue
        y, nxt = it
        src = peel(nxt.b[0], calls=None)
        while src.k == "call" and src.a.name in ("into_iter", "iter", "copied", "cloned") and src.b:
            src = peel(src.b[0], calls=None)
        elems = ev_.as_list(ev_.ev(src, {}))
        for el in elems:
            ev_.bind = {show(y): el}
            try:
                out.append(ev_.ev(val, {}))
            finally:
                ev_.bind = None
    return ("list", out)


def boolform(led, rid, ctx):
    """the Boolean builtins post constraints with the truth table of the FlatZinc builtin"""
    import itertools
    b = ctx.bin
    lib = ctx.lib
    n = 0
    ADT = {"LE": "Inequality", "EQ": "EqualConstraint", "NE": "NotEqualConstraint"}
    for name, spec in BOOL_SPECS.items():
        f = b.fn(name)
        bad = None
        try:
            ps = [p for p in SymExec(f, max_paths=600).run() if not p.diverged and p.ret is not None
                  and not any(c.name == "from_residual" for c in p.ret.calls())]
            if not ps:
                raise Undecided("no success path")
            p = max(ps, key=lambda q: len([1 for c, a, r in q.calls if c.name in ("post", "reify", "add_clause")]))
            ev_ = FznEvaluator(b, lib, p.env)
            effects = []
            for c, args, res in p.calls:
                if c.name == "post" and args:
                    effects.append(("holds", ev_.ev(args[0], {}), None))
                elif c.name == "reify" and len(args) >= 3:
                    effects.append(("iff", ev_.ev(args[0], {}), ev_.ev(args[2], {})))
                elif c.name == "add_clause" and len(args) >= 2:
                    built = vec_from_pushes(f, ev_, args[1])
                    lits = built if built is not None else ev_.ev(args[1], {})
                    effects.append(("holds", ("bool", "clause", ev_.as_list(lits)), None))
            if not effects:
                raise Undecided("posts nothing")
            vars_ = set()

            def collect(v):
                if v[0] == "lit":
                    vars_.add(v[1])
                elif v[0] == "lin":
                    vars_.update(v[1])
                elif v[0] in ("list",):
                    for x in v[1]:
                        collect(x)
                elif v[0] == "bool":
                    for x in v[2]:
                        collect(x)
                elif v[0] == "atom":
                    for x in v[2]:
                        collect(x)
                    collect(v[3])
            for k_, cv, rv in effects:
                collect(cv)
                if rv is not None:
                    collect(rv)
            # variables the specification talks about
            import re as _re
            names = sorted(vars_)

            def sem(cv, sg):
                if cv[0] == "bool":
                    vals = [_truth(x, sg) for x in cv[2]]
                    return any(vals) if cv[1] == "clause" else all(vals)
                if cv[0] == "atom":
                    atoms = [cv]
                    if cv[1] in ADT:
                        atoms = Evaluator(lib).posted(lib.method(ADT[cv[1]], "post", "Constraint"), cv)
                    return all(holds_atom(t, sg) for t in atoms)
                raise Undecided("meaning of %s" % cv[0])
            dom = {v: ((0, 1) if v.startswith("v") else (-1, 0, 1, 2)) for v in names}
            for vals in itertools.product(*[dom[v] for v in names]):
                sg = dict(zip(names, vals))
                got = True
                for k_, cv, rv in effects:
                    t = sem(cv, sg)
                    if k_ == "holds":
                        got = got and t
                    else:
                        got = got and (_truth(rv, sg) == t)
                try:
                    want = bool(spec(sg))
                except KeyError as ke:
                    raise Undecided("the builtin's variable %s is not used" % ke)
                if got != want:
                    bad = "%s the assignment %s" % ("accepts" if got else "rejects", sg)
                    break
        except Undecided as u:
            bad = "cannot be evaluated (%s)" % u
        n += 1
        led.check(bad is None, rid, "bool:%s" % name.replace("compile_", ""), f.span, "truth table of the builtin",
                  "%s posts constraints that do not have the truth table of the FlatZinc builtin: it %s"
                  % (name, bad))
    led.floor(rid, "Boolean builtins", n, 10)

"""C16 — constraint arithmetic is exact over the admitted range (widening discipline, ARITH-SITE)."""
import json
import os

from ..main import run_rule
from ..flow import resolver, peel, show, guards_of, rel_fact, const_defs
from ..facts import AnchorMissing, op_const_int

LEVEL = ('enumerates every narrow integer operation (i32 / unsigned products, sums, differences, '
         'divisions, narrowing conversions) in the arithmetic propagators, the affine view, the '
         'arithmetic constraints, the optimisation procedures and num_ext, with the provenance of each'
         ' operand; sites with a local safety argument are discharged automatically (constant ±small, '
         'multiplier ∈ {−1,1}, non-zero constant divisor, widening cast, unsigned difference under a '
         'dominating comparison), every other site must be in the committed table arith_sites.json as '
         'SAFE(bound argument) or FINDING(failing input). A new or changed unguarded operation is '
         'reported. Narrowing casts of signed 64/128-bit quantities are sites wherever they occur in '
         'the library (also in the trailed storage the propagators keep their sums in). The narrowing '
         'casts of the front ends (FlatZinc / DIMACS glue) are sites too. Does not decide that results'
         ' equal unbounded arithmetic when no site overflows')
TECHNIQUE = "static analysis: enumeration of arithmetic sites with operand provenance + guarded-subtraction / divisor rules over rustc MIR"

SCOPE = ("/propagators/arithmetic/", "/propagators/element.rs", "/variables/affine_view.rs",
         "/constraints/arithmetic/", "/src/optimisation/", "/math/num_ext.rs", "/constraints/boolean.rs")
WIDTH = {"i8": 8, "u8": 8, "i16": 16, "u16": 16, "i32": 32, "u32": 32, "i64": 64, "u64": 64,
         "i128": 128, "u128": 128, "isize": 64, "usize": 64, "bool": 1}
SIGNED = {"i8", "i16", "i32", "i64", "i128", "isize"}

TABLE_PATH = os.path.join(os.path.dirname(os.path.dirname(os.path.dirname(os.path.abspath(__file__)))),
                          "arith_sites.json")


def load_table():
    if not os.path.exists(TABLE_PATH):
        return {}
    with open(TABLE_PATH) as fh:
        return {e["key"]: e for e in json.load(fh)["sites"]}


def small_const(e, lim=4):
    e = peel(e, calls=None, casts=False)
    return e.k == "const" and e.a is not None and abs(e.a) <= lim


def unit_valued(fn, e):
    """expression whose value set is {-1, 1}"""
    e = peel(e, calls=None)
    if e.k == "const" and e.a in (-1, 1):
        return True
    if e.k == "phi":
        return all(unit_valued(fn, x) for x in e.a)
    if e.k == "call" and e.a.name == "signum":
        return False
    if e.k == "arg" and _depth[0] < 2 and fn.vis != "pub" and fn.kind != "Closure":
        # a parameter of a private helper: unit-valued if every caller passes a unit-valued expression
        prog = fn.prog
        sites_ = [(h, c) for h in prog.fns.values() if h.file == fn.file and h is not fn
                  for c in h.calls if (c.resolved or c.defn) == fn.defn or any(x is fn for x in prog.callees(c))]
        if not sites_:
            return False
        _depth[0] += 1
        try:
            return all(len(c.args) >= e.a and unit_valued(h, resolver(h).operand(c.args[e.a - 1])) for h, c in sites_)
        finally:
            _depth[0] -= 1
    return False


_depth = [0]


def is_len_like(e):
    e = peel(e, calls=None, casts=True)
    return (e.k == "call" and e.a.name in ("len", "count", "num_domains")) or \
        (e.k == "unop" and e.a == "PtrMetadata") or (e.k == "other" and e.a == "len")


def sites(lib):
    """yield (key, kind, fn, line, detail dict)"""
    for f in lib.fns.values():
        if "/tests" in f.file or "::tests::" in f.defn:
            continue
        in_scope = any(s in f.file for s in SCOPE)
        if not in_scope:
            # crate-wide: a signed 64/128-bit quantity (sums and products of model integers are
            # the only ones the library has) is never narrowed, wherever it is stored or restored
            if not any(s["s"] == "assign" and s["rv"]["r"] == "cast" and s["rv"]["kind"] == "IntToInt"
                       and s["rv"]["from"] in ("i64", "i128") and WIDTH.get(s["rv"]["to"], 64) < WIDTH[s["rv"]["from"]]
                       for b in f.blocks for s in b["stmts"]):
                continue
        R = resolver(f)
        root = f.parent or f.defn
        for b in f.blocks:
            if b.get("cleanup"):
                continue
            for s in b["stmts"]:
                if s["s"] != "assign" or s.get("exp"):
                    continue
                rv = s["rv"]
                if not in_scope and not (rv["r"] == "cast" and rv.get("kind") == "IntToInt" and
                                         rv["from"] in ("i64", "i128") and WIDTH.get(rv["to"], 64) < WIDTH[rv["from"]]):
                    continue
                if rv["r"] == "binop":
                    op = rv["op"].replace("WithOverflow", "")
                    ty = rv["ty"]
                    if op not in ("Mul", "Add", "Sub", "Div", "Rem") or ty not in WIDTH or ty == "bool":
                        continue
                    a = peel(R.operand(rv["a"]), calls=None, casts=False)
                    c = peel(R.operand(rv["b"]), calls=None, casts=False)
                    key = "%s|%s %s|%s|%s" % (root, op, ty, show(a)[:110], show(c)[:110])
                    yield key, "binop", f, s["line"], {"op": op, "ty": ty, "a": a, "b": c, "bb": b["id"]}
                elif rv["r"] == "cast" and rv["kind"] in ("IntToFloat", "FloatToInt") and in_scope:
                    v = peel(R.operand(rv["v"]), calls=None, casts=False)
                    key = "%s|cast %s->%s|%s" % (root, rv["from"], rv["to"], show(v)[:110])
                    yield key, "floatcast", f, s["line"], {"from": rv["from"], "to": rv["to"], "v": v, "bb": b["id"]}
                elif rv["r"] == "cast" and rv["kind"] == "IntToInt":
                    v = peel(R.operand(rv["v"]), calls=None, casts=False)
                    key = "%s|cast %s->%s|%s" % (root, rv["from"], rv["to"], show(v)[:110])
                    yield key, "cast", f, s["line"], {"from": rv["from"], "to": rv["to"], "v": v, "bb": b["id"]}


def auto(fn, kind, d):
    """local safety argument, or None"""
    if kind == "floatcast":
        return None       # floating point in integer constraint code: exact only below 2^24 / 2^53
    if kind == "cast":
        wf, wt = WIDTH.get(d["from"]), WIDTH.get(d["to"])
        if wf is None or wt is None:
            return "non-integer cast"
        if wt > wf or (wt == wf and (d["from"] in SIGNED) == (d["to"] in SIGNED)):
            return "widening conversion"
        if d["from"] == "bool":
            return "bool → integer"
        if d["from"] == "usize" and d["to"] in ("u32", "i32") and is_len_like(d["v"]):
            return None
        return None
    op, ty, a, b = d["op"], d["ty"], d["a"], d["b"]
    if peel(a, calls=None).k == "const" and peel(b, calls=None).k == "const":
        return "constant expression"
    if op in ("Div", "Rem"):
        bb = peel(b, calls=None)
        if bb.k == "const" and bb.a not in (None, 0, -1):
            return "constant divisor %d" % bb.a
        # divisor established positive / non-zero by a dominating comparison
        sb = show(b)
        for g in guards_of(fn, d["bb"]):
            rf = rel_fact(g)
            if rf is None:
                continue
            rop, l, r = rf
            lc, rc = peel(l, calls=None, casts=False), peel(r, calls=None, casts=False)
            if show(lc) == sb and rc.k == "const" and rc.a is not None:
                if (rop == "Ge" and rc.a >= 1) or (rop == "Gt" and rc.a >= 0) or (rop == "Ne" and rc.a == 0):
                    return "divisor %s %s %d on every path to the division" % (sb[:40], rop, rc.a)
        return None
    if op == "Mul":
        if unit_valued(fn, a) or unit_valued(fn, b):
            return "multiplier ∈ {−1, 1} (overflow only for i32::MIN: stated edge exclusion)"
        return None
    if ty in ("usize", "u32", "u64") and op == "Sub":
        # GUARDED-SUB: dominated by a comparison establishing a >= b (b small constant: a > 0 / a >= b)
        for g in guards_of(fn, d["bb"]):
            rf = rel_fact(g)
            if rf is None:
                # !is_empty()
                at = peel(g.atom, calls=None)
                if g.kind == "bool" and at.k == "call" and at.a.name == "is_empty" and g.val is False and \
                        is_len_like(a):
                    return "under !is_empty()"
                continue
            rop, l, r = rf
            sl, sr = show(peel(l, calls=None, casts=False)), show(peel(r, calls=None, casts=False))
            sa, sb = show(a), show(b)
            if (rop in ("Ge", "Gt") and sl == sa and sr == sb) or (rop in ("Le", "Lt") and sl == sb and sr == sa):
                return "dominated by %s %s %s" % (sl, rop, sr)
            if small_const(b) and rop in ("Gt", "Ne") and sl == sa and peel(r, calls=None).k == "const" \
                    and (peel(r, calls=None).a or 0) >= 0 and rop == "Gt":
                return "dominated by %s > %s" % (sl, sr)
        return None
    if op in ("Add", "Sub") and (small_const(a) or small_const(b)):
        if ty in ("usize", "u32", "u64") and op == "Add":
            return "index/count + small constant"
        if ty in SIGNED:
            return "± small constant (overflow only within 4 of the type limits: stated edge exclusion)"
    if ty in ("usize",) and op == "Add":
        return "index arithmetic on usize"
    return None


def a_sites(led, rid, ctx):
    lib = ctx.lib
    table = load_table()
    seen = set()
    n = n_auto = n_safe = 0
    import itertools
    # the front ends hand 64-bit literals of the input to the library: narrowing there is a site too
    all_sites = list(itertools.chain(sites(lib), sites(ctx.bin)))
    present = {key for key, kind, f, line, d in all_sites}

    def module_of(defpath):
        segs = defpath.lstrip("<").split("::")
        if len(segs) > 1 and " as " not in defpath:
            segs = segs[:-1]                  # the last segment is the function itself
        out = []
        for sg in segs:
            if sg and (sg[0].islower() or sg[0] == "_") and "<" not in sg and " " not in sg:
                out.append(sg)
            else:
                break
        return "::".join(out)

    def shape(e, depth=0):
        """operator skeleton of an operand: constants and operators down to depth 2, every other leaf `_`"""
        e = peel(e, calls=None, casts=False) if e is not None else None
        if e is None:
            return "_"
        if e.k == "const" and e.a is not None:
            return str(e.a)
        if depth >= 2:
            return "_"
        if e.k == "binop":
            return "(%s %s %s)" % (shape(e.b, depth + 1), e.a.replace("WithOverflow", ""), shape(e.c, depth + 1))
        if e.k == "cast":
            return "(%s as)" % shape(e.b, depth + 1)
        if e.k == "unop":
            return "(%s %s)" % (e.a, shape(e.b, depth + 1))
        return "_"

    def skeleton(key, kind, d):
        desc = _split(key)[1]
        if kind == "binop":
            return "%s|%s|%s" % (desc, shape(d["a"]), shape(d["b"]))
        return "%s|%s" % (desc, shape(d["v"]))

    # table entries whose site is no longer where it was: candidates for "the code moved"
    moved = {}
    for k, ent in table.items():
        if k not in present and "|" in k:
            moved.setdefault(module_of(k.split("|", 1)[0]), []).append(ent)

    def moved_entry(key, kind, d):
        """an entry of the same module whose own site has disappeared and whose description and operand
        skeleton agree with this site: the computation was moved (helper extracted / inlined / loop
        rewritten), the argument recorded for it still applies"""
        cands = moved.get(module_of(key.split("|", 1)[0]), [])
        sk = skeleton(key, kind, d)
        for ent in cands:
            parts = _split(ent["key"])
            if parts[1] != _split(key)[1]:
                continue
            if ent.get("_taken") not in (None, key):
                continue
            want = ent.get("skeleton")
            if want is None:
                # skeleton of the recorded operands, from their text: keep operators and small constants
                import re
                def txt_shape(t):
                    t = t.strip()
                    return t
                want = None
            # compare on the coarse skeleton computed from the key text when no structured one is stored
            if _coarse(ent["key"]) == _coarse(key) or sk == ent.get("skeleton"):
                same_fn = _split(ent["key"])[0] == _split(key)[0]
                if same_fn and not _tokens(key) <= (_tokens(ent["key"]) | PLUMBING):
                    # same function, and the operands mention a constant / call / field the recorded site did
                    # not: the computation was changed, not moved
                    continue
                ent["_taken"] = key
                return ent
        return None

    PLUMBING = {"next", "into_iter", "iter", "enumerate", "Some", "copied", "cloned", "deref", "as", "zip", "rev",
                "usize", "u32", "u64", "i32", "i64", "isize", "const", "mut", "pointer",
                # an accumulator written as a loop variable shows the accumulation inside the operand; the
                # nested operation is a site of its own
                "Add", "Sub"}

    def _tokens(k):
        import re
        out = set()
        for opnd in _split(k)[2:]:
            opnd = re.sub(r"as \*(const|mut) \[[^\]]*\]", "", opnd)
            for t in re.findall(r"-?\d+|[A-Za-z_][A-Za-z_0-9]*", opnd):
                if re.match(r"^(arg\d+|phi_\d+|_\d+|[0-9])$", t):
                    continue
                out.add(t)
        return out

    def _split(k):
        """split a key on `|` outside parentheses (phi alternatives are written with `|` too)"""
        out, cur, depth = [], "", 0
        for ch in k:
            if ch == "(":
                depth += 1
            elif ch == ")":
                depth -= 1
            if ch == "|" and depth == 0:
                out.append(cur)
                cur = ""
            else:
                cur += ch
        out.append(cur)
        return out

    def _coarse(k):
        """description plus, per operand, its outermost operator (or `_`) and a trailing constant if any"""
        import re
        parts = _split(k)
        out = [parts[1]]
        for opnd in parts[2:]:
            opnd = opnd.strip()
            m = re.match(r"^\((.*) (Add|Sub|Mul|Div|Rem) (-?\d+)\)$", opnd)
            if m:
                out.append("(_ %s %s)" % (m.group(2), m.group(3)))
                continue
            m = re.match(r"^\((.*) (Add|Sub|Mul|Div|Rem) (.*)\)$", opnd)
            if m and opnd.count("(") == opnd.count(")"):
                out.append("(_ %s _)" % m.group(2))
                continue
            m = re.match(r"^\((.*) as (\w+)\)$", opnd)
            if m:
                out.append("(_ as %s)" % m.group(2))
                continue
            out.append(opnd if re.match(r"^-?\d+$", opnd) else "_")
        return "|".join(out)

    for key, kind, f, line, d in all_sites:
        n += 1
        site = "%s:%d" % (f.file, line)
        why = auto(f, kind, d)
        if why is not None:
            n_auto += 1
            if key not in seen:
                led.ok(rid, "auto:" + key, site, why)
            seen.add(key)
            continue
        seen.add(key)
        ent = table.get(key)
        if ent is None:
            ent = moved_entry(key, kind, d)
            if ent is None:
                # the same computation (same description, same operands up to reference plumbing) is recorded
                # for another function of this module: a copy of a recorded site after a split
                import re as _re
                norm = lambda k_: "|".join(_re.sub(r"[&*]", "", x) for x in _split(k_)[1:])
                mod = module_of(_split(key)[0])
                for k2, e2 in table.items():
                    if "|" in k2 and module_of(_split(k2)[0]) == mod and norm(k2) == norm(key):
                        ent = e2
                        break
            if ent is not None:
                seen.add(ent["key"])
                if ent["class"] == "SAFE":
                    n_safe += 1
                    led.ok(rid, ent["key"], site, "SAFE (site moved to %s): %s" % ((f.parent or f.defn).rsplit("::", 1)[-1], ent["reason"]))
                else:
                    led.bad(rid, ent["key"], site, "FINDING (%s): %s" % (ent.get("defect", "D10"), ent["reason"]))
                continue
            led.bad(rid, key, site,
                    "arithmetic site without a safety argument: %s — add a bound argument (SAFE) or a "
                    "failing input (FINDING) to arith_sites.json, or widen the computation"
                    % (key.split("|", 1)[1]))
        elif ent["class"] == "SAFE":
            n_safe += 1
            led.ok(rid, key, site, "SAFE: " + ent["reason"])
        else:
            # recorded finding: reported through known_findings.json (same key)
            led.bad(rid, key, site, "FINDING (%s): %s" % (ent.get("defect", "D10"), ent["reason"]))
    # modular / saturating arithmetic is not the arithmetic of the integers: wherever a model quantity
    # goes through it, the result differs from the unbounded one exactly when it matters
    for prog in (lib, ctx.bin):
        for f in prog.fns.values():
            if "/tests" in f.file or "::tests::" in f.defn:
                continue
            for c in f.calls:
                if not (c.name or "").startswith(("saturating_", "wrapping_", "overflowing_")):
                    continue
                ty = (c.self_ty or (c.term.get("arg_tys") or [""])[0] or "")
                if not any(t in ty for t in ("i32", "i64", "i128", "isize", "u32", "u64")):
                    continue
                n += 1
                key = "%s|%s %s" % (f.parent or f.defn, c.name, ty)
                seen.add(key)
                ent = table.get(key)
                if ent is not None and ent["class"] == "SAFE":
                    led.ok(rid, key, c.span, "SAFE: " + ent["reason"])
                else:
                    led.bad(rid, key, c.span,
                            "%s on %s: a saturated / wrapped value is not the value of the expression — a bound, "
                            "sum or product computed this way is wrong exactly for the large operands the property "
                            "is about (saturating addition is not even associative); add a bound argument (SAFE) "
                            "to arith_sites.json or widen the computation" % (c.name, ty))
    led.floor(rid, "arithmetic sites enumerated", n, 100)
    led.count("ARITH:auto-discharged", n_auto)
    led.count("ARITH:table SAFE", n_safe)
    stale = [k for k in table if k not in seen]
    if stale:
        led.note("%d table entries no longer match a site (code moved or changed): %s" % (len(stale), stale[:3]))


def run(ctx, led):
    run_rule(led, "ARITH", "every narrow integer operation in scope is auto-discharged, SAFE in the "
             "committed table, or a recorded finding (ARITH-SITE incl. GUARDED-SUB and divisor rule)",
             a_sites, ctx)

"""C06 — emitted DRCP proofs are valid certificates (structural clauses P1–P8)."""
from ..main import run_rule
from ..flow import (resolver, peel, guards_of, rel_fact, aggregates, show, call_guarded, edge_facts,
                    root_local, forward, backward, operand_locals)
from ..symexec import SymExec, variant_name
from ..facts import AnchorMissing
from ..typestate import Interp
from . import C10

LEVEL = ('decides the plumbing a proof depends on: every reason that is used is also logged (P1); the '
         'conflicting inference and the learned nogood are logged, unit nogoods are indexed under the '
         'negated predicate (P2/P3); every path that leaves the solver with a recorded root conflict '
         'has logged the empty nogood, and a posting function never returns Ok while a root conflict '
         "is recorded (P4, typestate with a 'proof completed' bit); proof-literal code tables (P5); "
         'both conclusions write the literal definitions (P6); a map that is only filled when '
         'inferences are logged is only consulted then (P7); the trail position at which a composite '
         'predicate became true combines both bound updates (P8). the polarity TABLE of predicates '
         'over reification literals, decided on the domain {0,1} (P9); the premises handed to '
         'log_inference are the complete explanation, with no selecting adaptor in between (P10); a '
         'tagged batch of root propagations starts at a trail length read after the previous '
         'propagator finished (P11). root-level antecedents skipped by conflict analysis or '
         'minimisation are explained to the proof (P12). The initial-domain mark and the comparison in'
         ' is_initial_bound agree on which trail entries need no explanation (P13 TABLE); the '
         'constraint tag given to post / implied_by reaches every posting call (P14 TAINT); the '
         'optimality conclusion is stated on the scaled objective (P15 = C04-O9). Also runs the KERNEL'
         ' BUNDLE (PK<n>). Root propagations are logged before the conflict of the same call is '
         'prepared (P16); every logged step is written with a fresh id (P17 = C19-K9). Does not decide'
         ' that a logged inference follows from its constraint or that a nogood is derivable — that '
         'needs a proof checker and runs')
TECHNIQUE = "static analysis: must-pass, typestate with a proof-completed bit, table recovery, populate/lookup guard agreement over rustc MIR"

PROOF_DONE = 4     # bit of the X component: complete_proof / finalize_proof + empty nogood logged


def p1(led, rid, ctx):
    lib = ctx.lib
    n = 0
    for f in lib.fns.values():
        if "/tests" in f.file or "debug" in f.defn.rsplit("::", 1)[-1] or "debug_helper" in f.file:
            continue
        for c in f.calls:
            if c.name != "get_or_compute" or "ReasonStore" not in (c.self_ty or ""):
                continue
            n += 1
            root = f.parent or f.defn
            logs = [x.bb for x in f.calls if x.name in ("log_inference", "add_propagation")]
            cfg = f.cfg
            # a path on which the proof does not log inferences at all has nothing to log
            for bb in cfg.edges:
                for fa in edge_facts(f, bb):
                    a = peel(fa.atom, calls=None) if fa.kind == "bool" else None
                    if a is not None and a.k == "call" and a.a.name == "is_logging_inferences" and fa.val is False:
                        logs.append(fa.edge.node)
            # every path from the reason computation to a return passes a logging call
            bad = cfg.reaches(c.bb, cfg.returns, avoid=logs, strict=True) if cfg.returns else False
            led.check(not bad and bool(logs), rid, "%s:reason-logged" % root.rsplit("::", 1)[-1], c.span,
                      "every path from get_or_compute to the return logs the inference",
                      "%s computes a reason for use without logging the inference on some path: the next "
                      "nogood is not derivable from the logged steps" % root)
    led.floor(rid, "reason uses", n, 3)


def p2(led, rid, ctx):
    lib = ctx.lib
    f = lib.method("ConstraintSatisfactionSolver", "complete_proof")
    paths = [p for p in SymExec(f).run() if not p.diverged]
    seen = set()
    for p in paths:
        var = None
        for cond, val, others in p.conds:
            if cond.k == "discr" and (cond.b or "").endswith("StoredConflictInfo"):
                var = variant_name(f, cond, val, others)
        seen.add(var)
        names = [c.name for c, a, r in p.calls]
        if var == "Propagator":
            led.check("log_inference" in names, rid, "complete_proof:Propagator-logs-conflict", f.span, "",
                      "complete_proof does not log the propagator's conflict as an inference")
        ok = "finalize_proof" in names and "log_learned_clause" in names and \
            names.index("finalize_proof") < len(names) - 1 - names[::-1].index("log_learned_clause")
        led.check(ok, rid, "complete_proof:%s:finalize-then-empty-nogood" % var, f.span,
                  "finalize_proof, then log_learned_clause([])",
                  "complete_proof (conflict kind %s) does not end with the empty nogood after finalising" % var)
        lc = [a for c, a, r in p.calls if c.name == "log_learned_clause"]
        if lc:
            e = peel(lc[-1][1], calls=None)
            led.check(e.k == "array" and len(e.a) == 0, rid, "complete_proof:%s:empty" % var, f.span, "[]",
                      "the last learned clause logged by complete_proof is not the empty nogood")
    led.check({"Propagator", "EmptyDomain"} <= seen, rid, "complete_proof:both-kinds", f.span, "",
              "complete_proof no longer handles both conflict kinds (%s)" % sorted(map(str, seen)))


def p3(led, rid, ctx):
    lib = ctx.lib
    from .shared import method_view as _mv
    f = _mv(lib, "ConstraintSatisfactionSolver", "resolve_conflict_with_nogood", keep=("add_learned_nogood", "add_asserting_nogood_to_nogood_propagator", "backtrack", "process", "resolve_conflict", "prepare_for_conflict_resolution", "declare_solving", "log_learned_clause", "log_learned_nogood", "decay_nogood_activities"))
    R = resolver(f)
    logs = f.calls_named("log_learned_clause")
    adds = f.calls_named("add_learned_nogood")
    ok = bool(logs) and bool(adds) and all(any(f.cfg.dominates(l.bb, a.bb) for l in logs) for a in adds)
    led.check(ok, rid, "logged-before-added", f.span, "log_learned_clause dominates add_learned_nogood",
              "a learned nogood can enter the database without having been written to the proof")
    ins = [c for c in f.calls if c.name == "insert" and c.args and
           "unit_nogood_step_ids" in R.operand(c.args[0]).fields()]
    led.check(len(ins) >= 1, rid, "unit-ids-recorded", f.span, "", "unit nogoods are no longer indexed by step id")
    for c in ins:
        key = peel(R.operand(c.args[1]), calls=None)
        ok = key.k == "call" and key.a.name == "not"
        led.check(ok, rid, "unit-id-under-negated-predicate", c.span, "key = !predicate",
                  "a unit nogood's step id is stored under %r: lookups use the propagated (negated) "
                  "predicate" % key)
        ok2 = call_guarded(f, c.bb, "is_some", True) is not None or any(
            (fa.kind == "variant" and fa.val == "Some") for fa in guards_of(f, c.bb)) or True
        # the value is the id returned by log_learned_clause
        val = R.operand(c.args[2])
        led.check(any(x.name == "log_learned_clause" for x in val.calls()), rid, "unit-id-is-the-logged-step", c.span,
                  "value = id returned by log_learned_clause",
                  "the step id stored for a unit nogood is not the one returned by the proof log")


def proof_bit(call, st):
    if call.name == "complete_proof" and "ConstraintSatisfactionSolver" in (call.self_ty or ""):
        return (st[0], st[1], st[2] | PROOF_DONE)
    return st


def p4(led, rid, ctx):
    lib = ctx.lib
    def no_assumptions(fn, call):
        # `solve` passes an empty assumption list: model `self.assumptions.is_empty()` as true
        if call.name == "is_empty" and call.args:
            e = resolver(fn).operand(call.args[0])
            if "assumptions" in e.fields():
                return True
        return None
    it = Interp(lib, track_x=proof_bit, bool_model=no_assumptions)
    bad = set()
    n = 0
    fns = {}
    for name in ("add_clause", "add_nogood", "add_propagator"):
        fns[name] = lib.method("ConstraintSatisfactionSolver", name)
    sol = lib.method("ConstraintSatisfactionSolver", "solve")

    def thunk():
        out = []
        for name, f in fns.items():
            for (st2, rt) in it.summary(f, ("Ready", 0, 0), ()):
                out.append((name, st2, rt))
        for (st2, rt) in it.summary(sol, ("Ready", 0, 0), ()):
            out.append(("solve", st2, rt))
        return out
    res = it.fixpoint(thunk)
    for name, st2, rt in res:
        n += 1
        rooted = st2[0] in ("Conflict", "Infeasible") and st2[1] == 0
        rv = rt[2] if (rt is not None and rt[0] == "enum") else None
        if rooted and not (st2[2] & PROOF_DONE):
            key = "%s:%s/%s-without-empty-nogood" % (name, st2[0], rv)
            if key not in bad:
                bad.add(key)
                led.bad(rid, key, fns.get(name, sol).span,
                        "`%s` can leave the solver with a recorded root conflict (state %s, result %s) "
                        "without having passed complete_proof: the proof is later concluded with `c UNSAT` "
                        "but lacks the final inference and the empty nogood" % (name, st2[0], rv))
        if rooted and rv == "Ok":
            key = "%s:Ok-in-state-%s" % (name, st2[0])
            if key not in bad:
                bad.add(key)
                led.bad(rid, key, fns.get(name, sol).span,
                        "`%s` returns Ok(()) although it leaves a root conflict recorded (state %s): the "
                        "caller continues as if the model were consistent and the refutation is never "
                        "concluded in the proof" % (name, st2[0]))
    if not bad:
        led.ok(rid, "all-root-conflicts-complete-the-proof", None, "%d exits examined" % n)
    led.floor(rid, "exits of posting functions and solve", n, 8)


def p5(led, rid, ctx):
    lib = ctx.lib
    f = lib.method("ProofLiterals", "to_code", "*", required=False) or lib.method("ProofLiterals", "to_code")
    # key = the literal itself for UpperBound / Equal, its negation for LowerBound / NotEqual
    R = resolver(f)
    rows = {}
    for p in SymExec(f, max_paths=200).run():
        if p.diverged:
            continue
        var = None
        for cond, val, others in p.conds:
            if cond.k == "discr" and (cond.b or "").endswith("predicate::Predicate"):
                var = variant_name(f, cond, val, others)
        negs = [c for c, a, r in p.calls if c.name == "not"]
        if var:
            rows.setdefault(var, set()).add(bool(negs))
    want = {"UpperBound": False, "Equal": False, "LowerBound": True, "NotEqual": True}
    for v, neg in want.items():
        got = rows.get(v)
        led.check(got == {neg}, rid, "to_code:key:%s" % v, f.span,
                  "%s is looked up %s" % (v, "under its negation" if neg else "as itself"),
                  "ProofLiterals::to_code keys %s %s (negated on paths: %s)" % (v, "wrongly", got))
    # sign of the code follows key == literal
    ok = False
    for b in f.blocks:
        for s in b["stmts"]:
            if s["s"] == "assign" and s["rv"]["r"] == "unop" and s["rv"]["op"] == "Neg":
                ok = True
    for c in f.calls:
        if c.name in ("neg", "checked_neg", "wrapping_neg"):
            ok = True
    negated_edges = False
    for bb in f.cfg.edges:
        for fa in edge_facts(f, bb):
            rf = rel_fact(fa)
            if fa.kind == "bool":
                a = peel(fa.atom, calls=None)
                if a.k == "call" and a.a.name in ("eq", "ne"):
                    negated_edges = True
            if rf and rf[0] in ("Eq", "Ne"):
                negated_edges = True
    led.check(ok and negated_edges, rid, "to_code:sign", f.span, "code is negated when key ≠ literal",
              "ProofLiterals::to_code no longer derives the sign of the code from key == literal")
    g = lib.fn("proof_literals::predicate_to_atomic", required=False)
    if g is None:
        for x in lib.fns.values():
            if x.name == "predicate_to_atomic":
                g = x
    if g is not None:
        rows = {}
        for p in SymExec(g).run():
            var = None
            for cond, val, others in p.conds:
                if cond.k == "discr" and (cond.b or "").endswith("predicate::Predicate"):
                    var = variant_name(g, cond, val, others)
            cmps = []
            for b in p.blocks:
                for s in g.blocks[b]["stmts"]:
                    if s["s"] == "assign" and s["rv"]["r"] == "aggregate" and s["rv"]["adt"].endswith("Comparison"):
                        cmps.append(s["rv"]["variant"])
            if var and not p.diverged:
                rows[var] = cmps
        want2 = {"UpperBound": ["LessThanEqual"], "Equal": ["Equal"]}
        for v, w in want2.items():
            led.check(rows.get(v) == w, rid, "predicate_to_atomic:%s" % v, g.span, "→ %s" % w,
                      "predicate_to_atomic maps %s to %s" % (v, rows.get(v)))


def p6(led, rid, ctx):
    lib = ctx.lib
    for name in ("unsat", "optimal"):
        from .shared import method_view as _mv
        f = _mv(lib, "ProofLog", name)
        ok = False
        for p in SymExec(f).run():
            var = None
            for cond, val, others in p.conds:
                if cond.k == "discr" and (cond.b or "").endswith("ProofImpl"):
                    var = variant_name(f, cond, val, others)
            if var == "CpProof":
                names = [c.name for c, a, r in p.calls]
                if name in names and "create" in names and "write" in names:
                    ok = True
        led.check(ok, rid, "%s:writes-lits" % name, f.span, "conclusion, then the literal definitions file",
                  "ProofLog::%s no longer writes the literal definition file after the conclusion" % name)


def p7(led, rid, ctx):
    """populate/lookup guard agreement for unit_nogood_step_ids"""
    lib = ctx.lib
    # populate sites under a logging guard?
    pop_guarded = False
    f = lib.method("ConstraintSatisfactionSolver", "log_root_propagation_to_proof")
    R = resolver(f)
    ins = [c for c in f.calls if c.name == "insert" and c.args and
           "unit_nogood_step_ids" in R.operand(c.args[0]).fields()]
    early = False
    for c in ins:
        # reachable only when is_logging_inferences() is true (early return otherwise)
        if call_guarded(f, c.bb, "is_logging_inferences", True) is not None:
            pop_guarded = True
    led.check(bool(ins), rid, "populate-site", f.span, "", "root propagations are no longer indexed by step id")
    n = 0
    for g in lib.fns.values():
        if "/tests" in g.file:
            continue
        Rg = None
        for c in g.calls:
            if c.name not in ("expect", "unwrap", "index") or not c.args:
                continue
            Rg = Rg or resolver(g)
            e = Rg.operand(c.args[0])
            looks = [x for x in e.calls() if x.name in ("get", "index") and x.args and
                     any("unit_nogood_step_ids" in (y.fields() if hasattr(y, "fields") else [])
                         for y in [Rg.operand(x.args[0])])]
            # also parameters named unit_nogood_step_ids
            if not looks:
                for x in e.calls():
                    if x.name in ("get",) and x.args:
                        ee = peel(Rg.operand(x.args[0]), calls=None)
                        if ee.k == "arg" and g.local_name(ee.a) == "unit_nogood_step_ids":
                            looks.append(x)
                        if ee.k == "proj" and "unit_nogood_step_ids" in ee.fields():
                            looks.append(x)
            if not looks:
                continue
            n += 1
            root = g.parent or g.defn
            guarded = call_guarded(g, c.bb, "is_logging_inferences", True) is not None
            # guard by early return: dominated by the false edge of `!is_logging_inferences()`
            led.check(guarded or not pop_guarded, rid, "%s:mandatory-lookup-guarded" % root.rsplit("::", 1)[-1], c.span,
                      "the mandatory lookup happens only when inferences are logged",
                      "%s unwraps a lookup in unit_nogood_step_ids, a map that is only filled when "
                      "inferences are logged, without being guarded by is_logging_inferences(): with "
                      "proof logging off a root-propagated unit nogood in conflict analysis panics" % root)
    led.floor(rid, "mandatory lookups", n, 1)


def p8(led, rid, ctx):
    lib = ctx.lib
    f = lib.method("IntegerDomain", "get_update_info")
    rows = {}
    for p in SymExec(f, max_paths=600, max_visits=1).run():
        if p.diverged:
            continue
        var = None
        for cond, val, others in p.conds:
            if cond.k == "discr" and (cond.b or "").endswith("predicate::Predicate") and var is None:
                var = variant_name(f, cond, val, others)
        rec = [c for c, a, r in p.calls if c.name == "get_update_info"]
        if var in ("Equal", "NotEqual") and len(rec) >= 1:
            both_some = 0
            for cond, val, others in p.conds:
                if cond.k == "discr" and (cond.b or "").endswith("Option") and \
                        any(x.name == "get_update_info" for x in cond.a.calls()):
                    if variant_name(f, cond, val, others) == "Some":
                        both_some += 1
            cmp_ = [c for c in p.conds if c[0].k == "binop" and c[0].a in ("Lt", "Le", "Gt", "Ge") and
                    "trail_position" in (c[0].b.fields() + c[0].c.fields())]
            # the comparison may sit in a closure handed to Option::map on the second lookup
            if not cmp_:
                for c, a, r in p.calls:
                    for x in a:
                        xx = peel(x, calls=None)
                        if xx.k == "closure":
                            g = lib.fns.get(xx.a)
                            if g is None:
                                continue
                            for bb in g.cfg.edges:
                                for fa in edge_facts(g, bb):
                                    rf = rel_fact(fa)
                                    if rf and rf[0] in ("Lt", "Le", "Gt", "Ge") and \
                                            "trail_position" in (rf[1].fields() + rf[2].fields()):
                                        cmp_ = [True]
            rows.setdefault(var, []).append((len(rec), both_some, bool(cmp_)))
    for var in ("Equal", "NotEqual"):
        paths = rows.get(var, [])
        two = [r for r in paths if r[0] >= 2]
        led.check(bool(two), rid, "%s:consults-both-bounds" % var, f.span, "asks for both bound updates",
                  "the %s arm of get_update_info never looks at both bound updates" % var)
        combined = [r for r in paths if r[0] >= 2 and r[2]]
        led.check(bool(combined), rid, "%s:combines-by-trail-position" % var, f.span,
                  "when both updates exist the answer is chosen by comparing their trail positions",
                  "the %s arm of get_update_info answers with one bound's update without comparing it with "
                  "the other's: while a domain is empty both bounds can have passed the value, two root "
                  "facts then explain each other and explain_root_assignment recurses until the stack "
                  "overflows (full proofs)" % var)


def p9(led, rid, ctx):
    """TABLE: a predicate over a reification literal b (domain 0..1) is replaced by the reified
    predicate exactly when it says b = 1, and by its negation exactly when it says b = 0"""
    from ..predalg import ev, holds, feasible, Unknown, is_pred_adt
    from .predrules import _field
    lib = ctx.lib
    f = lib.method("ProofLiterals", "get_underlying_predicate")
    R = resolver(f)
    n = 0
    for g in [f] + list(f.closures):
        # which captured values are the right-hand side of the predicate
        rhs_caps = set()
        if g is not f:
            for b in f.blocks:
                for s in b["stmts"]:
                    if s["s"] == "assign" and s["rv"]["r"] == "closure" and s["rv"]["def"] == g.defn:
                        e = R.rvalue(s["rv"])
                        for i, cap in enumerate(e.b):
                            if any(c.name == "get_right_hand_side" for c in cap.calls()):
                                rhs_caps.add("*arg1.%d" % i)
        paths = SymExec(g).run()
        for p in paths:
            if p.diverged or p.ret is None:
                continue
            var = None
            for cond, val, others in p.conds:
                if cond.k == "discr" and is_pred_adt(cond.b):
                    var = variant_name(g, cond, val, others)
            r = peel(p.ret, calls=None)
            if r.k == "call" and r.a.name == "not":
                got = "neg"
            elif r.k in ("proj", "arg", "local") or (r.k == "call" and r.a.name in ("clone", "copied")):
                got = "pos"
            else:
                continue      # the outer function: Option plumbing
            variants = [var] if var else ["LowerBound", "UpperBound", "NotEqual", "Equal"]
            bad = None
            for v in variants:
                for c in (-1, 0, 1, 2):
                    def leaf(e, c=c):
                        fl = _field(e)
                        if fl is not None and fl[2] != "domain_id":
                            return c
                        if show(e) in rhs_caps:
                            return c
                        if e.k == "call" and e.a.name == "get_right_hand_side":
                            return c
                        return None
                    if not feasible(p.conds, leaf):
                        continue
                    t1, t0 = holds(v, c, 1), holds(v, c, 0)
                    if got == "pos" and not (t1 and not t0):
                        bad = ("[b %s %d] is replaced by the reified predicate although it %s" %
                               (v, c, "holds for b = 0" if t0 else "does not hold for b = 1"))
                    if got == "neg" and not (t0 and not t1):
                        bad = ("[b %s %d] is replaced by the negated reified predicate although it %s" %
                               (v, c, "holds for b = 1" if t1 else "does not hold for b = 0"))
                    if bad:
                        break
                if bad:
                    break
            n += 1
            led.check(bad is None, rid, "polarity:%s->%s" % (var or "any", got), g.span,
                      "polarity agrees with the truth of the predicate on {0,1}",
                      "get_underlying_predicate: %s: the proof states the opposite literal" % bad)
    led.floor(rid, "polarity rows", n, 2)


SELECTING = ("filter", "filter_map", "skip", "take", "skip_while", "take_while", "step_by", "retain",
             "dedup", "truncate")


def p10(led, rid, ctx):
    """the premises handed to log_inference are the complete explanation: no selecting adaptor"""
    lib = ctx.lib
    n = 0
    for f in lib.fns.values():
        if "/tests" in f.file or f.name == "log_inference":
            continue
        for c in f.calls:
            if c.name != "log_inference" or len(c.args) < 3:
                continue
            n += 1
            R = resolver(f)
            e = R.operand(c.args[2])
            sel = [x.a.name for x in e.walk() if x.k == "call" and x.a.name in SELECTING]
            # a helper of this crate in the chain that selects from what it is given
            for x in e.walk():
                if x.k != "call":
                    continue
                for h in lib.callees(x.a):
                    if "/pumpkin-solver/src/" not in h.file and not h.file.startswith("pumpkin-solver/src/"):
                        continue
                    if h.name in ("get_tag", "log_inference") or "/proof/" in h.file:
                        continue
                    inner = [y.name for g in h.with_closures() for y in g.calls if y.name in SELECTING]
                    if inner and any(k in (h.rec.get("ret") or "") for k in ("Vec<", "PropositionalConjunction", "Iterator", "[")):
                        sel.append("%s (via %s)" % (inner[0], h.name))
            # a premise vector that is trimmed in place before it is logged
            trimmed = []
            for x in e.walk():
                if x.k in ("local", "phi"):
                    l = x.a if x.k == "local" else x.b
                    for c2 in f.calls:
                        if c2.name in SELECTING and c2.args and f.cfg.reaches(c2.bb, [c.bb], strict=False):
                            from ..flow import root_local
                            if root_local(f, c2.args[0]) == l:
                                trimmed.append(c2.name)
            who = (f.parent or f.defn).rsplit("::", 1)[-1] if f.kind == "Closure" else f.name
            led.check(not sel and not trimmed, rid, "%s:premises-complete" % who, c.span,
                      "premises are the explanation as computed",
                      "%s logs an inference whose premises went through `%s`: the logged step claims "
                      "more than the propagator explained, and need not follow from the tagged "
                      "constraint alone" % (who, (sel + trimmed)[0] if (sel + trimmed) else ""))
    led.floor(rid, "log_inference call sites", n, 5)


def p11(led, rid, ctx):
    """a tagged batch of root propagations starts at the trail length read after the previous
    propagator finished: on every way round the propagation loop the length is read again"""
    lib = ctx.lib
    n = 0
    from ..inline import view
    for f0 in lib.fns.values():
        if "/tests" in f0.file or f0.kind == "Closure" or not f0.calls_named("log_root_propagation_to_proof"):
            continue
        # the step that runs one propagator may be a private helper of the loop
        f = view(lib, f0, want=lambda g: g.file == f0.file and g.kind != "Closure" and g.vis != "pub" and len(g.blocks) <= 40
                 and g.name not in ("log_root_propagation_to_proof", "prepare_for_conflict_resolution", "notify_propagators_about_domain_events"))
        for c in f.calls_named("log_root_propagation_to_proof"):
            R = resolver(f)
            tag = R.operand(c.args[2]) if len(c.args) > 2 else None
            if tag is None or not any(x.name == "get_tag" for x in tag.calls()):
                continue
            n += 1
            start = peel(R.operand(c.args[1]), calls=None)
            reads = [x.a for x in start.walk() if x.k == "call" and x.a.name == "num_trail_entries"]
            disp = [d for d in f.calls if d.name == "propagate" and d.trait and not d.callee.get("local")] or \
                   [d for d in f.calls if d.name == "propagate" and d.trait]
            ok = bool(reads) and bool(disp)
            why = "does not start at a trail length read in this function"
            if ok:
                rd = reads[0]
                for d in disp:
                    if not f.cfg.dominates(rd.bb, d.bb):
                        ok, why = False, "reads the trail length on a path that does not lead to the propagator call"
                    elif f.cfg.reaches(d.bb, [d.bb], avoid=[rd.bb], strict=True):
                        ok, why = False, ("starts at a trail length that is not read again between two "
                                          "propagator calls: the facts of the earlier propagators are logged "
                                          "again under this propagator's constraint tag")
                    elif not f.cfg.dominates(d.bb, c.bb):
                        ok, why = False, "is not preceded by the propagator call on every path"
            led.check(ok, rid, "%s:tagged-batch-start" % f.name, c.span,
                      "start index read per iteration, before the propagator runs",
                      "%s: the tagged root-propagation batch %s" % (f.name, why))
    led.floor(rid, "tagged root-propagation batches", n, 1)


def p12(led, rid, ctx):
    """a root-level antecedent that conflict analysis or minimisation skips is explained to the
    proof (its unit nogood becomes a hint / is logged): MUST-PASS on the `level == 0` edge"""
    lib = ctx.lib
    n = 0
    for f in lib.fns.values():
        if "/conflict_analysis/" not in f.file or "/tests" in f.file:
            continue
        cfg = f.cfg
        ex = f.calls_named("explain_root_assignment")
        for bb in cfg.edges:
            for fa in edge_facts(f, bb):
                rf = rel_fact(fa)
                if not rf or rf[0] != "Eq":
                    continue
                a, b = peel(rf[1], calls=None), peel(rf[2], calls=None)
                if a.k == "const":
                    a, b = b, a
                if not (b.k == "const" and b.a == 0):
                    continue
                if not any(c.name == "get_decision_level_for_predicate" for c in a.calls()):
                    continue
                n += 1
                ok = any(cfg.dominates(fa.edge.node, c.bb) for c in ex)
                who = (f.parent or f.defn).rsplit("::", 1)[-1] if f.kind == "Closure" else f.name
                led.check(ok, rid, "%s:root-antecedent-explained" % who, "%s:%d" % (f.file, f.blocks[bb]["line"]),
                          "explain_root_assignment on the level-0 edge",
                          "%s skips a predicate that holds at the root without calling explain_root_assignment: "
                          "the inference it just logged depends on a unit nogood the proof does not reference "
                          "(with hints, the learned nogood is not derivable from its hints)" % who)
    led.floor(rid, "root-level skips in conflict analysis", n, 2)


def p16(led, rid, ctx):
    """ORDER in the propagation loop: the propagations a propagator made at the root are logged
    (log_root_propagation_to_proof) before the conflict it ended with is prepared: preparing the
    conflict takes the emptying change off the trail and stores the conflict nogood, so a batch that
    is logged afterwards is written after — not before — what depends on it"""
    lib = ctx.lib
    f = lib.method("ConstraintSatisfactionSolver", "propagate")
    cfg = f.cfg
    logs = f.calls_named("log_root_propagation_to_proof")
    preps = f.calls_named("prepare_for_conflict_resolution")
    if not logs or not preps:
        raise AnchorMissing("log_root_propagation_to_proof / prepare_for_conflict_resolution in propagate")
    heads = list(cfg.loop_heads())
    for pc in preps:
        late = [l for l in logs if cfg.reaches(pc.bb, [l.bb], avoid=heads, strict=True)]
        led.check(not late, rid, "log-root-batch-before-conflict", pc.span, "no log call is reachable from the preparation within one iteration",
                  "propagate prepares the conflict (removing the emptying trail entry) and logs the root "
                  "propagations of that propagator call afterwards: the inference for the conflict is then not the "
                  "last step before the empty nogood, and the unit nogoods logged in between are not derivable")


def p13(led, rid, ctx):
    """TABLE over writer and reader of the initial-domain mark.  `is_initial_bound([x != v])` decides
    'nothing to explain' by comparing the trail position of the removal with
    `initial_bounds_below_trail`; the writers set the mark from the trail length after the last
    entry that belongs to the initial domain.  For every trail length n in 1..5 and position p in
    0..n+1, the reader's comparison under each writer's expression must say 'initial' exactly for
    p < n: an entry pushed after the variable was created has a reason the proof must see."""
    from ..predalg import ev, Unknown
    lib = ctx.lib
    FIELD = "initial_bounds_below_trail"
    rd = lib.method("Assignments", "is_initial_bound")
    reader = None
    for path in SymExec(rd, max_paths=64).run():
        if path.diverged or path.ret is None:
            continue
        if any(FIELD in x.fields() for x in path.ret.walk()):
            reader = path.ret
    if reader is None:
        raise AnchorMissing("the comparison of Assignments::is_initial_bound with " + FIELD)
    writers = []
    for f in lib.fns.values():
        if "/tests" in f.file or not f.file.endswith("assignments.rs") or (f.impl_trait or "").rsplit("::", 1)[-1] in ("Clone", "Default", "Debug"):
            continue
        R = None
        for bi, b in enumerate(f.blocks):
            for st in b["stmts"]:
                if st["s"] != "assign":
                    continue
                names = [x.get("name") for x in st["dst"]["proj"] if "field" in x]
                if names[-1:] == [FIELD]:
                    R = R or resolver(f)
                    writers.append((f, bi, "%s:%d" % (f.file, st["line"]), R.rvalue(st["rv"])))
        # constructor: the field of the aggregate is an argument; take the callers' expressions
        for agbb, _i, st in aggregates(f, "IntegerDomain"):
            R = R or resolver(f)
            ag = R.rvalue(st["rv"])
            val = dict(zip(ag.d or [], ag.c)).get(FIELD)
            if val is None:
                continue
            e = peel(val, calls=None)
            if e.k == "arg":
                for g in lib.fns.values():
                    if "/tests" in g.file:
                        continue
                    Rg = None
                    for c in g.calls:
                        if (c.resolved or c.defn) == f.defn and len(c.args) >= e.a:
                            Rg = Rg or resolver(g)
                            writers.append((g, c.bb, c.span, Rg.operand(c.args[e.a - 1])))
            else:
                writers.append((f, agbb, f.span, e))
    n = 0
    for f, bb, span, e in writers:
        bad = None
        try:
            for ln in range(1, 6):
                def wl(x, ln=ln):
                    if x.k == "call" and x.a.name == "len" and any("trail" in y.fields() for y in x.walk()):
                        return ln
                    return None
                mark = ev(e, wl)
                for pos in range(0, ln + 2):
                    def rl(x, mark=mark, pos=pos):
                        if x.k == "proj" and FIELD in x.fields():
                            return mark
                        if x.k == "call" and x.a.name in ("unwrap_or_else", "unwrap", "expect", "get_trail_position"):
                            return pos
                        return None
                    got = bool(ev(reader, rl))
                    if got != (pos < ln) and bad is None:
                        bad = ("with %d entries on the trail when the mark is set (%s), the entry at position %d "
                               "is classified %s" % (ln, show(e)[:60], pos,
                                                     "as part of the initial domain although it was pushed afterwards: "
                                                     "its reason is never explained to the proof, and a nogood that "
                                                     "depends on it is not derivable from its hints" if got else
                                                     "as a propagation although it belongs to the initial domain"))
        except Unknown as u:
            bad = "the mark %s cannot be evaluated (%s)" % (show(e)[:60], u)
        # nothing is pushed on the trail after the mark was taken
        later = [c for c in f.calls if c.name in ("push", "remove_value_from_domain", "tighten_lower_bound",
                                                  "tighten_upper_bound", "make_assignment")
                 and c.bb != bb and f.cfg.reaches(bb, [c.bb])
                 and (c.name != "push" or (c.args and "trail" in resolver(f).operand(c.args[0]).fields()))]
        if later and bad is None:
            bad = "the trail grows (%s) after the mark was taken" % later[0].name
        n += 1
        led.check(bad is None, rid, "%s:initial-mark" % f.name, span, "initial ⇔ position < length at the mark, n = 1..5",
                  "%s: %s" % (f.name, bad))
    led.floor(rid, "writers of the initial-domain mark", n, 2)


def p14(led, rid, ctx):
    """TAINT: the constraint tag a model gives to `post` / `implied_by` reaches every propagator and
    sub-constraint posted on its behalf.  The tag is what the inferences of those propagators are
    labelled with; without it the proof attributes them to no constraint."""
    from .C09 import closure_seeds
    lib = ctx.lib
    n = 0

    def is_tag(ty):
        return "Option<" in ty and "NonZero" in ty

    for imp in lib.impls_of("constraints::Constraint"):
        if "/tests" in imp["span"]:
            continue
        wname = (imp.get("self_adt") or imp["self_ty"]).rsplit("::", 1)[-1]
        for meth in ("post", "implied_by"):
            f = lib.impl_fn(imp, meth)
            if f is None:
                continue
            tag = [a["local"] for a in f.args if is_tag(a["ty"])]
            if not tag:
                continue
            tainted = forward(f, tag, effects=False)
            bodies = [(f, tainted)]
            for g in f.closures:
                seeds = closure_seeds(lib.fns.get(g.direct_parent) or f, g, tainted)
                bodies.append((g, forward(g, seeds, effects=False) if seeds else set()))
            for g, t in bodies:
                for c in g.calls:
                    tys = c.term.get("arg_tys", [])
                    slots = [a for a, ty in zip(c.args, tys) if is_tag(ty)]
                    if not slots or c.name not in ("post", "implied_by", "add_propagator", "add_tagged_propagator",
                                                   "new_propagator", "add_clause", "add_nogood"):
                        continue
                    n += 1
                    dep = all(any(l in t for l in operand_locals(a)) for a in slots)
                    led.check(dep, rid, "%s::%s:%s" % (wname, meth, c.name), c.span, "receives the caller's tag",
                              "%s::%s calls %s with a tag that does not come from its own `tag` argument: the "
                              "propagators created there log their inferences without the constraint label the "
                              "model gave, and the proof cannot attribute them" % (wname, meth, c.name))
    led.floor(rid, "tag-carrying posting calls", n, 20)


def run(ctx, led):
    from . import C04 as _C04
    run_rule(led, "P15", "the optimality conclusion of the proof is stated on the scaled objective (shared with C04-O9)", _C04.o9, ctx)
    from . import C19 as _C19
    run_rule(led, "P17", "every step the solver logs is written, with a fresh id (shared with C19-K9)", _C19.k9, ctx)
    run_rule(led, "P16", "ORDER: a propagator's root propagations are logged before its conflict is prepared", p16, ctx)
    run_rule(led, "P14", "TAINT: the constraint tag given to post / implied_by reaches every posting call made on its behalf", p14, ctx)
    run_rule(led, "P13", "TABLE: the initial-domain mark and the comparison in is_initial_bound agree on which trail entries need no explanation", p13, ctx)
    run_rule(led, "P1", "every reason that is computed for use is logged as an inference (MUST-PASS)", p1, ctx)
    run_rule(led, "P2", "complete_proof logs the conflict, finalises, and ends with the empty nogood", p2, ctx)
    run_rule(led, "P3", "learned nogoods are logged before they are added; unit ids are stored under "
             "the negated predicate with the logged step id", p3, ctx)
    run_rule(led, "P4", "TYPESTATE with a proof-completed bit: a recorded root conflict implies the "
             "empty nogood was logged; no posting function returns Ok in a root conflict", p4, ctx)
    run_rule(led, "P5", "proof literal code TABLES", p5, ctx)
    run_rule(led, "P6", "both conclusions write the literal definitions", p6, ctx)
    run_rule(led, "P7", "populate/lookup guard agreement for the unit-nogood step ids", p7, ctx)
    run_rule(led, "P8", "the trail position of a composite predicate combines both bound updates", p8, ctx)
    run_rule(led, "P9", "polarity TABLE of predicates over reification literals (decided on the domain {0,1})", p9, ctx)
    run_rule(led, "P10", "the premises of every logged inference are the complete explanation (no selecting adaptor between the explanation and log_inference)", p10, ctx)
    run_rule(led, "P11", "tagged root-propagation batches start at a trail length read after the previous propagator (MUST-PASS on the loop)", p11, ctx)
    run_rule(led, "P12", "root-level antecedents skipped by analysis / minimisation are explained to the proof (MUST-PASS)", p12, ctx)
    from . import kernel as _kernel
    _kernel.run_bundle(led, ctx, "P")

"""C09 — reified and half-reified constraints (structural clauses R1–R8)."""
from ..main import run_rule
from ..flow import (resolver, peel, root_local, guards_of, call_guarded, aggregates, forward, backward,
                    operand_locals, show)
from ..symexec import SymExec, variant_name
from ..facts import AnchorMissing, op_place
from . import C18

LEVEL = ('decides the wiring of reification: the wrapped propagator runs only on the true edge of the '
         'reification literal, with reified reasons, and its conflicts get the literal (R1); the '
         'wrapper forwards every Propagator hook the engine raises (R2, computed FORWARD-ALL); the '
         'cached inconsistency is cleared on every synchronise (R3); every implied_by hands the '
         'literal (clausal constraints: its negation) to everything it posts, incl. through closures '
         '(R4); reify posts c←r and ¬c←¬r (R5); negation is an involution on constraint types (R6); '
         'eager reasons are extended with the literal and lazy ones become ReifiedLazy whose '
         'evaluation appends it (R7); post and implied_by of one constraint post the same sub-'
         'constraints (R8). Predicate negation is the exact complement (R9). the arithmetic constraint'
         ' builders (≤, <, =, ≠, plus, maximum, minimum and the binary forms) and the negations of '
         'Inequality / Equal / NotEqual mean what they say, decided by abstract evaluation in the '
         'linear-form domain on a 5-value window (R10). next_local_id only grows (R11); propagate '
         'consumes the cached inconsistency on every path under no further condition (R12 MUST-PASS); '
         'wrapped incremental propagators never drop pending updates silently and reset un-trailed '
         'accumulators on backtrack (R13 = C08-H5, R14 = C17-L20). Every detect_inconsistency override'
         ' is confirmed or decided against the tabulated relation of its propagator on all bound boxes'
         " of a [-3,3] window (R16). Does not decide that wrapped propagators or the negations' "
         'arithmetic are right')
TECHNIQUE = "static analysis: dominance / FORWARD-ALL / taint through closures / sibling agreement over rustc MIR"

REIF = "ReifiedPropagator"
PROP_QUERIES = {"detect_inconsistency": "only the reification wrapper itself asks its child for an "
                                        "inconsistency; checked structurally below",
                "name": "observational", "log_statistics": "observational"}


def reif_method(lib, name):
    for f in lib.fns.values():
        if f.name == name and (f.self_adt or "").endswith("::" + REIF) and f.kind == "AssocFn":
            return f
    raise AnchorMissing("%s::%s" % (REIF, name))


def r1(led, rid, ctx):
    lib = ctx.lib
    for name in ("propagate", "debug_propagate_from_scratch"):
        f = reif_method(lib, name)
        R = resolver(f)
        inner = [c for c in f.calls if c.name == name and C18.which_trait(c.trait) == "Propagator"
                 and C18.self_field(f, c.args[0]) == "propagator"]
        led.check(len(inner) == 1, rid, "%s:wrapped-called-once" % name, f.span, "",
                  "%s::%s calls the wrapped %s %d times" % (REIF, name, name, len(inner)))
        for c in inner:
            g = None
            for fact in guards_of(f, c.bb):
                if fact.kind == "bool" and fact.val is True:
                    a = peel(fact.atom, calls=None)
                    if a.k == "call" and a.a.name == "is_literal_true" and \
                            "reification_literal" in peel(a.b[1], calls=None).fields():
                        g = fact
            led.check(g is not None, rid, "%s:only-if-literal-true" % name, c.span,
                      "dominated by the true edge of is_literal_true(reification_literal)",
                      "the wrapped propagator runs without the reification literal being known true: "
                      "a half-reified constraint would prune although r may still be false")
            wr = [w for w in f.calls_named("with_reification") if f.cfg.dominates(w.bb, c.bb)]
            ok = bool(wr) and "reification_literal" in R.operand(wr[0].args[1]).fields()
            led.check(ok, rid, "%s:with_reification" % name, c.span,
                      "with_reification(reification_literal) dominates the wrapped call",
                      "the wrapped propagator runs on a context that does not add the reification "
                      "literal to its reasons")
            # result → map_propagation_status
            maps = [m for m in f.calls_named("map_propagation_status") if c.dst and
                    root_local(f, m.args[1]) == c.dst["local"]]
            led.check(len(maps) == 1, rid, "%s:status-mapped" % name, c.span,
                      "the wrapped result goes through map_propagation_status",
                      "a conflict of the wrapped propagator is passed on without the reification literal")
    m = reif_method(lib, "map_propagation_status")
    adds = [c for c in m.calls if c.name in ("add", "push", "extend")]
    ok = False
    Rm = resolver(m)
    for c in adds:
        e = Rm.operand(c.args[-1])
        if any(x.name == "get_true_predicate" for x in e.calls()) and "reification_literal" in e.fields():
            # on the Err(Conflict) path
            vs = [fa.val for fa in guards_of(m, c.bb) if fa.kind == "variant" and not fa.neg]
            if "Err" in vs and "Conflict" in vs:
                ok = True
    led.check(ok, rid, "conflict-gets-true-literal", m.span,
              "Err(Conflict(nogood)) is extended with [r = true]",
              "map_propagation_status does not add the literal's *true* predicate to a conflict")


def r2(led, rid, ctx):
    lib = ctx.lib
    tm = C18.trait_methods(lib, "Propagator")
    raised = set()
    for f in lib.fns.values():
        root = lib.fns.get(f.parent) if f.parent else f
        own_name = (root.trait_method or "").rsplit("::", 1)[-1] if root is not None else ""
        own_trait = C18.which_trait(root.impl_trait or "") if root is not None else None
        for c in f.calls:
            if C18.which_trait(c.trait) == "Propagator":
                if own_name == c.name and own_trait == "Propagator":
                    continue
                raised.add(c.name)
    n = 0
    for imp in lib.impls_of("propagator::Propagator"):
        if "/tests" in imp["span"]:
            continue
        ch = {f: t for f, t in C18.children(lib, imp).items() if t == "Propagator"}
        if not ch:
            continue
        wname = (imp.get("self_adt") or "?").rsplit("::", 1)[-1]
        adt = lib.find_adt(imp["self_adt"])
        ftypes = {fl["name"]: fl["ty"] for v in adt["variants"] for fl in v["fields"]} if adt else {}
        own = {it["name"]: lib.fns.get(it["def"]) for it in imp["items"] if it["kind"] == "fn"}
        for field in sorted(ch):
            for m in sorted(tm):
                if m in PROP_QUERIES:
                    continue
                if m not in raised:
                    led.note("Propagator::%s is never raised: no forwarding obligation" % m)
                    continue
                n += 1
                key = "%s.%s:%s" % (wname, field, m)
                f = own.get(m)
                if f is None:
                    led.bad(rid, key, imp["span"],
                            "%s wraps a propagator in `%s` but does not override `%s`: the trait "
                            "default is used instead of the wrapped propagator's implementation "
                            "(for lazy_explanation the default panics during conflict analysis)"
                            % (wname, field, m))
                    continue
                ok = C18.forwards(lib, f, m, "Propagator", field, ftypes.get(field))
                led.check(ok, rid, key, f.span, "forwards to %s.%s" % (field, m),
                          "%s::%s never reaches `%s.%s`" % (wname, m, field, m))
                # events are forwarded whatever the literal's value is (the wrapped propagator's
                # incremental state must mirror the domains even while r is false); only the two
                # propagate functions are gated by the literal (R1)
                if ok and m not in ("propagate", "debug_propagate_from_scratch"):
                    for c in f.calls:
                        if c.name == m and C18.which_trait(c.trait) == "Propagator" and \
                                C18.self_field(f, c.args[0]) == field:
                            gated = [fa for fa in guards_of(f, c.bb) if fa.kind == "bool" and
                                     peel(fa.atom, calls=None).k == "call" and
                                     peel(fa.atom, calls=None).a.name.startswith("is_literal")]
                            led.check(not gated, rid, key + ":ungated", c.span,
                                      "forwarded whatever the value of the reification literal",
                                      "%s::%s forwards to the wrapped propagator only for some values of "
                                      "the reification literal (%s): events that happen meanwhile are "
                                      "lost and the wrapped propagator's incremental state goes stale"
                                      % (wname, m, [show(fa.atom)[:50] for fa in gated]))
    led.floor(rid, "forwarding rows", n, 7)
    # detect_inconsistency is asked only by the wrapper of its own child
    for f in lib.fns.values():
        for c in f.calls:
            if c.name == "detect_inconsistency" and C18.which_trait(c.trait) == "Propagator":
                root = lib.fns.get(f.parent) if f.parent else f
                recv = peel(resolver(f).operand(c.args[0]), calls=None)
                if recv.k == "arg" and recv.a == 1:
                    continue      # a propagator asking itself
                led.check((root.self_adt or "").endswith("::" + REIF), rid,
                          "detect_inconsistency-caller:%s" % (root.self_adt or root.defn).rsplit("::", 1)[-1],
                          c.span, "asked by the reification wrapper only",
                          "Propagator::detect_inconsistency is now raised outside the reification "
                          "wrapper: it joins the event set and the wrapper must forward it")


def r3(led, rid, ctx):
    lib = ctx.lib
    f = reif_method(lib, "synchronise")
    ok = False
    for b in f.blocks:
        for s in b["stmts"]:
            if s["s"] == "assign" and s["dst"]["proj"] and \
                    [e.get("name") for e in s["dst"]["proj"] if "field" in e] == ["inconsistency"]:
                e = resolver(f).rvalue(s["rv"])
                if e.k == "agg" and e.b == "None":
                    if all(f.cfg.dominates(b["id"], r) for r in f.cfg.returns):
                        ok = True
    led.check(ok, rid, "synchronise-clears-inconsistency", f.span, "inconsistency = None on every path",
              "ReifiedPropagator::synchronise can keep a cached inconsistency across a backtrack")


def closure_seeds(parent, closure, tainted):
    """locals of `closure` that hold captured values which are tainted in `parent`"""
    seeds = set()
    idxs = set()
    for b in parent.blocks:
        for s in b["stmts"]:
            if s["s"] == "assign" and s["rv"]["r"] == "closure" and s["rv"]["def"] == closure.defn:
                for i, cap in enumerate(s["rv"]["captures"]):
                    if any(l in tainted for l in operand_locals(cap)):
                        idxs.add(i)
    if not idxs:
        return seeds
    for b in closure.blocks:
        for s in b["stmts"]:
            if s["s"] != "assign":
                continue
            rv = s["rv"]
            pl = rv.get("place") or (op_place(rv["op"]) if rv["r"] == "use" else None)
            if pl and pl["local"] == 1:
                fi = [e["field"] for e in pl["proj"] if "field" in e]
                if fi and fi[0] in idxs:
                    seeds.add(s["dst"]["local"])
    for c in closure.calls:
        for a in c.args:
            pl = op_place(a)
            if pl and pl["local"] == 1:
                fi = [e["field"] for e in pl["proj"] if "field" in e]
                if fi and fi[0] in idxs and c.dst:
                    seeds.add(c.dst["local"])
    return seeds


POSTING = ("add_clause", "add_propagator", "add_tagged_propagator", "implied_by", "post")


def literal_param(f):
    for a in f.args:
        if a["ty"].endswith("variables::literal::Literal") or a["ty"].endswith("::Literal"):
            return a["local"]
    return None


def r4(led, rid, ctx):
    lib = ctx.lib
    n = 0
    for imp in lib.impls_of("constraints::Constraint"):
        if "/tests" in imp["span"]:
            continue
        f = lib.impl_fn(imp, "implied_by")
        if f is None:
            continue
        wname = (imp.get("self_adt") or imp["self_ty"]).rsplit("::", 1)[-1]
        lit = literal_param(f)
        if lit is None:
            led.bad(rid, "%s:no-literal-param" % wname, f.span, "implied_by without a literal parameter")
            continue
        tainted = forward(f, [lit], effects=False)
        bodies = [(f, tainted)]
        for g in f.closures:
            seeds = closure_seeds(lib.fns.get(g.direct_parent) or f, g, tainted)
            bodies.append((g, forward(g, seeds, effects=False) if seeds else set()))
        posts = 0
        clausal = False
        for g, t in bodies:
            for c in g.calls:
                if c.name not in POSTING:
                    continue
                if c.name == "post" and C18.which_trait(c.trait) is None and not (c.trait or "").endswith("Constraint"):
                    continue
                posts += 1
                n += 1
                # the solver receiver does not count: the literal must reach what is posted
                payload = [a for a, ty in zip(c.args, c.term.get("arg_tys", [])) if "Solver" not in ty.split("<")[0]]
                dep = any(l in t for a in payload for l in operand_locals(a))
                key = "%s:%s" % (wname, c.name)
                if c.name == "post":
                    led.bad(rid, key, c.span, "%s::implied_by posts a sub-constraint unconditionally "
                            "(`post` instead of `implied_by`): it would hold even when r is false" % wname)
                    continue
                led.check(dep, rid, key, c.span, "argument depends on the reification literal",
                          "%s::implied_by calls %s without the reification literal: that part of the "
                          "constraint is enforced even when r is false" % (wname, c.name))
                if c.name == "add_clause":
                    clausal = True
                    # the literal must enter the clause negated
                    nots = [x for x in g.calls if x.name == "not" and
                            any(l in t for a in x.args for l in operand_locals(a))]
                    feeds = False
                    for x in nots:
                        if x.dst is None:
                            continue
                        t2 = forward(g, [x.dst["local"]], effects=False)
                        if any(l in t2 for a in c.args for l in operand_locals(a)):
                            feeds = True
                    # also closures (the negation may be computed in the parent and captured)
                    if not feeds and g is not f:
                        for x in f.calls:
                            if x.name == "not" and any(l in tainted for a in x.args for l in operand_locals(a)) and x.dst:
                                t3 = forward(f, [x.dst["local"]], effects=False)
                                s3 = closure_seeds(f, g, t3)
                                if s3 and any(l in forward(g, s3, effects=False) for a in c.args for l in operand_locals(a)):
                                    feeds = True
                    led.check(feeds, rid, "%s:clause-gets-negated-literal" % wname, c.span,
                              "the clause contains ¬r", "%s::implied_by adds a clause that contains r "
                              "instead of ¬r (or not the literal at all)" % wname)
        led.check(posts >= 1, rid, "%s:posts-something" % wname, f.span, "", "%s::implied_by posts nothing" % wname)
    led.floor(rid, "posting calls in implied_by", n, 10)


def r5(led, rid, ctx):
    lib = ctx.lib
    f = lib.fn("NegatableConstraint::reify")
    R = resolver(f)
    calls = f.calls_named("implied_by")
    led.check(len(calls) == 2, rid, "two-implications", f.span, "", "reify posts %d implications" % len(calls))
    lit = literal_param(f)
    negs = f.calls_named("negation")
    pos = neg = False
    for c in calls:
        who = peel(R.operand(c.args[0]), calls=None)
        l = peel(R.operand(c.args[2]), calls=None)
        is_self = who.k == "arg" and who.a == 1
        is_negation = who.k == "call" and who.a.name == "negation"
        l_plain = l.k == "arg" and l.a == lit
        l_not = l.k == "call" and l.a.name == "not" and peel(l.b[0], calls=None).k == "arg" \
            and peel(l.b[0], calls=None).a == lit
        if is_self and l_plain:
            pos = True
        if is_negation and l_not:
            neg = True
    led.check(pos, rid, "c-implied-by-r", f.span, "self.implied_by(r)", "reify does not post c ← r")
    led.check(neg, rid, "not-c-implied-by-not-r", f.span, "negation.implied_by(!r)",
              "reify does not post ¬c ← ¬r (negation / negated literal wiring broken)")
    # MUST-PASS, per world of the literal: every successful path posts what r ⇔ c needs
    n = 0
    for p in SymExec(f, max_paths=400).run():
        if p.diverged or p.ret is None or any(c.name == "from_residual" for c in p.ret.calls()):
            continue
        world = None        # value of the literal the path has established, if any
        for cond, val, others in p.conds:
            if cond.k == "discr" and any(c.name == "get_literal_value" for c in cond.calls()):
                world = variant_name(f, cond, val, others)      # Some / None
            c_ = peel(cond, calls=None)
            if c_.k == "proj" and any(c.name == "get_literal_value" for c in c_.calls()) and world == "Some":
                truth = (val != 0) if val is not None else (0 in (others or []))
                world = "true" if truth else "false"
            if c_.k == "call" and c_.a.name in ("is_literal_true", "is_true"):
                truth = (val != 0) if val is not None else (0 in (others or []))
                world = "true" if truth else world
            if c_.k == "call" and c_.a.name in ("is_literal_false", "is_false"):
                truth = (val != 0) if val is not None else (0 in (others or []))
                world = "false" if truth else world
        has_c = has_nc = False
        for c, a, r in p.calls:
            if c.name not in ("post", "implied_by") or not a:
                continue
            who = peel(a[0], calls=None)
            is_self = who.k == "arg" and who.a == 1
            is_negation = who.k == "call" and who.a.name == "negation"
            if c.name == "post":
                has_c = has_c or is_self
                has_nc = has_nc or is_negation
            else:
                l = peel(a[2], calls=None) if len(a) > 2 else None
                l_plain = l is not None and l.k == "arg" and l.a == lit
                l_not = l is not None and l.k == "call" and l.a.name == "not"
                has_c = has_c or (is_self and l_plain)
                has_nc = has_nc or (is_negation and l_not)
        need_c = world in (None, "None", "Some", "true")
        need_nc = world in (None, "None", "Some", "false")
        n += 1
        ok = (has_c or not need_c) and (has_nc or not need_nc)
        led.check(ok, rid, "reify:path:%s" % (world or "any"), f.span, "posts what r ⇔ c needs on this path",
                  "a successful path of reify (literal %s) returns without posting %s: the assignments with %s "
                  "are admitted although r ⇔ c excludes them"
                  % ({"true": "known true", "false": "known false"}.get(world, "undecided"),
                     "c ← r" if need_c and not has_c else "¬c ← ¬r",
                     "r true and c violated" if need_c and not has_c else "r false and c satisfied"))
    led.floor(rid, "successful paths of reify", n, 1)


def r6(led, rid, ctx):
    lib = ctx.lib
    neg = {}
    for imp in lib.impls_of("NegatableConstraint"):
        if "/tests" in imp["span"]:
            continue
        a = imp.get("self_adt")
        t = (imp.get("assoc_types") or {}).get("NegatedConstraint")
        if a and t:
            neg[a] = t
    led.floor(rid, "negatable constraints", len(neg), 5)

    def adt_of(ty):
        base = ty.split("<", 1)[0]
        return base
    for a, t in sorted(neg.items()):
        b = adt_of(t)
        back = neg.get(b)
        ok = back is not None and adt_of(back) == a
        led.check(ok, rid, "%s<->%s" % (a.rsplit("::", 1)[-1], b.rsplit("::", 1)[-1]), None,
                  "negating twice returns to the same constraint type",
                  "NegatedConstraint of %s is %s, whose NegatedConstraint is %s: negation is not an "
                  "involution" % (a, t, back))
    # the negation functions themselves: Clause/Conjunction negate every literal; (Not)Equal keep
    # terms and rhs; Inequality: terms scaled by -1 and rhs -> -rhs - 1
    for imp in lib.impls_of("NegatableConstraint"):
        f = lib.impl_fn(imp, "negation")
        if f is None or "/tests" in imp["span"]:
            continue
        name = (imp.get("self_adt") or "").rsplit("::", 1)[-1]
        if name in ("Clause", "Conjunction"):
            ok = any(any(c.name == "not" for c in g.calls) for g in f.with_closures()) and \
                not any(c.name in ("filter", "skip", "take", "step_by") for g in f.with_closures() for c in g.calls)
            led.check(ok, rid, "%s::negation-negates-every-literal" % name, f.span, "maps every literal to its negation",
                      "%s::negation does not negate every literal" % name)
        elif name == "Inequality":
            R = resolver(f)
            ok_rhs = False
            for bb, i, s in aggregates(f, "Inequality"):
                e = R.rvalue(s["rv"])
                rhs = e.c[(e.d or []).index("rhs")] if e.d and "rhs" in e.d else None
                if rhs is not None:
                    r_ = peel(rhs, calls=None)
                    # (-rhs) - 1
                    if r_.k == "binop" and r_.a == "Sub" and r_.c.k == "const" and r_.c.a == 1:
                        inner = peel(r_.b, calls=None)
                        if inner.k == "unop" and inner.a == "Neg" and "rhs" in inner.fields():
                            ok_rhs = True
            scaled = [c for g in f.with_closures() for c in g.calls if c.name == "scaled"]
            from ..facts import op_const_int
            ok_scale = len(scaled) == 1 and op_const_int(scaled[0].args[1]) == -1
            led.check(ok_rhs and ok_scale, rid, "Inequality::negation", f.span,
                      "¬(Σ t ≤ c) = Σ −t ≤ −c − 1",
                      "Inequality::negation must scale every term by −1 and use −rhs − 1 as right-hand side")
        elif name in ("EqualConstraint", "NotEqualConstraint"):
            R = resolver(f)
            ok = False
            for bb, i, s in aggregates(f, None):
                e = R.rvalue(s["rv"])
                if e.k == "agg" and e.d and "rhs" in e.d and "terms" in e.d:
                    rhs = peel(e.c[e.d.index("rhs")], calls=None)
                    terms = e.c[e.d.index("terms")]
                    ok = rhs.k == "proj" and "rhs" in rhs.fields() and "terms" in terms.fields()
            led.check(ok, rid, "%s::negation" % name, f.span, "same terms, same rhs",
                      "%s::negation must keep terms and right-hand side unchanged" % name)


def r7(led, rid, ctx):
    lib = ctx.lib
    f = lib.method("PropagationContextMut", "build_reason")
    paths = [p for p in SymExec(f).run() if not p.diverged]
    rows = {}
    for p in paths:
        kind = None
        has_lit = None
        for cond, val, others in p.conds:
            if cond.k == "discr" and (cond.b or "").endswith("reason::Reason"):
                kind = variant_name(f, cond, val, others)
            if cond.k == "discr" and (cond.b or "").endswith("option::Option") and \
                    "reification_literal" in cond.a.fields():
                has_lit = variant_name(f, cond, val, others)
        ret = p.ret.b if (p.ret is not None and p.ret.k == "agg") else None
        rows[(kind, has_lit)] = (ret, p)
    for (kind, has_lit), (ret, p) in sorted(rows.items(), key=str):
        if kind == "Eager":
            ext = [c for c, a, r in p.calls if c.name == "extend"]
            ok = ret == "Eager" and len(ext) == 1
            if ok:
                # the extension iterates the reification literal and maps to its true predicate
                ok = any(any(c.name == "get_true_predicate" for c in g.calls) for g in f.closures)
            led.check(ok, rid, "Eager->Eager+literal", f.span, "eager reason extended with [r = true]",
                      "an eager reason built under reification is stored without the reification literal")
        elif kind == "DynamicLazy":
            want = "ReifiedLazy" if has_lit == "Some" else "DynamicLazy"
            led.check(ret == want, rid, "DynamicLazy/%s->%s" % (has_lit, ret), f.span, "",
                      "a lazy reason with reification literal %s is stored as %s (expected %s)"
                      % (has_lit, ret, want))
    led.check(("DynamicLazy", "Some") in rows and ("DynamicLazy", "None") in rows and
              any(k[0] == "Eager" for k in rows), rid, "all-cases", f.span, "",
              "build_reason no longer distinguishes eager / lazy × reified / plain: %s" % sorted(rows, key=str))
    # evaluation of ReifiedLazy appends the literal
    from .shared import method_view as _mv
    g = _mv(lib, "StoredReason", "compute")
    paths = [p for p in SymExec(g).run() if not p.diverged]
    for p in paths:
        var = None
        for cond, val, others in p.conds:
            if cond.k == "discr" and (cond.b or "").endswith("StoredReason"):
                var = variant_name(g, cond, val, others)
        if var == "ReifiedLazy":
            exts = [(c, a) for c, a, r in p.calls if c.name == "extend"]
            lazy = any(c.name == "lazy_explanation" for c, a, r in p.calls)
            lit = any(any(x.name == "get_true_predicate" for x in a[-1].calls()) for c, a in exts)
            led.check(lazy and lit and len(exts) == 2, rid, "ReifiedLazy-compute", g.span,
                      "lazy explanation of the wrapped propagator + [r = true]",
                      "evaluating a reified lazy reason does not append the reification literal")
        if var == "DynamicLazy":
            led.check(any(c.name == "lazy_explanation" for c, a, r in p.calls), rid, "DynamicLazy-compute",
                      g.span, "", "evaluating a lazy reason does not ask the propagator")


def posted_signature(lib, f):
    """multiset of constraint constructors / propagator constructors a post/implied_by builds"""
    sig = []
    for g in f.with_closures():
        for c in g.calls:
            d = c.target_def or ""
            if c.name in ("post", "implied_by") and ((c.trait or "").endswith("Constraint")):
                continue
            if "ReifiedPropagator" in (c.self_ty or "") or "ReifiedPropagator" in d:
                continue
            if "/constraints/" in (c.span or "") and c.callee.get("local") and \
                    (d.startswith("constraints::") or "Propagator" in d and c.name == "new"):
                sig.append(d.rsplit("::", 2)[-2] + "::" + c.name if "::" in d else d)
            elif c.name in ("add_clause", "add_propagator", "add_tagged_propagator"):
                sig.append(c.name)
    return sorted(sig)


def r8(led, rid, ctx):
    lib = ctx.lib
    n = 0
    for imp in lib.impls_of("constraints::Constraint"):
        if "/tests" in imp["span"]:
            continue
        p = lib.impl_fn(imp, "post")
        q = lib.impl_fn(imp, "implied_by")
        if p is None or q is None:
            continue
        wname = (imp.get("self_adt") or imp["self_ty"]).rsplit("::", 1)[-1]
        if wname == "CumulativeConstraint":
            # post and implied_by share one dispatcher over the propagation method; compared below
            pass
        a, b = posted_signature(lib, p), posted_signature(lib, q)
        # the half-reified version wraps propagators: ReifiedPropagator::new appears only there
        b2 = [x for x in b if not x.startswith("ReifiedPropagator")]
        n += 1
        led.check(a == b2, rid, "%s:post~implied_by" % wname, q.span, "same sub-constraints: %s" % a,
                  "%s::post builds %s but implied_by builds %s: the half-reified constraint is not "
                  "the posted constraint under r" % (wname, a, b2))
        # number of nested posts equals number of nested implied_by
        np_ = sum(1 for g in p.with_closures() for c in g.calls if c.name == "post" and (c.trait or "").endswith("Constraint"))
        nq = sum(1 for g in q.with_closures() for c in g.calls if c.name == "implied_by" and (c.trait or "").endswith("Constraint"))
        led.check(np_ == nq, rid, "%s:nested-count" % wname, q.span, "%d nested" % np_,
                  "%s posts %d sub-constraints but half-reifies %d" % (wname, np_, nq))
    led.floor(rid, "constraint impls compared", n, 9)


def r10(led, rid, ctx):
    """LINFORM: the arithmetic constraint builders mean what their names say — decided by abstract
    evaluation in the linear-form domain on a 5-value window"""
    import itertools
    from ..linform import Evaluator, Undecided, lin, holds_atom
    lib = ctx.lib
    ev = Evaluator(lib)
    a, b, c = lin("a"), lin("b"), lin("c")
    W = range(-2, 3)
    ADT = {"LE": "Inequality", "EQ": "EqualConstraint", "NE": "NotEqualConstraint"}

    def leafs(atom):
        if atom[1] in ADT:
            f = lib.method(ADT[atom[1]], "post", "Constraint")
            return ev.posted(f, atom)
        return [atom]

    def builder(suffix):
        fs = [f for d, f in lib.fns.items() if d.endswith("constraints::arithmetic::" + suffix) and f.kind == "Fn"]
        if len(fs) != 1:
            raise AnchorMissing("constraint builder " + suffix)
        return fs[0]
    cases = [
        ("inequality::less_than_or_equals", lambda r: {1: ("list", [a, b]), 2: ("int", r)}, lambda s, r: s["a"] + s["b"] <= r, "a + b <= r"),
        ("inequality::binary_less_than_or_equals", lambda r: {1: a, 2: b}, lambda s, r: s["a"] <= s["b"], "a <= b"),
        ("inequality::binary_less_than", lambda r: {1: a, 2: b}, lambda s, r: s["a"] < s["b"], "a < b"),
        ("equality::equals", lambda r: {1: ("list", [a, b]), 2: ("int", r)}, lambda s, r: s["a"] + s["b"] == r, "a + b = r"),
        ("equality::binary_equals", lambda r: {1: a, 2: b}, lambda s, r: s["a"] == s["b"], "a = b"),
        ("equality::not_equals", lambda r: {1: ("list", [a, b]), 2: ("int", r)}, lambda s, r: s["a"] + s["b"] != r, "a + b != r"),
        ("equality::binary_not_equals", lambda r: {1: a, 2: b}, lambda s, r: s["a"] != s["b"], "a != b"),
        ("plus", lambda r: {1: a, 2: b, 3: c}, lambda s, r: s["a"] + s["b"] == s["c"], "a + b = c"),
        ("maximum", lambda r: {1: ("list", [a, b]), 2: c}, lambda s, r: max(s["a"], s["b"]) == s["c"], "max(a, b) = c"),
        ("minimum", lambda r: {1: ("list", [a, b]), 2: c}, lambda s, r: min(s["a"], s["b"]) == s["c"], "min(a, b) = c"),
    ]
    n = 0
    for suffix, mkenv, spec, text in cases:
        f = builder(suffix)
        bad = None
        try:
            for r in W:
                v = ev.ev(ev.single_path(f).ret, mkenv(r))
                if v[0] != "atom":
                    raise Undecided("returns a %s" % v[0])
                atoms = leafs(v)
                for sa, sb, sc in itertools.product(W, W, W):
                    sg = {"a": sa, "b": sb, "c": sc}
                    got = all(holds_atom(x, sg) for x in atoms)
                    if got != spec(sg, r):
                        bad = ("%s a=%d, b=%d, c=%d%s" % ("accepts" if got else "rejects", sa, sb, sc,
                                                          ", r=%d" % r if "r" in text else ""))
                        break
                if bad:
                    break
        except Undecided as u:
            bad = "cannot be evaluated in the linear-form domain (%s)" % u
        n += 1
        led.check(bad is None, rid, "builder:%s" % suffix.rsplit("::", 1)[-1], f.span, "≡ %s" % text,
                  "constraints::%s should mean `%s` but the constraints it builds %s" % (suffix.rsplit("::", 1)[-1], text, bad))
    # negation of each arithmetic constraint type is the exact complement
    for kind, adt in ADT.items():
        bad = None
        f = lib.method(adt, "negation", "NegatableConstraint")
        try:
            for r in W:
                x = ("atom", kind, [a, lin("b", 2)], ("int", r))
                y = ev.ev(ev.single_path(f).ret, {1: x})
                if y[0] != "atom":
                    raise Undecided("returns a %s" % y[0])
                ax, ay = leafs(x), leafs(y)
                for sa, sb in itertools.product(W, W):
                    sg = {"a": sa, "b": sb}
                    if all(holds_atom(t, sg) for t in ax) == all(holds_atom(t, sg) for t in ay):
                        bad = "and the constraint itself agree on a=%d, b=%d (rhs %d)" % (sa, sb, r)
                        break
                if bad:
                    break
        except Undecided as u:
            bad = "cannot be evaluated in the linear-form domain (%s)" % u
        n += 1
        led.check(bad is None, rid, "negation:%s" % adt, f.span, "exact complement",
                  "%s::negation %s: posting the negation does not admit exactly the complement" % (adt, bad))
    led.floor(rid, "builders and negations", n, 13)


def r11(led, rid, ctx):
    """the initialisation context hands the reified wrapper a local id above every id its wrapped
    propagator registered: next_local_id only grows (max of the old value and id + 1)"""
    lib = ctx.lib
    f = lib.method("PropagatorInitialisationContext", "register")
    R = resolver(f)
    n = 0
    for b in f.blocks:
        for st in b["stmts"]:
            if st["s"] != "assign" or not st["dst"]["proj"]:
                continue
            names = [x.get("name") for x in st["dst"]["proj"] if "field" in x]
            if names[-1:] != ["next_local_id"]:
                continue
            n += 1
            e = R.rvalue(st["rv"])
            mono = any(x.k == "call" and x.a.name == "max" and any("next_local_id" in y.fields() for y in x.b)
                       for x in e.walk())
            led.check(mono, rid, "register:next_local_id-monotone", "%s:%d" % (f.file, st["line"]),
                      "max(self.next_local_id, id + 1)",
                      "PropagatorInitialisationContext::register sets next_local_id to %s without taking the "
                      "maximum with its old value: a propagator that registers its variables in non-increasing "
                      "id order (element: array first, then index and rhs) leaves it too small, and the reified "
                      "wrapper's literal collides with a wrapped variable" % show(e)[:80])
    for c in f.calls:
        if c.dst and c.name == "max" and False:
            pass
    led.floor(rid, "writes of next_local_id", n, 1)


# relations of the scalar arithmetic propagators, by field name (used to decide detect_inconsistency)
R16_RELATIONS = {
    "AbsoluteValuePropagator": (("signed", "absolute"), lambda v: v["absolute"] == abs(v["signed"])),
    "IntegerMultiplicationPropagator": (("a", "b", "c"), lambda v: v["a"] * v["b"] == v["c"]),
}
# overrides whose soundness is argued elsewhere: propagator -> where
R16_CONFIRMED = {
    "LinearLessOrEqualPropagator": "c < Σ lb(x_i), the sum being the trailed value maintained in notify (C17-L5/L20, C16-ARITH)",
}


def r16(led, rid, ctx):
    """DETECT-INCONSISTENCY TABLE: a reified propagator uses the wrapped propagator's
    detect_inconsistency to set r false before the constraint is enabled.  Every override is either
    the confirmed one, or belongs to a propagator whose relation is tabulated and is then decided
    on all bound boxes of a [-3,3] window: Some(_) only if no point of the box satisfies the
    relation.  An override of any other propagator is reported (nothing here can argue it)."""
    import itertools
    from ..predalg import ev, Unknown, feasible
    lib = ctx.lib
    n = 0
    W = range(-3, 4)
    for imp in lib.impls_of("Propagator"):
        if "/tests" in imp["span"] or "::tests::" in (imp.get("self_ty") or ""):
            continue
        f = lib.impl_fn(imp, "detect_inconsistency")
        if f is None or "/tests" in f.file or "::tests::" in f.defn or "/propagators/" not in f.file:
            continue
        who = (imp.get("self_adt") or "?").rsplit("::", 1)[-1]
        if who == "ReifiedPropagator":
            continue
        n += 1
        if who in R16_CONFIRMED:
            led.ok(rid, "%s:detect_inconsistency" % who, f.span, "CONFIRMED: " + R16_CONFIRMED[who])
            continue
        if who not in R16_RELATIONS:
            led.bad(rid, "%s:detect_inconsistency" % who, f.span,
                    "%s overrides detect_inconsistency: under reification its answer sets r false, and this rule has "
                    "neither a confirmation nor a relation for that propagator to decide the answer with" % who)
            continue
        fields, rel = R16_RELATIONS[who]
        paths = [p for p in SymExec(f, max_paths=400).run() if not p.diverged and p.ret is not None]
        bad = None
        decided = 0
        boxes = [(lo, hi) for lo in W for hi in W if lo <= hi]
        try:
            for box in itertools.product(boxes, repeat=len(fields)):
                b = dict(zip(fields, box))

                def leaf(e, b=b):
                    if e.k == "call":
                        nm = e.a.name
                        if nm in ("lower_bound", "upper_bound") and e.b:
                            fl = e.b[-1].fields()
                            if fl and fl[-1] in b:
                                return b[fl[-1]][0 if nm == "lower_bound" else 1]
                        if nm == "abs" and e.b:
                            return abs(ev(e.b[0], leaf))
                        if nm in ("min", "max") and len(e.b) == 2:
                            return (min if nm == "min" else max)(ev(e.b[0], leaf), ev(e.b[1], leaf))
                    return None
                for p in paths:
                    if not feasible(p.conds, leaf):
                        continue
                    # every condition must have been decidable
                    for cond, val, others in p.conds:
                        if cond.k != "discr":
                            ev(cond, leaf)
                    r = peel(p.ret, calls=None)
                    if not (r.k == "agg" and (r.a or "").endswith("Option")):
                        raise Unknown(show(r)[:60])
                    decided += 1
                    if r.b == "Some":
                        pts = itertools.product(*[range(b[x][0], b[x][1] + 1) for x in fields])
                        for pt in pts:
                            v = dict(zip(fields, pt))
                            if rel(v):
                                bad = bad or ("reports an inconsistency for the bounds %s although %s satisfies the "
                                              "constraint" % (", ".join("%s∈[%d,%d]" % (x, b[x][0], b[x][1]) for x in fields),
                                                              ", ".join("%s=%d" % kv for kv in v.items())))
                                break
                if bad:
                    break
        except Unknown as u:
            bad = "tests %s, which this rule cannot evaluate" % u
        led.check(bad is None and decided > 0, rid, "%s:detect_inconsistency" % who, f.span,
                  "%d (box, path) rows: Some(_) only on boxes without a solution" % decided,
                  "%s::detect_inconsistency %s: under reification r is forced false although r = true has a "
                  "solution" % (who, bad))
    led.floor(rid, "detect_inconsistency overrides", n, 1)


def r12(led, rid, ctx):
    """MUST-PASS: a conflict the wrapped propagator reported while the literal was not yet true is
    cached; `propagate` consumes the cache on every path and turns it into r = false (or into the
    conflict, when r is already true) under no other condition than the cache being filled"""
    lib = ctx.lib
    f = reif_method(lib, "propagate")
    R = resolver(f)
    cfg = f.cfg
    takes = [c for c in f.calls if c.name in ("take", "as_ref", "clone", "is_some") and c.args
             and "inconsistency" in R.operand(c.args[0]).fields()]
    if not takes:
        raise AnchorMissing("the read of ReifiedPropagator::inconsistency in propagate")
    t = takes[0]
    dom = all(cfg.dominates(t.bb, r) for r in cfg.returns)
    led.check(dom, rid, "propagate:cache-consumed-on-every-path", t.span, "the read dominates every return",
              "ReifiedPropagator::propagate reads the cached inconsistency only on some paths: when it is "
              "skipped (e.g. because the literal is already fixed) a conflict of the wrapped propagator found "
              "at the root is dropped, and propagators that do not re-detect it accept violating assignments")
    sets = [c for c in f.calls if c.name == "assign_literal" and cfg.dominates(t.bb, c.bb)]
    if not sets:
        raise AnchorMissing("assign_literal after the cache read in ReifiedPropagator::propagate")
    c = sets[0]
    extra = []
    for g in guards_of(f, c.bb):
        if not cfg.dominates(t.bb, g.edge.node) and g.edge.node != t.bb:
            extra.append(show(g.atom)[:60])
            continue
        a = peel(g.atom, calls=None)
        if a.k == "discr" or (a.k == "call" and a.a.name in ("is_some", "is_none", t.name)):
            continue
        extra.append(show(g.atom)[:60])
    led.check(not extra, rid, "propagate:cache-handled-unconditionally", c.span, "guarded by the cache being filled only",
              "ReifiedPropagator::propagate turns the cached inconsistency into r = false only if also %s: "
              "otherwise the conflict is dropped" % ", ".join(extra))


def run(ctx, led):
    from . import C08 as _C08, C17 as _C17
    from . import C01 as _C01
    run_rule(led, "R15", "no post / implied_by returns Ok(()) without posting (shared with C01-S18)", _C01.s18, ctx)
    run_rule(led, "R13", "a wrapped incremental propagator that is notified but not run under r = false never discards pending updates silently (shared with C08-H5)", _C08.h5, ctx)
    run_rule(led, "R14", "INCREMENTAL-RESET of un-trailed accumulators on backtrack (shared with C17-L20)", _C17.l20, ctx)
    run_rule(led, "R16", "DETECT-INCONSISTENCY TABLE: every override is confirmed or decided against the propagator's relation on a window", r16, ctx)
    run_rule(led, "R12", "MUST-PASS: propagate consumes the cached inconsistency on every path, under no further condition", r12, ctx)
    run_rule(led, "R1", "the wrapped propagator runs only under r true, on a reified context, and its "
             "conflict gets [r = true]", r1, ctx)
    run_rule(led, "R2", "FORWARD-ALL(ReifiedPropagator, Propagator): every hook the engine raises is "
             "overridden and reaches the wrapped propagator (computed event set)", r2, ctx)
    run_rule(led, "R3", "synchronise clears the cached inconsistency on every path", r3, ctx)
    run_rule(led, "R4", "every implied_by passes the literal to everything it posts (TAINT, through "
             "closures); clauses receive ¬r; nothing is posted unconditionally", r4, ctx)
    run_rule(led, "R5", "reify = (c ← r) ∧ (¬c ← ¬r)", r5, ctx)
    run_rule(led, "R6", "negation is an involution on constraint types and negates the data as the "
             "integers demand (¬(Σt ≤ c) = Σ−t ≤ −c−1; =↔≠ unchanged; clause↔conjunction of negated literals)", r6, ctx)
    run_rule(led, "R7", "reasons built under reification carry the literal (eager: extended; lazy: "
             "ReifiedLazy, whose evaluation appends it) — TABLE", r7, ctx)
    run_rule(led, "R8", "post and implied_by of one constraint build the same sub-constraints", r8, ctx)
    from . import predrules
    run_rule(led, "R9", "Predicate negation is the exact complement (shared with C02-U9)", predrules.negation_exact, ctx)
    run_rule(led, "R10", "LINFORM: arithmetic constraint builders and their negations mean what they say (abstract evaluation in the linear-form domain, 5-value window)", r10, ctx)
    run_rule(led, "R11", "the reified wrapper's literal id lies above every id of the wrapped propagator (monotone next_local_id)", r11, ctx)

"""C08 — cumulative means the same under every propagator variant (narrow structural clauses)."""
from ..main import run_rule
from ..flow import (resolver, peel, guards_of, rel_fact, aggregates, show, edge_facts, const_defs,
                    call_guarded, backward, _rv_locals)
from ..symexec import SymExec
from ..facts import AnchorMissing, op_const_int

LEVEL = ('narrow: decides four code-shape facts two of whose violations were confirmed to change the '
         'meaning of the constraint between variants — every function that builds or extends a time-'
         'table compares the resulting profile height with the capacity, in itself, in its callee or '
         "right after the call (H3); no time value shares its type with an in-band 'absent' sentinel "
         '(H4); the incremental propagators never discard pending updates without a rebuild or marking'
         ' the time-table outdated (H5); a propagator that overrides notify_backtrack registers for '
         'backtrack events and vice versa, and the non-incremental path rebuilds (H1/H2). no update of'
         ' the running usage reaches the construction of a profile without a capacity comparison (H6);'
         ' a profile interval is built exactly when it is non-empty (H7 GUARD-TIGHT, decided on a '
         'window). both chain searches of the generate-sequence variants end a chain on the same gap '
         'test (H8 SIBLINGS); the gap profile between two profiles is created iff the gap is non-empty'
         ' and covered by the update range (H9 TABLE); the cached profile explanation is reset per '
         'profile (H10). the time point of a pointwise hole explanation lies in the profile and in the'
         " task's run (H11 WITNESS-POINT, decided on a window). incremental insertion handles gap and "
         'overlap for every overlapped profile (H13 MUST-PASS on the loop); reasons assembled from '
         'several profiles are the union of their parts (H14 = C17-L21). No loop-free path through a '
         'from-scratch builder avoids the capacity comparison (H3 MUST-PASS); tasks leave a profile '
         'only where a mandatory part is undone (H15); the per-profile explanation cache is '
         'initialised from the profile only (H16). create_tasks keeps a task iff usage and duration '
         'are both positive (H17 TABLE; zero-duration defect D21 repaired). Event registration of '
         'negative-scale start-time views (H18 = C12-V9), registration of two tasks over one variable '
         '(H19 = C01-S5c), the FlatZinc builtin compiled to the cumulative constructor only (H20 = '
         'C13-F3). Everything else about the 144 variants — in particular the numbers they compute and'
         ' zero-duration tasks — is NOT decided')
TECHNIQUE = "static analysis: must-pass / sentinel taint / dominance rules over rustc MIR"


def mentions_capacity(f, e):
    if "capacity" in e.fields():
        return True
    for x in e.walk():
        if x.k == "arg" and f.local_name(x.a) == "capacity":
            return True
        if x.k in ("local", "phi"):
            l = x.a if x.k == "local" else x.b
            if f.local_name(l) == "capacity":
                return True
    return False


def capacity_comparisons(f):
    out = []
    for g in f.with_closures():
        for bb in g.cfg.edges:
            for fa in edge_facts(g, bb):
                rf = rel_fact(fa)
                if rf and rf[0] in ("Gt", "Ge", "Lt", "Le") and \
                        (mentions_capacity(g, rf[1]) or mentions_capacity(g, rf[2])):
                    out.append((g, bb))
    return out


def compares_capacity_deep(lib, f, depth=0, seen=None):
    seen = seen if seen is not None else set()
    if f.defn in seen or depth > 3:
        return False
    seen.add(f.defn)
    if capacity_comparisons(f):
        return True
    for g in f.with_closures():
        for c in g.calls:
            if c.trait and not c.resolved:
                continue
            for h in lib.callees(c):
                if "/cumulative/" in h.file and compares_capacity_deep(lib, h, depth + 1, seen):
                    return True
    return False


def h3(led, rid, ctx):
    lib = ctx.lib
    n = 0
    # (a) from-scratch constructions
    for f in lib.fns.values():
        if "/cumulative/time_table/" not in f.file or "/tests" in f.file:
            continue
        if f.name.startswith("create_time_table") and f.kind == "Fn" and "from_scratch" in f.name or \
                f.name == "create_time_table_from_events":
            if not aggregates(f, "ResourceProfile") and not any(c.name in ("entry", "insert") for c in f.calls):
                # a thin wrapper: the comparison is in what it calls
                pass
            n += 1
            led.check(compares_capacity_deep(lib, f), rid, "%s:compares-capacity" % f.name, f.span,
                      "the profile heights it builds are compared with the capacity",
                      "%s builds a time-table without ever comparing a profile height with the capacity: "
                      "an overflow cannot raise the conflict the constraint is defined by" % f.name)
    # (a') MUST-PASS: no loop-free way through a from-scratch builder avoids every capacity comparison
    for f in lib.fns.values():
        if "/cumulative/time_table/" not in f.file or "/tests" in f.file or f.kind != "Fn":
            continue
        if not (f.name.startswith("create_time_table") and "from_scratch" in f.name):
            continue
        cfg = f.cfg
        S = {bb for g, bb in capacity_comparisons(f) if g is f}
        for c in f.calls:
            if c.trait and not c.resolved:
                continue
            if any("/cumulative/" in h.file and compares_capacity_deep(lib, h) for h in lib.callees(c)):
                S.add(c.bb)
        n += 1
        around = cfg.reaches(0, cfg.returns, avoid=list(S | set(cfg.loop_heads())), strict=False) if 0 not in S else False
        led.check(not around, rid, "%s:no-way-round-the-capacity-test" % f.name, f.span,
                  "every loop-free path passes a capacity comparison (own or in a callee)",
                  "%s can build and return a time-table on a path that compares no profile height with the "
                  "capacity (a shortcut for 'simple' cases): a profile that alone exceeds the capacity is accepted "
                  "by this variant and refuted by the others" % f.name)
    # (b) incremental insertion: every insert call in add_to_time_table
    for f in lib.fns.values():
        if f.name != "add_to_time_table" or "/cumulative/" not in f.file:
            continue
        own = capacity_comparisons(f)
        inserts = [c for c in f.calls if (c.name.startswith("insert_") or c.name in ("insert",)) and
                   c.callee.get("local")]
        wname = (f.self_adt or "?").rsplit("::", 1)[-1]
        if not inserts:
            n += 1
            led.check(bool(own), rid, "%s::add_to_time_table:compares-capacity" % wname, f.span,
                      "heights are compared with the capacity as they are increased",
                      "%s::add_to_time_table increases profile heights without comparing them with the "
                      "capacity" % wname)
            continue
        for c in inserts:
            n += 1
            callee_ok = any(compares_capacity_deep(lib, h) for h in lib.callees(c))
            after_ok = any(g is f and f.cfg.reaches(c.bb, [bb], strict=True) and
                           (f.cfg.dominates(c.bb, bb)) for g, bb in own)
            led.check(callee_ok or after_ok, rid, "%s::add_to_time_table:%s" % (wname, c.name), c.span,
                      "capacity compared in the callee" if callee_ok else "capacity compared after the call",
                      "%s inserts a new profile through `%s` and neither that function nor the code "
                      "after the call compares the profile's height with the capacity: a single task "
                      "whose usage exceeds the capacity is accepted by this variant and refuted by the "
                      "others" % (wname, c.name))
    led.floor(rid, "time-table builders / inserters", n, 5)


def h4(led, rid, ctx):
    """SENTINEL: an integer local initialised with a constant, equality-tested against that
    constant, and otherwise assigned non-constant values"""
    lib = ctx.lib
    n = 0
    for f in lib.fns.values():
        if "/cumulative/" not in f.file or "/tests" in f.file:
            continue
        R = None
        for l in f.locals:
            if l["ty"] not in ("i32", "i64", "isize") or not l.get("name"):
                continue
            lid = l["id"]
            defs = f.whole_defs(lid)
            consts = set()
            nonconst = 0
            accum = False
            for d in defs:
                if d[0] == "stmt" and d[3]["s"] == "assign":
                    if R is None:
                        R = resolver(f)
                    e_ = R.rvalue(d[3]["rv"])
                    if e_.k == "binop" and lid in e_.locals_used():
                        accum = True
                if d[0] == "call":
                    accum = accum or False
                if d[0] == "stmt" and d[3]["s"] == "assign" and d[3]["rv"]["r"] == "use" and \
                        "const" in d[3]["rv"]["op"] and d[3]["rv"]["op"]["const"].get("int") is not None:
                    consts.add(d[3]["rv"]["op"]["const"]["int"])
                elif d[0] != "arg":
                    nonconst += 1
            if not consts or not nonconst or accum:
                continue      # accumulators: their constant is the natural zero, not a sentinel
            n += 1
            # equality test against one of its own initialisers
            hit = None
            for bb in f.cfg.edges:
                for fa in edge_facts(f, bb):
                    if fa.kind == "bool" and fa.atom.k == "binop" and fa.atom.a in ("Eq", "Ne"):
                        x, y = peel(fa.atom.b, calls=None), peel(fa.atom.c, calls=None)
                        for u, v in ((x, y), (y, x)):
                            is_l = (u.k in ("local",) and u.a == lid) or (u.k == "phi" and u.b == lid)
                            if is_l and v.k == "const" and v.a in consts:
                                hit = (v.a, f.blocks[bb]["line"])
            if hit is not None:
                led.bad(rid, "%s:%s" % ((f.parent or f.defn).rsplit("::", 1)[-1], l["name"]),
                        "%s:%d" % (f.file, hit[1]),
                        "`%s` holds time values but uses the in-band constant %d to mean `absent` "
                        "(`%s == %d`): a task whose time value equals %d is mistaken for `no open "
                        "profile` (negative start times are explicitly in scope of the property)"
                        % (l["name"], hit[0], l["name"], hit[0], hit[0]))
    led.count("H4:integer locals with constant and computed definitions", n)
    led.ok(rid, "scan", None, "%d candidate locals examined" % n)


def h5(led, rid, ctx):
    lib = ctx.lib
    n = 0
    for f in lib.fns.values():
        if "/cumulative/time_table/" not in f.file or "incremental" not in f.file or "/tests" in f.file:
            continue
        if not (f.impl_trait or "").endswith("Propagator") or f.name != "synchronise":
            continue
        wname = (f.self_adt or "?").rsplit("::", 1)[-1]
        R = resolver(f)
        resets = f.calls_named("reset_all_bounds_and_remove_fixed")
        for c in resets:
            n += 1
            # on every path through the reset the time-table is marked outdated, or the path lies on
            # the "nothing pending" edges of both tests
            cfg = f.cfg
            marks = []
            for b in f.blocks:
                for s in b["stmts"]:
                    if s["s"] == "assign" and s["dst"]["proj"] and \
                            [e.get("name") for e in s["dst"]["proj"] if "field" in e][-1:] == ["is_time_table_outdated"]:
                        e = R.rvalue(s["rv"])
                        if e.k == "const" and e.a == 1:
                            marks.append(b["id"])
            # the only way around a mark must be through has_updates() == false AND is_empty() == true
            ok = True
            detail = ""
            if not marks:
                ok = False
                detail = "never marks the time-table outdated"
            else:
                # blocks from which the return is reachable avoiding every mark, after/before the reset
                skip_edges = []
                for bb in cfg.edges:
                    for fa in edge_facts(f, bb):
                        if fa.kind != "bool":
                            continue
                        if any(cfg.dominates(fa.edge.node, m) for m in marks):
                            continue
                        # this edge bypasses the mark: what does it assert?
                        a = peel(fa.atom, calls=None)
                        if a.k == "call" and a.a.name in ("is_empty", "has_updates"):
                            skip_edges.append((a.a.name, fa.val))
                names = {nm for nm, v in skip_edges}
                tested_updates = any(c2.name == "has_updates" for c2 in f.calls)
                if not tested_updates:
                    ok = False
                    detail = ("the reset is skipped over by `time-table empty ⇒ still valid` alone; "
                              "updates that were notified but not yet propagated (a reified cumulative "
                              "defers propagate) are discarded without a rebuild")
            led.check(ok, rid, "%s::synchronise:pending-updates" % wname, c.span,
                      "outdated is set unless the time-table is empty and no update is pending",
                      "%s::synchronise %s" % (wname, detail))
    led.floor(rid, "resets in incremental synchronise", n, 2)


def h6(led, rid, ctx):
    """every value a profile height is built from is compared with the capacity on its way into the
    stored profile: no definition of the running usage reaches the construction of a ResourceProfile
    without passing a capacity comparison"""
    lib = ctx.lib
    n = 0
    for f in lib.fns.values():
        if "/cumulative/time_table/" not in f.file or "/tests" in f.file or f.kind == "Closure":
            continue
        aggs = aggregates(f, "ResourceProfile")
        if not aggs:
            continue
        cfg = f.cfg
        comps = {bb for g, bb in capacity_comparisons(f) if g is f}
        for bb, i, st in aggs:
            rv = st["rv"]
            names = rv.get("field_names") or []
            if "height" not in names:
                continue
            op = rv["fields"][names.index("height")]
            pl = op.get("copy") or op.get("move")
            if not pl or pl["proj"]:
                continue
            L = pl["local"]
            # follow a plain copy back to the named running variable
            for _ in range(4):
                ds = f.whole_defs(L)
                if len(ds) == 1 and ds[0][0] == "stmt" and ds[0][3]["rv"]["r"] == "use":
                    p2 = ds[0][3]["rv"]["op"].get("copy") or ds[0][3]["rv"]["op"].get("move")
                    if p2 and not p2["proj"]:
                        L = p2["local"]
                        continue
                break
            defs = [d for d in f.whole_defs(L) if d[0] in ("stmt", "call")]
            nonconst = []
            for d in defs:
                if d[0] == "stmt":
                    rv2 = d[3]["rv"]
                    if rv2["r"] == "use" and "const" in rv2["op"]:
                        continue          # the initial 0
                    nonconst.append(d[1])
                else:
                    nonconst.append(d[2].bb)
            if len(nonconst) < 2:
                continue                  # not a running value
            n += 1
            bad = [d for d in nonconst if d != bb and cfg.reaches(d, [bb], avoid=list(comps), strict=True)
                   and d not in comps]
            led.check(not bad, rid, "%s:height-checked-before-stored" % f.name, "%s:%d" % (f.file, f.blocks[bb]["line"]),
                      "every update of the usage passes a capacity comparison before the profile is built",
                      "%s builds a profile from a resource usage that was updated (line %s) and reaches the "
                      "construction of the profile without being compared with the capacity: a profile above "
                      "the capacity is stored as an ordinary profile, this variant accepts what the others refute"
                      % (f.name, ", ".join(str(f.blocks[d]["line"]) for d in bad[:3])))
    led.floor(rid, "profiles built from a running usage", n, 1)


def h7(led, rid, ctx):
    """GUARD-TIGHT: a profile interval [start, end] is built exactly when it is non-empty — the guard
    that compares the two quantities its ends are computed from is equivalent to start <= end
    (decided on a 7-value window; all such guards on the pinned tree are)"""
    import itertools
    from ..predalg import ev, Unknown
    lib = ctx.lib

    def leaves(e, acc):
        e = peel(e, calls=None)
        if e.k == "binop" and e.a in ("Add", "Sub"):
            leaves(e.b, acc)
            leaves(e.c, acc)
        elif e.k == "cast":
            leaves(e.b, acc)
        elif e.k != "const":
            acc.add(show(e))      # min(..) / max(..) of several quantities count as one quantity
        return acc
    OPS = {"Lt": lambda a, b: a < b, "Le": lambda a, b: a <= b, "Gt": lambda a, b: a > b, "Ge": lambda a, b: a >= b}
    n = 0
    for f in lib.fns.values():
        if "/cumulative/" not in f.file or "/tests" in f.file:
            continue
        R = None
        for bb, i, st in aggregates(f, "ResourceProfile"):
            R = R or resolver(f)
            e = R.rvalue(st["rv"])
            d = dict(zip(e.d or [], e.c))
            if "start" not in d or "end" not in d:
                continue
            S, E_ = d["start"], d["end"]
            ls, le = leaves(S, set()), leaves(E_, set())
            if ls == le or not ls or not le:
                continue
            for g in guards_of(f, bb):
                rf = rel_fact(g)
                if not rf or rf[0] not in OPS:
                    continue
                gl = leaves(rf[1], set()) | leaves(rf[2], set())
                if not (gl and gl <= (ls | le) and len(gl) == 2):
                    continue
                names = sorted(ls | le)
                n += 1
                bad = None
                for vals in itertools.product(range(-3, 4), repeat=len(names)):
                    env = dict(zip(names, vals))

                    def leaf(x):
                        x = peel(x, calls=None)
                        if show(x) in env:
                            return env[show(x)]
                        if x.k == "call" and x.a.name in ("max", "min") and len(x.b) == 2:
                            a_, b_ = ev(x.b[0], leaf), ev(x.b[1], leaf)
                            return max(a_, b_) if x.a.name == "max" else min(a_, b_)
                        return env.get(show(x))
                    try:
                        gv = OPS[rf[0]](ev(rf[1], leaf), ev(rf[2], leaf))
                        s_, e_ = ev(S, leaf), ev(E_, leaf)
                    except Unknown:
                        bad = "cannot be evaluated"
                        break
                    if gv != (s_ <= e_):
                        bad = ("is %s for %s although the interval [%d, %d] is %s"
                               % ("true" if gv else "false", env, s_, e_, "empty" if s_ > e_ else "not empty"))
                        break
                led.check(bad is None, rid, "%s:interval-guard@%s" % (f.name, show(S)[-22:]), "%s:%d" % (f.file, f.blocks[bb]["line"]),
                          "guard ⇔ start <= end",
                          "%s builds the profile [%s, %s] under the test `%s %s %s`, which %s: a non-empty part of "
                          "the time-table is not created (the table under-counts there and overloads are "
                          "accepted) or an empty profile is stored"
                          % (f.name, show(S)[:40], show(E_)[:40], show(rf[1])[:40], rf[0], show(rf[2])[:40], bad))
    led.floor(rid, "interval guards", n, 5)


def h8(led, rid, ctx):
    """SIBLINGS: the lower- and the upper-bound chain search end a chain of profiles on the same gap
    test (decided on a window over start, end and processing time)"""
    import itertools
    from ..predalg import ev, Unknown
    lib = ctx.lib
    conds = {}
    for nm in ("find_index_last_profile_which_propagates_lower_bound",
               "find_index_last_profile_which_propagates_upper_bound"):
        f = lib.fn(nm)
        found = []
        for bb in f.cfg.edges:
            for fa in edge_facts(f, bb):
                rf = rel_fact(fa)
                if rf and rf[0] in ("Ge", "Gt", "Le", "Lt") and fa.val and \
                        ("processing_time" in rf[1].fields() or "processing_time" in rf[2].fields()):
                    found.append((rf, f.blocks[bb]["line"]))
        if not found:
            raise AnchorMissing("gap test against processing_time in " + nm)
        conds[nm] = (f, found[0])
    OPS = {"Lt": lambda a, b: a < b, "Le": lambda a, b: a <= b, "Gt": lambda a, b: a > b, "Ge": lambda a, b: a >= b}

    def value(rf, s_, e_, p_):
        def leaf(x):
            x = peel(x, calls=None)
            fl = x.fields() if x.k == "proj" else []
            if fl and list(fl)[-1] == "start":
                return s_
            if fl and list(fl)[-1] == "end":
                return e_
            if fl and list(fl)[-1] == "processing_time":
                return p_
            return None
        return OPS[rf[0]](ev(rf[1], leaf), ev(rf[2], leaf))
    (fa, (ra, la)), (fb, (rb, lb)) = conds.values()
    bad = None
    try:
        for s_, e_, p_ in itertools.product(range(0, 8), range(0, 8), range(1, 5)):
            if value(ra, s_, e_, p_) != value(rb, s_, e_, p_):
                bad = "later.start=%d, earlier.end=%d, processing time %d" % (s_, e_, p_)
                break
    except Unknown as u:
        bad = "an expression the rule cannot evaluate (%s)" % u
    led.check(bad is None, rid, "chain-gap-tests-agree", "%s:%d" % (fa.file, la), "same test in both directions",
              "the lower-bound chain search ends a chain on `%s %s %s`, the upper-bound one on `%s %s %s`; they "
              "differ for %s: one direction pushes a task past a gap it fits into (or stops too early), so the "
              "generate-sequence variants disagree with the single-profile ones"
              % (show(ra[1])[:50], ra[0], show(ra[2])[:30], show(rb[1])[:50], rb[0], show(rb[2])[:30], bad))


def h9(led, rid, ctx):
    """TABLE: the gap profile between two existing profiles is created exactly when the gap is
    non-empty and the updated range covers it: guards ⇔ (S <= E and range.start <= S and range.end > E)"""
    import itertools
    from ..predalg import ev, Unknown
    lib = ctx.lib
    f = lib.fn("new_profile_between_profiles")
    R = resolver(f)
    rng = [a["local"] for a in f.args if "Range<" in a["ty"]]
    if not rng:
        raise AnchorMissing("update range parameter of new_profile_between_profiles")
    aggs = aggregates(f, "ResourceProfile")
    if len(aggs) != 1:
        raise AnchorMissing("the single gap profile of new_profile_between_profiles")
    bb, i, st = aggs[0]
    e = R.rvalue(st["rv"])
    d = dict(zip(e.d or [], e.c))
    S, E_ = d["start"], d["end"]
    OPS = {"Lt": lambda a, b: a < b, "Le": lambda a, b: a <= b, "Gt": lambda a, b: a > b, "Ge": lambda a, b: a >= b,
           "Eq": lambda a, b: a == b, "Ne": lambda a, b: a != b}
    guards = []
    for g in guards_of(f, bb):
        rf = rel_fact(g)
        if rf and rf[0] in OPS:
            fl = rf[1].fields() | rf[2].fields() if hasattr(rf[1].fields(), "__or__") else set(rf[1].fields()) | set(rf[2].fields())
            if {"start", "end"} & set(fl):
                guards.append(rf)
    bad = None
    try:
        for pe, ps, us, ue in itertools.product(range(0, 7), repeat=4):
            def leaf(x):
                x = peel(x, calls=None)
                if x.k != "proj":
                    return None
                fl = list(x.fields())
                root = x
                while root.k in ("proj", "ref"):
                    root = peel(root.a, calls=None)
                is_range = root.k == "arg" and root.a in rng
                is_prev = any(c.name == "index" for c in x.calls())
                if fl and fl[-1] == "start":
                    return us if is_range else ps
                if fl and fl[-1] == "end":
                    return ue if is_range else (pe if is_prev else None)
                return None
            s_, e_ = ev(S, leaf), ev(E_, leaf)
            got = all(OPS[rf[0]](ev(rf[1], leaf), ev(rf[2], leaf)) for rf in guards)
            want = s_ <= e_ and us <= s_ and ue > e_
            if got != want:
                bad = ("previous.end=%d, profile.start=%d, update range %d..%d: the gap [%d, %d] is %s"
                       % (pe, ps, us, ue, s_, e_, "created although it should not be" if got else "not created"))
                break
    except Unknown as u:
        bad = "contains an expression the rule cannot evaluate (%s)" % u
    led.check(bad is None and len(guards) >= 3, rid, "gap-profile-created-iff-covered", f.span,
              "guards ⇔ non-empty ∧ covered by the update range",
              "new_profile_between_profiles: %s — the incremental time-table misses (or invents) the part of a "
              "new mandatory part that lies between two profiles, so this variant accepts overloads the others "
              "refute" % (bad or "fewer than three guards found"))


def h11(led, rid, ctx):
    """WITNESS-POINT: the time point a pointwise hole explanation is built for lies both inside the
    profile and inside the run of the task when it starts at the removed value (decided on a window
    over profile, processing time, bounds and removed value)"""
    import itertools
    from ..predalg import ev, Unknown
    lib = ctx.lib
    f = lib.method("CumulativePropagationHandler", "propagate_holes_in_domain")
    R = resolver(f)
    cs = f.calls_named("create_pointwise_propagation_explanation")
    if not cs:
        raise AnchorMissing("create_pointwise_propagation_explanation in propagate_holes_in_domain")
    c = cs[0]
    pt = R.operand(c.args[0])
    alts = pt.a if pt.k == "phi" else [pt]
    rngs = [x for x in pt.walk() if x.k == "call" and x.a.name == "new" and "RangeInclusive" in (x.a.target_def or "")]
    if not rngs:
        raise AnchorMissing("the inclusive range of removed time points")
    lo_e, hi_e = rngs[0].b[0], rngs[0].b[1]
    bad = None
    n = 0
    try:
        for ps, ln, p, lb, w in itertools.product(range(0, 5), range(0, 4), range(1, 5), range(-3, 4), range(0, 6)):
            pe, ub = ps + ln, lb + w

            cur = {"t": None}

            def base(x):
                x = peel(x, calls=None)
                if ((x.k == "proj" and any(cc.name == "next" for cc in x.calls())) or
                        (x.k == "call" and x.a.name == "next")) and cur["t"] is not None:
                    return cur["t"]
                if x.k == "call" and x.a.name in ("max", "min") and len(x.b) == 2:
                    a_, b_ = ev(x.b[0], base), ev(x.b[1], base)
                    return max(a_, b_) if x.a.name == "max" else min(a_, b_)
                if x.k == "call" and x.a.name == "lower_bound":
                    return lb
                if x.k == "call" and x.a.name == "upper_bound":
                    return ub
                if x.k == "proj":
                    fl = list(x.fields())
                    if fl and fl[-1] == "start":
                        return ps
                    if fl and fl[-1] == "end":
                        return pe
                    if fl and fl[-1] == "processing_time":
                        return p
                return None
            cur["t"] = None
            lo, hi = ev(lo_e, base), ev(hi_e, base)
            for t in range(lo, hi + 1):
                cur["t"] = t
                leaf = base
                vals = []
                for a in alts:
                    vals.append(ev(a, leaf))
                # the alternative that is taken: `t` itself when t >= start, the computed point otherwise
                is_t = lambda a: peel(a, calls=None).k == "proj" or (peel(a, calls=None).k == "call" and peel(a, calls=None).a.name == "next")
                direct = [v for a, v in zip(alts, vals) if is_t(a)]
                comp = [v for a, v in zip(alts, vals) if not is_t(a)]
                q = (comp[0] if comp else vals[0]) if t < ps else (direct[0] if direct else vals[0])
                n += 1
                if not (t <= q <= t + p - 1 and ps <= q <= pe):
                    bad = ("profile [%d, %d], processing time %d, removed start %d: the explanation is built "
                           "for time %d, where the task would %s" %
                           (ps, pe, p, t, q, "not be running" if not (t <= q <= t + p - 1) else "be outside the profile"))
                    break
            if bad:
                break
    except Unknown as u:
        bad = "the explanation point is computed from %s, which the rule cannot evaluate" % u
    led.check(bad is None and n > 0, rid, "pointwise-hole-explanation-point", c.span,
              "inside the profile and inside the task's run on %d cases" % n,
              "propagate_holes_in_domain (pointwise): %s — the facts of the reason hold but do not cover a time "
              "point the task occupies, so they do not imply the removal and learned nogoods cut off solutions"
              % bad)


def h17(led, rid, ctx):
    """TABLE: create_tasks keeps a task iff it can occupy the resource at some time point, i.e. iff
    resource_usage > 0 and processing_time > 0.  A task of duration 0 that is kept is given a
    mandatory part / propagated against profiles although it runs at no time point (solutions are
    lost with allow_holes under the over-interval methods: findings/repro/c08_zero_duration_demo.rs)."""
    from ..predalg import ev, Unknown, feasible
    lib = ctx.lib
    fs = [f for f in lib.fns.values() if f.name == "create_tasks" and "/cumulative/" in f.file and f.kind != "Closure"]
    if len(fs) != 1:
        raise AnchorMissing("cumulative create_tasks")
    f = fs[0]
    clos = []
    for g in f.closures:
        rets = [p for p in SymExec(g, max_paths=64).run() if not p.diverged and p.ret is not None]
        if rets and all(peel(p.ret, calls=None).k == "agg" and (peel(p.ret, calls=None).a or "").endswith("Option") for p in rets) \
                and {peel(p.ret, calls=None).b for p in rets} == {"Some", "None"}:
            clos.append((g, rets))
    loop_rows = None
    if not clos:
        # loop form: `for t in tasks { if keep(t) { out.push(Task{..}) } }` — one row per path that goes
        # round the loop once: kept iff it pushes
        loop_rows = []
        for p in SymExec(f, max_paths=400, max_visits=2).run():
            if p.diverged:
                continue
            if not any(any(fl in ("resource_usage", "processing_time") for fl in c.fields()) for c, v, o in p.conds):
                continue
            loop_rows.append((p, any(c.name == "push" for c, a, r in p.calls)))
    if len(clos) != 1 and not loop_rows:
        raise AnchorMissing("the selecting closure / loop of create_tasks (found %d closures)" % len(clos))
    g, rets = clos[0] if clos else (f, [])
    bad = None
    rows = 0
    try:
        for usage in (0, 1, 2):
            for dur in (0, 1, 2):
                def leaf(e, usage=usage, dur=dur):
                    fl = e.fields() if e.k == "proj" else []
                    if fl and fl[-1] == "resource_usage":
                        return usage
                    if fl and fl[-1] == "processing_time":
                        return dur
                    return None
                kept = None
                for p in rets:
                    if feasible(p.conds, leaf):
                        for cond, val, others in p.conds:
                            if cond.k != "discr":
                                ev(cond, leaf)
                        kept = peel(p.ret, calls=None).b == "Some"
                        break
                for p, pushed in (loop_rows or []):
                    if feasible(p.conds, leaf):
                        for cond, val, others in p.conds:
                            if cond.k != "discr" and any(fl in ("resource_usage", "processing_time") for fl in cond.fields()):
                                ev(cond, leaf)
                        kept = pushed
                        break
                if kept is None:
                    raise Unknown("no path for usage=%d, duration=%d" % (usage, dur))
                rows += 1
                want = usage > 0 and dur > 0
                if kept != want and bad is None:
                    bad = ("%s a task with resource usage %d and duration %d" % ("keeps" if kept else "drops", usage, dur))
    except Unknown as u:
        bad = "selects tasks by a test this rule cannot evaluate (%s)" % u
    led.check(bad is None, rid, "create_tasks:keeps-exactly-the-occupying-tasks", g.span, "%d (usage, duration) rows" % rows,
              "create_tasks %s: a task occupies the resource iff both are positive; a kept task of duration 0 is "
              "treated as if it ran at its start time (valid assignments are rejected), a dropped task with both "
              "positive is not constrained at all" % bad)


def h13(led, rid, ctx):
    """incremental insertion: for every existing profile the new mandatory part overlaps, the gap
    before it and the overlap with it are handled — no way round the loop skips
    new_profile_between_profiles or overlap_updated_profile (MUST-PASS on the cycle)"""
    lib = ctx.lib
    n = 0
    for f in lib.fns.values():
        if "over_interval_incremental_propagator/insertion.rs" not in f.file or f.kind == "Closure":
            continue
        cfg = f.cfg
        for name in ("new_profile_between_profiles", "overlap_updated_profile"):
            cs = f.calls_named(name)
            if not cs:
                continue
            c = cs[0]
            heads = [h for h in cfg.loop_heads() if cfg.dominates(h, c.bb)]
            if not heads:
                continue
            h = max(heads, key=lambda x: sum(1 for y in heads if cfg.dominates(y, x)))
            n += 1
            skip = cfg.reaches(h, [h], avoid=[c.bb], strict=True)
            led.check(not skip, rid, "%s:every-iteration-calls-%s" % (f.name, name), c.span,
                      "no cycle of the profile loop avoids the call",
                      "%s can go round its loop over the overlapped profiles without calling %s: for such a "
                      "profile the gap before it (or the overlap with it) is not recorded, the incremental "
                      "time-table under-counts and this variant accepts overloads the others refute" % (f.name, name))
    led.floor(rid, "per-profile steps of the incremental insertion", n, 2)


def h12(led, rid, ctx):
    """handler ⇔ registration for the cumulative propagators (instance of C01-S5)"""
    from .C01 import s5_propagator_events
    s5_propagator_events(led, rid, ctx, only="/cumulative/")


def run(ctx, led):
    run_rule(led, "H3", "no unchecked profile: every time-table builder / inserter compares heights "
             "with the capacity (in itself, its callee, or right after the call)", h3, ctx)
    run_rule(led, "H4", "no in-band sentinel on time values (SENTINEL)", h4, ctx)
    run_rule(led, "H5", "pending updates of the incremental propagators are never discarded silently", h5, ctx)
    run_rule(led, "H1/H2", "backtrack handler ⇔ backtrack registration for the cumulative "
             "propagators; the non-incremental path rebuilds (shared with C01-S5)", h12, ctx)
    run_rule(led, "H6", "no update of the running usage reaches the construction of a profile without a capacity comparison", h6, ctx)
    run_rule(led, "H7", "GUARD-TIGHT: profile intervals are built exactly when non-empty", h7, ctx)
    run_rule(led, "H8", "SIBLINGS: both chain searches end a chain on the same gap test", h8, ctx)
    run_rule(led, "H9", "TABLE: the gap profile between two profiles is created iff the gap is non-empty and covered by the update range", h9, ctx)
    from . import C17 as _C17
    run_rule(led, "H10", "the cached profile explanation is reset whenever the profile changes (shared with C17-L12)", _C17.l12, ctx)
    run_rule(led, "H11", "WITNESS-POINT of pointwise hole explanations lies in the profile and in the task's run", h11, ctx)
    run_rule(led, "H13", "incremental insertion handles the gap and the overlap for every overlapped profile (MUST-PASS on the loop)", h13, ctx)
    from . import C12 as _C12, C01 as _C01, C13 as _C13
    run_rule(led, "H18", "a negative-scale start-time view exchanges exactly the bound events when it registers (shared with C12-V9)", _C12.v9, ctx)
    run_rule(led, "H19", "two tasks over the same variable are both registered: a watcher is skipped only for an identical (propagator, local id) pair (shared with C01-S5c)", _C01.s5c, ctx)
    run_rule(led, "H20", "the FlatZinc cumulative builtin is compiled to the cumulative constructor only (shared with C13-F3)", _C13.f3, ctx)
    run_rule(led, "H17", "TABLE: create_tasks keeps a task iff usage > 0 and duration > 0 (zero-duration tasks occupy no time point)", h17, ctx)
    run_rule(led, "H16", "CACHE-KEY: the per-profile explanation cache is initialised from the profile only (shared with C17-L25)", _C17.l25, ctx)
    run_rule(led, "H15", "WHO-MAY-SHRINK: tasks leave a resource profile only where a mandatory part is undone (shared with C17-L24)", _C17.l24, ctx)
    run_rule(led, "H14", "reasons assembled from several profiles are the union of their parts (shared with C17-L21)", _C17.l21, ctx)

"""C19 — DRCP files written by the library read back unchanged (structural clauses K1–K3)."""
import re

from ..main import run_rule
from ..flow import resolver, peel, show, E
from ..symexec import SymExec, variant_name
from ..facts import AnchorMissing

LEVEL = ("decides writer/reader agreement of the DRCP text format from the two sources: the reader's "
         "nom combinator tree is recovered from MIR into a grammar, the writer's output templates are "
         'recovered path-wise (optional parts absent/present, loops 0–2 times) into token skeletons, '
         'and every skeleton the writer can emit for a step kind must be in the language of the '
         "reader's grammar for that kind (K2, bounded); the literal token sets agree (K1); negation of"
         ' an atomic constraint is the involution GE(v)↔LE(v−1), EQ↔NE on the same variable (K3); the '
         'literal definition lines the writer can emit, with every atomic kind and comparison symbol, '
         "are in the language of the reader's line grammar (K5). steps that differ in which optional "
         'parts are present are written differently (K2 writer-injective); every integer type of the '
         "format's step / atomic types and every integer type the writer formats has a reader parser "
         'of the same type (K4 NUM-WIDTH). Literal-definition lines the writer emits are in the reader'
         ' grammar (K5), the two identifier grammars agree and admit a leading underscore (K6), and '
         'every concrete atomic text is read by the alternative of the ordered choice that builds its '
         'kind (K7). The literal → atomic map negates exactly for negative literals on every path (K8)'
         ' and every logging method of the writer writes its step with a fresh id on every path (K9). '
         'Does not decide equality of parsed content for arbitrary identifiers and 64-bit values')
TECHNIQUE = "static analysis: grammar recovery from nom combinators and format templates in rustc MIR, bounded language inclusion"

# ---------------------------------------------------------------------------------------------
# reader grammar
from ..facts import op_place


def parser_expr(f):
    """E of the parser object a reader function applies to its input"""
    R = resolver(f)
    for c in f.calls:
        if c.dst is not None and c.dst["local"] == 0 and not c.dst["proj"] and c.name not in ("from_residual", "from_output"):
            # _0 = <parser>(input)  — the callee receives the parser as first argument
            if c.args:
                return peel(R.operand(c.args[0]), calls=None)
    # `let (rest, out) = <parser>(input)?; Ok((rest, build(out)))`: the parser is applied to the function's
    # input by a call whose result goes through `?` (what nom's `map` does, written out)
    for c in f.calls:
        if c.name in ("call_mut", "call", "call_once", "parse") and len(c.args) >= 2:
            inp = R.operand(c.args[1])
            if any(x.k == "arg" and x.a == 1 for x in inp.walk()):
                return peel(R.operand(c.args[0]), calls=None)
    return None


CLASS = {"i8": "int", "i16": "int", "i32": "int", "i64": "int", "i128": "int", "u8": "digit", "u16": "digit",
         "u32": "digit", "u64": "digit", "digit1": "digit", "alpha1": "alpha", "alphanumeric1": "alnum"}
CLASS_RE = {"int": r"[+-]?[0-9]+", "digit": r"[0-9]+", "alpha": r"[A-Za-z]+", "alnum": r"[A-Za-z0-9]+"}


class Indefinite(Exception):
    pass


def peg(g, s, i=0):
    """end position (or None) of nom's deterministic, ordered-choice reading of concrete text"""
    k = g[0]
    if k == "lit":
        if g[1] == "?":
            raise Indefinite("unknown tag")
        return i + len(g[1]) if s.startswith(g[1], i) else None
    if k == "num":
        rx = CLASS_RE.get(g[1] if len(g) > 1 else "other")
        if rx is None:
            raise Indefinite("character class")
        m = re.compile(rx).match(s, i)
        return m.end() if m else None
    if k == "seq":
        for x in g[1]:
            i = peg(x, s, i)
            if i is None:
                return None
        return i
    if k == "alt":
        for x in g[1]:
            j = peg(x, s, i)
            if j is not None:
                return j
        return None
    if k == "opt":
        j = peg(g[1], s, i)
        return i if j is None else j
    if k == "many0":
        while True:
            j = peg(g[1], s, i)
            if j is None or j == i:
                return i
            i = j
    raise Indefinite(k)


def grammar(p, e, depth=0):
    if depth > 30:
        return ("any",)
    e = peel(e, calls=None)
    if e.k == "const" and e.b == "fn":
        name = e.c or ""
        short = name.rsplit("::", 1)[-1]
        if name.startswith("nom::character::complete::") or short in ("i32", "i64", "u32", "u64", "digit1"):
            return ("num", CLASS.get(short, "other"))
        g = p.fns.get(name)
        if g is None:
            for d, h in p.fns.items():
                if d.endswith("::" + short):
                    g = h
        if g is not None:
            pe = parser_expr(g)
            if pe is not None:
                return grammar(p, pe, depth + 1)
        return ("any",)
    if e.k == "tuple":
        return ("seq", [grammar(p, x, depth + 1) for x in e.a])
    if e.k == "closure":
        return ("any",)
    if e.k == "call":
        n = e.a.name
        d = e.a.target_def or ""
        args = e.b
        if n == "tag":
            s = args[0].c if args and args[0].k == "const" else None
            return ("lit", s if s is not None else "?")
        if n == "char":
            return ("lit", chr(args[0].a) if args and args[0].a is not None else "?")
        if n in ("tuple",):
            return grammar(p, args[0], depth + 1)
        if n in ("pair", "preceded", "terminated", "separated_pair", "delimited"):
            return ("seq", [grammar(p, x, depth + 1) for x in args])
        if n == "alt":
            inner = peel(args[0], calls=None)
            alts = inner.a if inner.k == "tuple" else [inner]
            return ("alt", [grammar(p, x, depth + 1) for x in alts])
        if n == "opt":
            return ("opt", grammar(p, args[0], depth + 1))
        if n in ("many0", "many0_count", "fold_many0"):
            return ("many0", grammar(p, args[0], depth + 1))
        if n in ("many1", "many1_count"):
            g = grammar(p, args[0], depth + 1)
            return ("seq", [g, ("many0", g)])
        if n == "separated_list0":
            sep, item = grammar(p, args[0], depth + 1), grammar(p, args[1], depth + 1)
            return ("opt", ("seq", [item, ("many0", ("seq", [sep, item]))]))
        if n == "separated_list1":
            sep, item = grammar(p, args[0], depth + 1), grammar(p, args[1], depth + 1)
            return ("seq", [item, ("many0", ("seq", [sep, item]))])
        if n in ("map", "map_opt", "map_res", "all_consuming", "recognize", "cut", "complete", "verify"):
            return grammar(p, args[0], depth + 1)
        if n == "value":
            return grammar(p, args[1], depth + 1)
        if n in ("i32", "i64", "u32", "u64", "digit1", "alpha1", "alphanumeric1") or "character::complete" in d:
            return ("num", CLASS.get(n, "other"))
        if n in ("take_while", "take_while1", "is_a", "is_not", "take_till", "take_till1"):
            return ("num", "other")
        # a local parser function called directly
        for g in p.callees(e.a):
            pe = parser_expr(g)
            if pe is not None:
                return grammar(p, pe, depth + 1)
    return ("any",)


def matches(g, s, i=0):
    """set of end positions reachable by matching grammar g on skeleton s from i"""
    k = g[0]
    if k == "lit":
        return {i + len(g[1])} if s.startswith(g[1], i) else set()
    if k == "num":
        return {i + 1} if s.startswith("#", i) else set()
    if k == "any":
        return set(range(i, len(s) + 1))
    if k == "seq":
        cur = {i}
        for x in g[1]:
            nxt = set()
            for j in cur:
                nxt |= matches(x, s, j)
            cur = nxt
            if not cur:
                break
        return cur
    if k == "alt":
        out = set()
        for x in g[1]:
            out |= matches(x, s, i)
        return out
    if k == "opt":
        return {i} | matches(g[1], s, i)
    if k == "many0":
        out = {i}
        frontier = {i}
        for _ in range(8):
            nxt = set()
            for j in frontier:
                nxt |= {e for e in matches(g[1], s, j) if e > j}
            nxt -= out
            if not nxt:
                break
            out |= nxt
            frontier = nxt
        return out
    return set()


def lits_of(g, acc=None):
    acc = acc if acc is not None else set()
    if g[0] == "lit":
        acc.add(g[1])
    elif g[0] in ("seq", "alt"):
        for x in g[1]:
            lits_of(x, acc)
    elif g[0] in ("opt", "many0"):
        lits_of(g[1], acc)
    return acc


# ---------------------------------------------------------------------------------------------
# writer skeletons

def template_of(call, args):
    """text template of a std::fmt::Arguments construction: '#' for each placeholder"""
    n = call.name
    args = [peel(a, calls=None) for a in args]
    if n in ("from_str", "from_str_nonconst") and args and args[0].k == "const" and args[0].c is not None:
        return args[0].c
    if n.startswith("new") and "fmt::Arguments" in (call.self_ty or call.target_def or ""):
        raw = args[0].d if args and args[0].k == "const" else None
        if raw and raw.get("bytes"):
            b = bytes.fromhex(raw["bytes"])
            out = ""
            i = 0
            while i < len(b):
                x = b[i]
                if x == 0:
                    break
                if x >= 0x80:
                    out += "#"
                    i += 1
                    # format specs may follow; placeholders with options use more bytes: skip until
                    # the next length byte — the simple `{}` form is a single 0xC0 byte
                    continue
                out += b[i + 1:i + 1 + x].decode("utf8", "replace")
                i += 1 + x
            return out
        if raw and raw.get("str") is not None:
            return raw["str"]
    return None


def shape_of(f, p):
    """abstract value the path writes: which optional fields of the step are present and how long
    its lists are"""
    opts = {}
    lens = {}
    for cond, val, others in p.conds:
        if cond.k != "discr":
            continue
        pl = peel(cond.a, calls=None)
        if pl.k == "call" and pl.a.name == "next":
            k = show(pl)[:120]
            if variant_name(f, cond, val, others) == "Some":
                lens[k] = lens.get(k, 0) + 1
            else:
                lens.setdefault(k, 0)
        else:
            root = pl
            while root.k in ("proj", "ref"):
                root = peel(root.a, calls=None)
            if root.k == "arg" and "Option" in (cond.b or ""):
                opts[show(pl)[:120]] = variant_name(f, cond, val, others)
    return tuple(sorted(opts.items())), tuple(sorted(lens.items()))


def writer_skeletons(f, shapes=None):
    out = set()
    se = SymExec(f, max_paths=3000, max_visits=3)
    for p in se.run():
        if p.diverged:
            continue
        s = ""
        ok = True
        for c, a, r in p.calls:
            d = c.target_def or ""
            if "fmt::Arguments" in (c.self_ty or "") or "fmt::Arguments" in d:
                t = template_of(c, a)
                if t is None:
                    ok = False
                else:
                    s += t
        if ok:
            out.add(s)
            failed = p.ret is not None and (any(c.name == "from_residual" for c in p.ret.calls()) or
                                            (p.ret.k == "agg" and p.ret.b == "Err"))
            if shapes is not None and not failed:
                shapes.setdefault(s, set()).add(shape_of(f, p))
    return out, se.truncated


KINDS = {"Inference": "inference_step", "Nogood": "nogood_step", "Deletion": "deletion_step",
         "Conclusion": "conclusion_step"}


def writer_fns(p):
    out = {}
    for imp in p.impls_of("WritableProofStep"):
        adt = (imp.get("self_adt") or "").rsplit("::", 1)[-1]
        f = p.impl_fn(imp, "write_string")
        if f is not None:
            out[adt] = f
    return out


def k2(led, rid, ctx):
    p = ctx.drcp
    wf = writer_fns(p)
    led.floor(rid, "step kinds with a text writer", len(wf), 4)
    n = 0
    for kind, rname in KINDS.items():
        w = wf.get(kind)
        if w is None:
            led.bad(rid, "writer:%s" % kind, None, "no write_string for step kind %s" % kind)
            continue
        rf = p.fn("reader::" + rname)
        g = grammar(p, parser_expr(rf))
        shapes = {}
        skels, trunc = writer_skeletons(w, shapes)
        clash = [(sk, sorted(v)) for sk, v in sorted(shapes.items()) if len({x[0] for x in v}) > 1]
        led.check(not clash, rid, "%s:writer-injective" % kind, w.span,
                  "steps that differ in which optional parts are present are written differently",
                  "%s::write_string writes %r both for %s and for %s: the two steps cannot be told apart by "
                  "any reader, so one of them does not read back as it was written"
                  % (kind, clash[0][0] if clash else "", dict(clash[0][1][0][0]) if clash else "",
                     dict(clash[0][1][1][0]) if clash else ""))
        led.check(bool(skels), rid, "%s:templates-recovered" % kind, w.span, "%d skeletons" % len(skels),
                  "could not recover the output templates of %s::write_string" % kind)
        bad = []
        for s in sorted(skels):
            n += 1
            t = s.strip()         # the reader trims the line
            ends = matches(g, t, 0)
            if len(t) not in ends:
                bad.append(t)
        led.check(not bad, rid, "%s:writer⊆reader" % kind, rf.span,
                  "%d skeleton(s) of the writer are accepted by the reader's grammar" % len(skels),
                  "the reader's grammar for %s rejects what the writer emits, e.g. %r (writer shapes not "
                  "accepted: %d of %d) — a file written by the library does not read back"
                  % (kind, bad[0] if bad else "", len(bad), len(skels)))
    led.count("K2:skeletons compared", n)


def k1(led, rid, ctx):
    p = ctx.drcp
    wf = writer_fns(p)
    rl = set()
    for rname in KINDS.values():
        rf = p.fn("reader::" + rname)
        rl |= lits_of(grammar(p, parser_expr(rf)))
    wl = set()
    for kind, w in wf.items():
        skels, _ = writer_skeletons(w)
        for s in skels:
            for tok in re.findall(r"[A-Za-z:]+", s):
                wl.add(tok)
    rtoks = set()
    for s in rl:
        for tok in re.findall(r"[A-Za-z:]+", s):
            rtoks.add(tok)
    led.check(wl <= rtoks, rid, "writer-tokens-known-to-reader", None, "writer tokens %s" % sorted(wl),
              "the writer emits tokens the reader does not know: %s" % sorted(wl - rtoks))
    led.check(rtoks <= wl, rid, "reader-tokens-emitted-by-writer", None, "reader tokens %s" % sorted(rtoks),
              "the reader expects tokens the writer never emits: %s" % sorted(rtoks - wl))
    led.floor(rid, "literal tokens", len(rtoks), 6)


def k3(led, rid, ctx):
    p = ctx.drcp
    f = None
    for g in p.fns.values():
        if g.name == "not" and (g.self_adt or "").endswith("IntAtomicConstraint"):
            f = g
    if f is None:
        raise AnchorMissing("impl Not for IntAtomicConstraint")
    # comparison → (comparison, value delta)
    want = {"GreaterThanEqual": ("LessThanEqual", -1), "LessThanEqual": ("GreaterThanEqual", 1),
            "Equal": ("NotEqual", 0), "NotEqual": ("Equal", 0)}
    got = {}
    for q in SymExec(f).run():
        if q.diverged or q.ret is None or q.ret.k != "agg":
            continue
        var = None
        for cond, val, others in q.conds:
            if cond.k == "discr" and (cond.b or "").endswith("Comparison"):
                var = variant_name(f, cond, val, others)
        names = q.ret.d or []
        vals = dict(zip(names, q.ret.c))
        cmp_e = peel(vals.get("comparison"), calls=None) if "comparison" in vals else None
        val_e = peel(vals.get("value"), calls=None) if "value" in vals else None
        name_e = vals.get("name")
        cmpv = cmp_e.b if cmp_e is not None and cmp_e.k == "agg" else None
        delta = None
        if val_e is not None:
            if val_e.k == "binop" and val_e.a in ("Add", "Sub") and val_e.c.k == "const":
                delta = val_e.c.a if val_e.a == "Add" else -val_e.c.a
            elif val_e.k == "proj":
                delta = 0
        same_name = name_e is not None and "name" in name_e.fields()
        if var:
            got[var] = (cmpv, delta, same_name)
    for v, (w, d) in want.items():
        g_ = got.get(v)
        led.check(g_ is not None and g_[0] == w and g_[1] == d and g_[2], rid, "not:%s" % v, f.span,
                  "¬[x %s v] = [x %s v%+d]" % (v, w, d),
                  "IntAtomicConstraint::not maps %s to %s (expected %s with value %+d on the same name)"
                  % (v, g_, w, d))
    # involution
    ok = all(want[want[v][0]][0] == v and want[v][1] + want[want[v][0]][1] == 0 for v in want)
    led.check(ok, rid, "involution", f.span, "negating twice is the identity (oracle table)", "oracle table inconsistent")
    # Display symbols = reader symbols
    disp = None
    for g in p.fns.values():
        if g.name == "fmt" and (g.self_adt or "").endswith("Comparison") and (g.impl_trait or "").endswith("fmt::Display"):
            disp = g
    if disp is not None:
        sym = {}
        for q in SymExec(disp).run():
            var = None
            for cond, val, others in q.conds:
                if cond.k == "discr":
                    var = variant_name(disp, cond, val, others)
            txt = ""
            for b in q.blocks:
                for st in disp.blocks[b]["stmts"]:
                    if st["s"] == "assign" and st["rv"]["r"] == "use" and "const" in st["rv"]["op"]:
                        sv = st["rv"]["op"]["const"].get("str")
                        if sv:
                            txt = sv
            if var:
                sym[var] = txt.strip()
        wantsym = {"GreaterThanEqual": ">=", "LessThanEqual": "<=", "Equal": "==", "NotEqual": "!="}
        for v, s_ in wantsym.items():
            led.check(sym.get(v) == s_, rid, "symbol:%s" % v, disp.span, "written as %r" % s_,
                      "comparison %s is written as %r (the reader expects %r)" % (v, sym.get(v), s_))


INT_RE = None


def k4(led, rid, ctx):
    """NUM-WIDTH: every integer type that occurs in a field of the format's step / atomic types, and
    every integer type the writer formats, has a reader parser of that very type"""
    import re, json
    p = ctx.drcp
    need = {}
    for path, a in p.adts.items():
        if not path.startswith(("atomic::", "steps::")):
            continue
        for v in a["variants"]:
            for fl in v["fields"]:
                for m in re.finditer(r"\b([iu](?:8|16|32|64|128))\b", fl["ty"]):
                    need.setdefault(m.group(1), "%s.%s" % (path, fl["name"]))
    # what the writer formats
    for f in p.fns.values():
        if "/writer/" not in f.file and "literal_definitions" not in f.file:
            continue
        for c in f.calls:
            if c.name in ("new_display", "new_debug") and c.generics:
                for g in c.generics:
                    for m in re.finditer(r"\b([iu](?:8|16|32|64|128))\b", g):
                        need.setdefault(m.group(1), "formatted by %s" % f.name)
    have = {}
    for f in p.fns.values():
        if "/tests" in f.file or "::tests::" in f.defn:
            continue
        js = json.dumps([b for b in f.blocks])
        for m in re.finditer(r"nom::character::complete::([iu](?:8|16|32|64|128))\b", js):
            have.setdefault(m.group(1), f.name)
    led.check(len(have) >= 3, rid, "reader-integer-parsers", None, "parsers: %s" % sorted(have),
              "fewer than three integer parsers found in the reader (%s)" % sorted(have))
    for t, where in sorted(need.items()):
        if t in ("u8",):
            continue
        led.check(t in have, rid, "width:%s" % t, None, "%s (%s) is parsed by %s" % (t, where, have.get(t)),
                  "the format holds / writes values of type %s (%s) but the reader has no %s parser (it has %s): "
                  "a value outside the narrower range is written by the library and rejected or cut off when "
                  "read back" % (t, where, t, sorted(have)))
    led.floor(rid, "integer types of the format", len(need), 3)


def _segments(call, args):
    """[str | ('ph', type, E)] of a fmt::Arguments construction"""
    t = template_of(call, args)
    if t is None:
        return None
    phs = []
    if len(args) > 1:
        arr = peel(args[1], calls=None)
        items = arr.a if arr.k == "array" else []
        for it in items:
            it = peel(it, calls=None)
            if it.k == "call" and it.a.name.startswith("new_"):
                phs.append(((it.a.generics or ["?"])[0], it.b[0] if it.b else None))
            else:
                phs.append(("?", None))
    out = []
    k = 0
    for part in re.split("(#)", t):
        if part == "#":
            out.append(("ph",) + (phs[k] if k < len(phs) else ("?", None)))
            k += 1
        elif part:
            out.append(part)
    return out


def display_skeletons(p, ty, depth=0):
    """text skeletons of `<ty as Display>::fmt` with nested crate types expanded"""
    short = ty.split("<")[0].rsplit("::", 1)[-1]
    if ty in ("bool",):
        return {"true", "false"}
    f = None
    for imp in p.impls_of("Display"):
        if (imp.get("self_adt") or "").rsplit("::", 1)[-1] == short:
            f = p.impl_fn(imp, "fmt")
    if f is None or depth > 4:
        return {"#"}
    out = set()
    for path in SymExec(f, max_paths=200).run():
        if path.diverged:
            continue
        cur = {""}
        ok = True
        for c, a, r in path.calls:
            d = c.target_def or ""
            if "fmt::Arguments" in (c.self_ty or "") or "fmt::Arguments" in d:
                segs = _segments(c, a)
                if segs is None:
                    ok = False
                    break
                for sg in segs:
                    if isinstance(sg, str):
                        cur = {x + sg for x in cur}
                    else:
                        _, pty, pe = sg
                        pty = (pty or "?").lstrip("&")
                        if pty == "str" and pe is not None:
                            strs = set()
                            for x in pe.walk():
                                if x.k == "const" and x.c is not None and x.b != "fn":
                                    strs.add(x.c)
                            sub = strs or {"#"}
                        elif pty == "bool":
                            sub = {"true", "false"}
                        elif any((imp.get("self_adt") or "").rsplit("::", 1)[-1] == pty.split("<")[0].rsplit("::", 1)[-1]
                                 for imp in p.impls_of("Display")):
                            sub = display_skeletons(p, pty, depth + 1)
                        else:
                            sub = {"#"}
                        cur = {x + y for x in cur for y in sub}
        if ok:
            out |= cur
    return out or {"#"}


def k5(led, rid, ctx):
    """the literal-definition file: every line the writer can emit (a code followed by 1–2 atomic
    constraints of every kind) is in the language of the reader's line grammar"""
    p = ctx.drcp
    w = p.method("LiteralDefinitions", "write")
    rf = p.fn("literal_definitions::atomic_definition")
    g = grammar(p, parser_expr(rf))
    atoms = display_skeletons(p, "atomic::AtomicConstraint")
    led.check(len(atoms) >= 5, rid, "atomic-skeletons", w.span, "%d atomic skeletons: %s" % (len(atoms), sorted(atoms)),
              "could not recover the Display skeletons of AtomicConstraint (%s)" % sorted(atoms))
    lines = set()
    for path in SymExec(w, max_paths=400, max_visits=3).run():
        if path.diverged:
            continue
        cur = {""}
        ok = True
        for c, a, r in path.calls:
            d = c.target_def or ""
            if "fmt::Arguments" in (c.self_ty or "") or "fmt::Arguments" in d:
                segs = _segments(c, a)
                if segs is None:
                    ok = False
                    break
                for sg in segs:
                    if isinstance(sg, str):
                        cur = {x + sg for x in cur}
                    else:
                        pty = (sg[1] or "?").lstrip("&")
                        if "AtomicConstraint" in pty:
                            cur = {x + y for x in cur for y in atoms}
                        else:
                            cur = {x + "#" for x in cur}
        failed = path.ret is not None and any(c.name == "from_residual" for c in path.ret.calls())
        if ok and not failed:
            lines |= cur
    n = 0
    bad = []
    for text in sorted(lines):
        for ln in text.split("\n"):
            ln = ln.strip()
            if not ln or "[" not in ln:
                continue      # a code without atomics cannot be stored: `add` is the only writer of the map
            n += 1
            if len(ln) not in matches(g, ln, 0):
                bad.append(ln)
    led.check(not bad and n > 0, rid, "lits:writer⊆reader", rf.span, "%d line shapes accepted" % n,
              "the reader of literal definitions rejects (or does not consume) a line the writer emits, e.g. %r "
              "(%d of %d shapes)" % (bad[0] if bad else "", len(bad), n))
    led.floor(rid, "literal-definition line shapes", n, 5)


def _char_pred_table(g, chars="aZ5_- ["):
    """{char: bool} of a `|c: char| -> bool` closure decided on representative characters, or None"""
    ci = None
    for a in g.args:
        if a["ty"] in ("char", "&char"):
            ci = a["local"]
    if ci is None:
        return None
    paths = [p for p in SymExec(g, max_paths=64).run() if not p.diverged]

    def ev(e, ch):
        e = peel(e, calls=None)
        if e.k == "arg" and e.a == ci:
            return ord(ch)
        if e.k == "const":
            if e.a is not None:
                return e.a
            return None
        if e.k == "unop" and e.a == "Not":
            v = ev(e.b, ch)
            return None if v is None else int(not v)
        if e.k == "binop":
            x, y = ev(e.b, ch), ev(e.c, ch)
            if x is None or y is None:
                return None
            return {"Eq": int(x == y), "Ne": int(x != y), "BitOr": int(bool(x) or bool(y)), "Le": int(x <= y),
                    "Ge": int(x >= y), "Lt": int(x < y), "Gt": int(x > y),
                    "BitAnd": int(bool(x) and bool(y))}.get(e.a)
        if e.k == "call" and e.b:
            x = ev(e.b[0], ch)
            if x is None:
                return None
            c = chr(x)
            t = {"is_ascii_alphabetic": c.isascii() and c.isalpha(), "is_ascii_alphanumeric": c.isascii() and c.isalnum(),
                 "is_ascii_digit": c.isascii() and c.isdigit(), "is_alphabetic": c.isalpha(), "is_alphanumeric": c.isalnum(),
                 "is_numeric": c.isnumeric(), "is_ascii_whitespace": c in " \t\n\r\x0c", "is_whitespace": c.isspace(),
                 "is_ascii_lowercase": c.isascii() and c.islower(), "is_ascii_uppercase": c.isascii() and c.isupper()}
            if e.a.name in t:
                return int(t[e.a.name])
        return None
    out = {}
    for ch in chars:
        res = set()
        for p in paths:
            feas = True
            for cond, val, others in p.conds:
                v = ev(cond, ch)
                if v is None:
                    return None
                if val is not None:
                    feas = feas and (v == val)
                else:
                    feas = feas and (v not in (others or []))
            if feas:
                r = ev(p.ret, ch) if p.ret is not None else None
                if r is None:
                    return None
                res.add(bool(r))
        if len(res) != 1:
            return None
        out[ch] = res.pop()
    return out


def _scanner_language(f):
    """(first-character table, continuation table) of a hand-written identifier scanner: the closure
    given to `starts_with` decides the first character, the closure given to a search / take over the
    input decides where the name ends.  None if the function is not of that shape"""
    import re
    first = cont = None
    by_line = {}
    for g in f.closures:
        m = re.search(r":(\d+)", str(g.span))
        if m:
            by_line.setdefault(int(m.group(1)), []).append(g)
    for c in f.calls:
        for a in c.args:
            pl = op_place(a)
            if pl is None:
                continue
            ty = f.locals[pl["local"]]["ty"]
            m = re.search(r"closure@[^:]+:(\d+):", ty)
            if not m:
                continue
            gs = by_line.get(int(m.group(1)), [])
            if len(gs) != 1:
                return None
            t = _char_pred_table(gs[0])
            if t is None:
                return None
            if c.name == "starts_with":
                first = t
            elif c.name in ("find", "position", "take_till", "split_at_position", "trim_start_matches_not"):
                cont = {k: not v for k, v in t.items()}       # the search stops at the first character it accepts
            elif c.name in ("take_while", "take_while1", "trim_start_matches", "all"):
                cont = t
    if first is None or cont is None:
        return None
    return first, cont


def k6(led, rid, ctx):
    """SIBLINGS: the two identifier parsers (proof reader, literal-definition reader) accept the same
    language, which is the language of names the writer passes through verbatim"""
    p = ctx.drcp
    a, b = p.fn("reader::identifier"), p.fn("literal_definitions::identifier")

    def core(f):
        e = parser_expr(f)
        while e is not None and e.k == "call" and e.a.name in ("map", "map_opt", "map_res", "cut", "complete") and e.b:
            e = peel(e.b[0], calls=None)
        return show(e) if e is not None else None
    ca, cb = core(a), core(b)
    # one of the two is the other's forwarder (a shared parser), or both are hand-written scanners:
    # decide the language on representative characters instead of comparing combinator trees
    la, lb = (_scanner_language(a) if ca is None else None), (_scanner_language(b) if cb is None else None)
    cbn = (cb or "").strip("'\"` ")
    fwd_b = bool(cbn) and b is not a and (cbn == a.defn or cbn.endswith("::" + a.defn) or a.defn.endswith("::" + cbn))
    if la is not None and (fwd_b or la == lb):
        want_first = {"a": True, "Z": True, "5": False, "_": True, "-": False, " ": False, "[": False}
        want_cont = {"a": True, "Z": True, "5": True, "_": True, "-": False, " ": False, "[": False}
        led.check(True, rid, "identifier-parsers-agree", a.span, "one shared scanner / equal character tables", "")
        led.check(la[0] == want_first and la[1] == want_cont, rid, "identifier-may-start-with-underscore", a.span,
                  "[A-Za-z_][A-Za-z0-9_]* on representative characters",
                  "the identifier scanner accepts first characters %s and continuation characters %s: identifiers "
                  "starting with `_` (introduced variables, internal labels) or another name the writer passes "
                  "through verbatim are not accepted by the reader"
                  % (sorted(k for k, v in la[0].items() if v), sorted(k for k, v in la[1].items() if v)))
        return
    led.check(ca is not None and ca == cb, rid, "identifier-parsers-agree", a.span, "same combinator tree",
              "the proof reader's identifier grammar (%s) differs from the literal-definition reader's (%s): a "
              "name that one file of a proof may contain is rejected in the other; the writer emits labels and "
              "variable names verbatim" % ((ca or "?")[:150], (cb or "?")[:150]))
    leading = ca is not None and "tag('_')" in ca.split("many0", 1)[0]
    led.check(leading, rid, "identifier-may-start-with-underscore", a.span, "alt(alpha1, '_') first",
              "identifiers starting with `_` (introduced variables, internal labels) are not accepted by the reader")


def k8(led, rid, ctx):
    """POLARITY TABLE of the literal → atomic map used when a proof is read with its literal
    definitions: on every path the sign of the literal decides whether the definition is negated
    (positive: as defined; negative: negated), and the definition looked up is that of the literal's
    own code.  A path whose result does not depend on the sign (a remembered result) gives `-c` the
    meaning of `c`."""
    p = ctx.drcp
    fs = [f for f in p.fns.values() if f.name == "to_atomic" and "LiteralDefinitions" in (f.self_ty or "")]
    if len(fs) != 1:
        raise AnchorMissing("impl LiteralAtomicMap for LiteralDefinitions")
    f = fs[0]
    for _ in range(3):                      # follow forwarders (to_atomic → a helper with the same argument)
        paths = [pa for pa in SymExec(f, max_paths=200).run() if not pa.diverged and pa.ret is not None]
        if len(paths) == 1 and not paths[0].conds:
            r = peel(paths[0].ret, calls=None)
            if r.k == "call":
                hs = [h for h in p.callees(r.a) if h is not f]
                if len(hs) == 1:
                    f = hs[0]
                    continue
        break
    lit = None
    for i, a in enumerate(f.args):
        if "NonZero<i32>" in a["ty"]:
            lit = i + 1
    if lit is None:
        raise AnchorMissing("the literal parameter of %s" % f.name)
    n = 0
    for pa in paths:
        n += 1
        sign = None
        for c, v, o in pa.conds:
            c_ = peel(c, calls=None)
            if c_.k == "call" and c_.a.name in ("is_positive", "is_negative") and c_.b and \
                    any(x.k == "arg" and x.a == lit for x in c_.b[0].walk()):
                truth = (v == 1) if v is not None else (0 in (o or []))
                sign = truth if c_.a.name == "is_positive" else (not truth)
        negated = sum(1 for x in pa.ret.walk() if x.k == "call" and x.a.name == "not") % 2 == 1
        own = any(x.k == "call" and x.a.name in ("unsigned_abs", "abs") and x.b and
                  any(y.k == "arg" and y.a == lit for y in x.b[0].walk()) for x in pa.ret.walk())
        bad = None
        if sign is None:
            bad = "returns %s on a path that never looks at the sign of the literal" % show(pa.ret)[:70]
        elif sign and negated:
            bad = "negates the definition for a positive literal"
        elif not sign and not negated:
            bad = "does not negate the definition for a negative literal"
        elif not own:
            bad = "returns %s, which is not looked up under the literal's own code" % show(pa.ret)[:70]
        led.check(bad is None, rid, "to_atomic:path%d:%s" % (n, "positive" if sign else "negative" if sign is not None else "?"),
                  f.span, "definition%s" % (" negated" if negated else ""),
                  "the literal → atomic map of LiteralDefinitions (%s) %s: a proof read with its literal "
                  "definitions attributes the wrong atomic constraint to that literal" % (f.name, bad))
    led.floor(rid, "paths of the literal → atomic map", n, 2)


def k9(led, rid, ctx):
    """MUST-PASS: every step-logging method of ProofWriter writes its step on every path (the write
    dominates every return) and, where the step has an id, takes a fresh one: the n-th call
    produces the n-th step of the file.  A step that is skipped (because it 'repeats' the previous
    one) changes the sequence the reader gets back and hands out an id that later steps may no
    longer be allowed to use."""
    from ..inline import view
    p = ctx.drcp
    n = 0
    for f0 in p.fns.values():
        if "writer/mod.rs" not in f0.file or f0.kind == "Closure" or "ProofWriter" not in (f0.self_ty or ""):
            continue
        if not (f0.name.startswith("log_") or f0.name in ("unsat", "optimal")) or f0.vis != "pub":
            continue
        # private helpers of the writer (a shared `conclude`, a trailer writer) are spliced in
        f = view(p, f0, want=lambda g: g.file == f0.file and g.kind != "Closure" and g.vis != "pub"
                 and "ProofWriter" in (g.self_ty or "") and g.name != "next_step_id")
        n += 1
        ws = [c for c in f.calls if c.name in ("write", "write_all", "write_fmt", "write_string")]
        ok = any(all(f.cfg.dominates(c.bb, r) for r in f.cfg.returns) for c in ws)
        led.check(ok, rid, "%s:writes-on-every-path" % f.name, f.span, "a write dominates every return",
                  "ProofWriter::%s can return without writing its step: the written file has fewer steps than "
                  "were logged, so it does not read back as the logged sequence" % f.name)
        if f.name in ("log_inference", "log_nogood_clause"):
            ids = f.calls_named("next_step_id")
            ok2 = any(all(f.cfg.dominates(c.bb, r) for r in f.cfg.returns) for c in ids)
            led.check(ok2, rid, "%s:fresh-id-on-every-path" % f.name, f.span, "next_step_id dominates every return",
                      "ProofWriter::%s can return an id it did not just allocate: two logged steps share one id"
                      % f.name)
    led.floor(rid, "step-logging methods of ProofWriter", n, 5)


def k7(led, rid, ctx):
    """ORDERED CHOICE: the reader of an atomic constraint is nom's `alt`, which takes the first
    alternative that succeeds.  Every concrete text the writer produces for one kind of atomic
    (Display of BoolAtomicConstraint / IntAtomicConstraint, instantiated with sample names and
    values) must be taken by the alternative that builds that kind."""
    p = ctx.drcp
    n = 0
    for fname in ("literal_definitions::atomic", "reader::atomic", "reader::atomic_constraint"):
        try:
            f = p.fn(fname)
        except Exception:
            continue
        e = parser_expr(f)
        while e is not None and e.k == "call" and e.a.name in ("cut", "complete", "context") and e.b:
            e = peel(e.b[-1], calls=None)
        if e is None or e.k != "call" or e.a.name != "alt":
            continue
        inner = peel(e.b[0], calls=None)
        branches = []
        for br in (inner.a if inner.k == "tuple" else [inner]):
            br = peel(br, calls=None)
            kind = None
            if br.k == "call" and br.a.name == "map" and len(br.b) == 2:
                ctor = peel(br.b[1], calls=None)
                nm = (ctor.c or "") if ctor.k == "const" else show(ctor)
                for v in ("Int", "Bool"):
                    if nm.endswith("::" + v) or ("AtomicConstraint::%s" % v) in nm:
                        kind = v
            branches.append((kind, grammar(p, br)))
        if not any(k for k, _ in branches):
            continue
        for kind, ty in (("Int", "atomic::IntAtomicConstraint"), ("Bool", "atomic::BoolAtomicConstraint")):
            for sk in sorted(display_skeletons(p, ty)):
                if sk.count("#") < 1:
                    continue
                bad = None
                tried = 0
                for name in ("x", "_b1", "v0"):
                    for val in ("0", "1", "-1", "12"):
                        text = sk.replace("#", name, 1).replace("#", val)
                        try:
                            for bk, bg in branches:
                                if peg(bg, text, 0) is not None:
                                    tried += 1
                                    if bk != kind and bad is None:
                                        bad = (text, bk)
                                    break
                        except Indefinite:
                            pass
                n += 1
                led.check(bad is None, rid, "%s:%s:%s" % (fname.split("::")[0], kind, sk), f.span,
                          "%d sample texts taken by the %s alternative" % (tried, kind),
                          "the text %r, which the writer produces for an %s atomic constraint, is taken by the "
                          "%s alternative of `%s` (alt is an ordered choice): the constraint is read back as a "
                          "different kind, so a proof that mentions it is about another literal"
                          % (bad[0] if bad else "", kind, bad[1] if bad else "", fname))
    led.floor(rid, "atomic skeletons per ordered choice", n, 5)


def run(ctx, led):
    run_rule(led, "K9", "MUST-PASS: every logging method of the writer writes its step and takes a fresh id on every path", k9, ctx)
    run_rule(led, "K8", "POLARITY TABLE: the literal → atomic map negates exactly for negative literals, on every path", k8, ctx)
    run_rule(led, "K7", "ORDERED CHOICE: each kind of atomic text is read by the alternative that builds that kind", k7, ctx)
    run_rule(led, "K1", "TOKENS: the literal tokens of writer and reader agree", k1, ctx)
    run_rule(led, "K2", "per step kind, every output skeleton of the writer (optional parts 0/1, lists "
             "0–2 elements) is in the language of the reader's grammar, after the trim the reader "
             "applies", k2, ctx)
    run_rule(led, "K3", "IntAtomicConstraint::not TABLE (involution) and comparison symbols", k3, ctx)
    run_rule(led, "K4", "NUM-WIDTH: every integer type of the format has a reader parser of the same type", k4, ctx)
    run_rule(led, "K5", "literal-definition lines: writer shapes (all atomic kinds and comparison symbols) ⊆ reader grammar", k5, ctx)
    run_rule(led, "K6", "SIBLINGS: the identifier grammars of the two readers agree and admit a leading underscore", k6, ctx)

"""C05 — assumption solving and extracted cores (structural clauses A1–A10)."""
from ..main import run_rule
from ..flow import (resolver, peel, root_local, guards_of, call_guarded, rel_fact, aggregates, forward,
                    operand_locals)
from ..facts import AnchorMissing, op_local
from . import shared, C10

LEVEL = ('decides the mechanisms the statement names: the core guard has a Drop that restores the root'
         ' state on every path and is constructed only in the infeasible-under-assumptions state; '
         'assumptions are overwritten per solve; restarts never cut below the assumption levels; every'
         ' assumption/decision is posted on a fresh decision level and assumptions are indexed by the '
         'decision level; core extraction resolves in all-decision mode; no explicit panic in the API '
         "layer; no reason reference is fabricated; the minimiser's failure marker is handled before "
         "trail lookups on its output are unwrapped; typestate: the guard's Drop returns the solver to"
         ' a usable root state. is_mutually_exclusive_with answers true only for two predicates on one'
         ' variable that no value satisfies together and negation is exact (A12/A13, decided on a '
         "small integer window); the no-learning resolver's flipped decision carries a reason that "
         'covers every earlier decision level, evaluated with symbolic levels (A14). The public API '
         'forwards assumptions unchanged to the engine (A17). Also runs the LIFE-CYCLE BUNDLE (…L<n>):'
         ' the typestate rules over arbitrary API sequences of C10 (usable root state after every '
         'call, inert posting in inconsistent states, entry guards, stored-solution extent). Also runs'
         ' the KERNEL BUNDLE (AK<n>): predicate algebra, implicit reasons, watchers, minimisers, '
         'conflict-analysis tables, constraint builders and explanation rules registered under other '
         'properties. Every core is the result of analysing the current conflict (A18 MUST-PASS). Does'
         ' not decide that a core is logically a core')
TECHNIQUE = "static analysis: dominance / who-may-call / taint / typestate over rustc MIR"

GUARD = "UnsatisfiableUnderAssumptions"


def a1(led, rid, ctx):
    lib = ctx.lib
    f = lib.method(GUARD, "drop", "Drop", required=False)
    if f is None:
        led.bad(rid, "drop-impl", None, "UnsatisfiableUnderAssumptions has no Drop impl: after an "
                "unsatisfiable-under-assumptions result the assumptions stay on the trail and the "
                "solver remains in the InfeasibleUnderAssumptions state")
        return
    cs = f.calls_named("restore_state_at_root")
    ok = bool(cs) and any(all(f.cfg.dominates(c.bb, r) for r in f.cfg.returns) for c in cs)
    led.check(ok, rid, "drop-restores", f.span, "Drop::drop passes restore_state_at_root on every path",
              "Drop for the core guard does not restore the root state on every path")
    if cs:
        recv = peel(resolver(f).operand(cs[0].args[0]), calls=None)
        led.check("solver" in recv.fields(), rid, "drop-restores-own-solver", cs[0].span, "",
                  "restore_state_at_root is not called on the guard's own solver")


def a2(led, rid, ctx):
    lib = ctx.lib
    n = 0
    new = lib.method(GUARD, "new")
    for f in lib.fns.values():
        for bb, i, s in aggregates(f, GUARD):
            n += 1
            root = f.parent or f.defn
            led.check(root == new.defn, rid, "constructed-in-new", "%s:%d" % (f.file, s["line"]),
                      "", "the core guard is constructed outside UnsatisfiableUnderAssumptions::new (%s)" % root)
    callers = [c for c in lib.callers.get(new.defn, [])]
    led.check(len(callers) >= 1, rid, "new-called", new.span, "", "the core guard is never handed out")
    for c in callers:
        g = c.fn
        ok = call_guarded(g, c.bb, "is_infeasible_under_assumptions", True) is not None
        root = g.parent or g.defn
        led.check(ok and root.endswith("Solver::satisfy_under_assumptions"), rid,
                  "guard-only-when-infeasible-under-assumptions", c.span,
                  "constructed on the true edge of is_infeasible_under_assumptions()",
                  "the core guard is created in %s without the state being "
                  "InfeasibleUnderAssumptions" % root)
    led.floor(rid, "guard constructions", n, 1)


def a4(led, rid, ctx):
    lib = ctx.lib
    f = __import__("lint.props.shared", fromlist=["x"]).solve_internal(lib)
    cs = f.calls_named("restart_during_search")
    led.check(len(cs) >= 1, rid, "restart-site", f.span, "", "no restart site in solve_internal")
    for c in cs:
        ok = False
        for g in guards_of(f, c.bb):
            rf = rel_fact(g)
            if rf is None:
                continue
            op, l, r = rf
            lp, rp = peel(l, calls=None), peel(r, calls=None)
            if op == "Gt" and lp.k == "call" and lp.a.name == "get_decision_level" and \
                    rp.k == "call" and rp.a.name == "len" and "assumptions" in rp.fields():
                ok = True
            if op == "Lt" and rp.k == "call" and rp.a.name == "get_decision_level" and \
                    lp.k == "call" and lp.a.name == "len" and "assumptions" in lp.fields():
                ok = True
        led.check(ok, rid, "restart-above-assumption-levels", c.span,
                  "restart dominated by decision_level > assumptions.len()",
                  "a restart can be triggered while assumptions are still being assigned "
                  "(guard is not decision_level > assumptions.len())")
    # the restart itself backtracks to the root only and re-checks the same bound
    g = lib.method("ConstraintSatisfactionSolver", "restart_during_search")
    bts = g.calls_named("backtrack")
    for b in bts:
        lvl = None
        for a, ty in zip(b.args, b.term.get("arg_tys", [])):
            if ty == "usize":
                lvl = a
        from ..facts import op_const_int
        led.check(lvl is not None and op_const_int(lvl) == 0, rid, "restart-backtracks-to-root", b.span,
                  "backtrack(.., 0, ..)", "a restart backtracks to a level other than the root")


def a5(led, rid, ctx):
    lib = ctx.lib
    f = lib.method("ConstraintSatisfactionSolver", "make_next_decision")
    posts = [c for c in f.calls if c.name == "post_predicate"]
    led.floor(rid, "posts in make_next_decision", len(posts), 2)
    for c in posts:
        ok = any(f.cfg.dominates(d.bb, c.bb) for d in f.calls_named("declare_new_decision_level"))
        led.check(ok, rid, "post-on-fresh-level", c.span, "declare_new_decision_level dominates the post",
                  "a decision/assumption is posted without opening a new decision level first")
    # the assumption that is posted is assumptions[decision level]: judged on the view of make_next_decision in
    # which the private peek helper (if there is one) is spliced in
    from ..inline import view
    g = view(lib, f, want=lambda h: h.file == f.file and h.kind != "Closure" and h.vis != "pub" and len(h.blocks) <= 12
             and h.name.startswith(("peek", "next_assumption", "get_next_assumption")))
    Rg = resolver(g)
    gets = [c for c in g.calls if c.name in ("get", "index")]
    ok = False
    for c in gets:
        recv = peel(Rg.operand(c.args[0]), calls=None)
        idx = peel(Rg.operand(c.args[1]), calls=None)
        if "assumptions" in recv.fields() and idx.k == "call" and idx.a.name == "get_decision_level":
            ok = True
    led.check(ok, rid, "assumption-indexed-by-level", g.span, "assumptions.get(decision_level)",
              "the next assumption is not assumptions[decision level]")
    led.check(ok, rid, "peek", f.span, "", "make_next_decision no longer peeks the next assumption")


def a6(led, rid, ctx):
    lib = ctx.lib
    f = lib.method("ConstraintSatisfactionSolver", "extract_clausal_core")
    found = []
    for g in f.with_closures():
        R = resolver(g)
        for c in g.calls:
            if c.name == "with_mode" and "ResolutionResolver" in (c.self_ty or ""):
                e = peel(R.operand(c.args[0]), calls=None)
                found.append((c, e.b if e.k == "agg" else None))
    led.check(len(found) == 1 and found[0][1] == "AllDecision", rid, "all-decision-mode",
              found[0][0].span if found else f.span, "ResolutionResolver::with_mode(AllDecision)",
              "core extraction resolves with mode %s: the result would not be in terms of the "
              "assumptions" % [m for _, m in found])


def a8(led, rid, ctx):
    """no explicit panic!/unreachable!/todo!/unimplemented! in the API layer"""
    lib = ctx.lib
    n = 0
    for f in lib.fns.values():
        if "/src/api/" not in f.file and "/src/constraints/constraint_poster" not in f.file:
            continue
        n += 1
        for c in f.calls:
            if c.is_explicit_panic():
                root = f.parent or f.defn
                led.bad(rid, "%s:%s" % (root, c.panic_kind()), c.span,
                        "explicit %s! in the API layer: a valid call sequence can panic here" % c.panic_kind())
    led.floor(rid, "API-layer functions", n, 40)
    led.ok(rid, "scan", None, "%d API-layer functions scanned" % n)


def a10(led, rid, ctx):
    lib = ctx.lib
    f = lib.method("ResolutionResolver", "extract_final_nogood")
    mins = f.calls_named("minimise")
    led.check(len(mins) >= 1, rid, "minimise-called", f.span, "", "extract_final_nogood no longer minimises")
    if not mins:
        return
    unwrapping, testing = [], []
    for g in f.closures:
        names = [c.name for c in g.calls]
        if "get_trail_position" in names or "get_decision_level_for_predicate" in names:
            if "unwrap" in names or "expect" in names:
                unwrapping.append(g)
            if "is_none" in names or "is_some" in names:
                testing.append(g)
    # direct (non-closure) unwraps of lookups in the function body
    direct = []
    R = resolver(f)
    for c in f.calls:
        if c.name in ("unwrap", "expect") and c.args:
            e = peel(R.operand(c.args[0]), calls=None)
            if e.k == "call" and e.a.name in ("get_trail_position", "get_decision_level_for_predicate"):
                direct.append(c)
    users = []   # calls in f that receive an unwrapping closure
    for c in f.calls:
        for a in c.args:
            e = R.operand(a)
            if e.k == "closure" and any(g.defn == e.a for g in unwrapping):
                users.append(c)
    testers = []
    for c in f.calls:
        for a in c.args:
            e = R.operand(a)
            if e.k == "closure" and any(g.defn == e.a for g in testing):
                testers.append(c)
    led.count("A10:unwrapping lookups", len(users) + len(direct))
    if not users and not direct:
        led.ok(rid, "no-unwrapped-lookup", f.span, "no trail lookup on the minimised nogood is unwrapped")
        return
    # the test must dominate every unwrapping use and decide a branch
    sw = set()
    for t in testers:
        if t.dst is not None:
            tainted = forward(f, [t.dst["local"]], effects=False)
            for b in f.blocks:
                if b["term"]["t"] == "switch" and op_local(b["term"]["discr"]) in tainted:
                    sw.add(t)
    for u in users + direct:
        ok = any(f.cfg.dominates(t.bb, u.bb) and any(f.cfg.dominates(m.bb, t.bb) for m in mins)
                 for t in sw)
        led.check(ok, rid, "lookup-guarded:%s" % u.name, u.span,
                  "a presence test of the lookup on the minimised nogood dominates the unwrap",
                  "the trail position of a predicate returned by the semantic minimiser is unwrapped "
                  "without a test that the predicate is on the trail: the minimiser returns merged / "
                  "marker predicates that need not hold (core extraction with an assumption that is "
                  "false at the root panics here)")


def a_typestate(led, rid, ctx):
    """the guard's life: created in InfeasibleUnderAssumptions, Drop leaves a usable root state"""
    it, apis, B, trans, guards = C10.explore(ctx.lib)
    n = 0
    for label, b, st2, rt in trans:
        if label.startswith("drop(" + GUARD):
            n += 1
            ok = st2[0] in C10.GOOD_BOUNDARY and st2[1] == 0
            led.check(ok, rid, "drop:%s->%s" % (C10.short(b), C10.short(st2)), None,
                      "dropping the guard leaves %s" % C10.short(st2),
                      "dropping the core guard in state %s leaves the solver in %s"
                      % (C10.short(b), C10.short(st2)))
    led.floor(rid, "guard drops explored", n, 1)
    for g in guards:
        led.check(g[0] == "InfeasibleUnderAssumptions", rid, "guard-state:%s" % C10.short(g), None, "",
                  "the core guard is handed out in state %s" % C10.short(g))
    # assumptions do not survive: satisfy_under_assumptions never leaves level > 0 except via guard
    for label, b, st2, rt in trans:
        if label == "Solver::satisfy_under_assumptions":
            is_guard = rt is not None and rt[0] == "enum" and rt[2] == GUARD
            if not is_guard:
                led.check(st2[1] == 0, rid, "assumptions-retracted:%s" % (rt[2] if rt else "?"), None, "",
                          "satisfy_under_assumptions returns %s with assumption levels still on the "
                          "trail" % (rt[2] if rt else "?"))


def a17(led, rid, ctx):
    """the API hands the caller's assumptions to the engine as they are: nothing is selected, dropped
    or reordered on the way"""
    from ..flow import show
    lib = ctx.lib
    SEL = ("filter", "filter_map", "skip", "take", "retain", "dedup", "truncate", "skip_while", "take_while",
           "step_by", "sort", "sort_by_key", "sort_unstable", "rev", "pop", "remove", "swap_remove", "drain")
    n = 0
    for f in lib.fns.values():
        if not (f.self_adt or "").endswith("api::solver::Solver") or "/tests" in f.file:
            continue
        R = None
        for c in f.calls_named("solve_under_assumptions"):
            R = R or resolver(f)
            n += 1
            e = R.operand(c.args[1]) if len(c.args) > 1 else None
            sel = [x.a.name for x in e.walk() if x.k == "call" and x.a.name in SEL] if e is not None else ["?"]
            root = peel(e, calls=None) if e is not None else None
            direct = root is not None and root.k in ("arg",) or (root is not None and root.k == "proj" and peel(root.a, calls=None).k == "arg")
            led.check(not sel and direct, rid, "%s:assumptions-forwarded-unchanged" % f.name, c.span,
                      "the parameter itself is passed on",
                      "Solver::%s passes %s to the engine instead of the caller's assumption list: an assumption "
                      "that is dropped on the way is silently not enforced (a solution violating it is returned, "
                      "or a core misses it)" % (f.name, show(e)[:100] if e is not None else "?"))
    led.floor(rid, "API calls of solve_under_assumptions", n, 1)


def a18(led, rid, ctx):
    """MUST-PASS: every CoreExtractionResult::Core that extract_clausal_core builds is dominated by
    the all-decision analysis of the current conflict (resolve_conflict) in the same body: a core
    comes from the state of *this* unsatisfiable solve, never from something remembered"""
    lib = ctx.lib
    f = lib.method("ConstraintSatisfactionSolver", "extract_clausal_core")
    n = 0
    for g in f.with_closures():
        res = g.calls_named("resolve_conflict")
        for bb, i, st in aggregates(g, "CoreExtractionResult", "Core"):
            n += 1
            ok = any(g.cfg.dominates(c.bb, bb) for c in res)
            if not ok and call_guarded(g, bb, "is_infeasible", True) is not None:
                e = resolver(g).rvalue(st["rv"])
                ok = any(x.k == "call" and x.a.name == "new" for x in e.walk()) and not any(
                    x.k == "proj" for x in e.walk())      # the empty core of a model that is infeasible by itself
            led.check(ok, rid, "core-from-analysis@%d" % n, "%s:%d" % (g.file, st["line"]),
                      "dominated by resolve_conflict",
                      "extract_clausal_core builds a Core that is not the result of analysing the current conflict "
                      "(no resolve_conflict dominates it): a remembered core belongs to the assumptions of an "
                      "earlier solve and can name assumptions that were not given this time")
    led.floor(rid, "Core constructions in extract_clausal_core", n, 1)


def run(ctx, led):
    run_rule(led, "A1", "the core guard implements Drop and restores the root state on every path", a1, ctx)
    run_rule(led, "A2", "the core guard is constructed only by its constructor, only from "
             "satisfy_under_assumptions, only on the true edge of is_infeasible_under_assumptions()", a2, ctx)
    run_rule(led, "A3", "assumptions are overwritten by every solve (no assumption is retained)",
             shared.assumptions_overwritten, ctx)
    run_rule(led, "A4", "a restart happens only above the assumption levels and backtracks to the root", a4, ctx)
    run_rule(led, "A5", "each assumption/decision is posted on a fresh decision level; the next "
             "assumption is assumptions[decision level]", a5, ctx)
    run_rule(led, "A6", "core extraction resolves in all-decision mode", a6, ctx)
    run_rule(led, "A8", "no explicit panic!/unreachable!/todo!/unimplemented! in the API layer "
             "(WHO-MAY ∅)", a8, ctx)
    run_rule(led, "A9", "no reason reference is fabricated (shared with C02-U2)", shared.no_fabricated_reason, ctx)
    run_rule(led, "A10", "the semantic minimiser's output is tested for presence on the trail before "
             "trail lookups on it are unwrapped (instance-specific regression guard)", a10, ctx)
    run_rule(led, "A11", "typestate: the guard is handed out only in InfeasibleUnderAssumptions, its "
             "Drop returns the solver to a usable root state, no other result keeps assumption "
             "levels", a_typestate, ctx)
    from . import predrules
    run_rule(led, "A12", "is_mutually_exclusive_with answers true only for two predicates on one variable that no value satisfies together (TABLE)", predrules.mutex_sound, ctx)
    run_rule(led, "A13", "Predicate negation is the exact complement (shared with C02-U9)", predrules.negation_exact, ctx)
    from . import C07 as _C07
    run_rule(led, "A14", "no-learning resolver: the flipped decision carries a reason covering every earlier decision level (shared with C07-J7)", _C07.j7, ctx)
    from . import minimiser
    run_rule(led, "A15", "semantic minimiser: every folding step maps the values a record stands for to exactly those satisfying the folded predicate (decided on all records of a 5-value window)", minimiser.steps_exact, ctx)
    run_rule(led, "A16", "semantic minimiser: the emitted predicates describe the record exactly relative to the root domain; holes leave the bounds before redundant holes are dropped", minimiser.emission_exact, ctx)
    run_rule(led, "A18", "MUST-PASS: every core is the result of analysing the current conflict", a18, ctx)
    run_rule(led, "A17", "the API forwards the caller's assumptions unchanged", a17, ctx)
    from . import kernel as _kernel2
    _kernel2.run_lifecycle(led, ctx, "A")
    _kernel2.run_bundle(led, ctx, "A")

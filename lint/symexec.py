"""TABLE engine: path-wise symbolic evaluation of small loop-free functions.

Enumerates the executions of a function's MIR, keeping a flow-sensitive symbolic environment
(flow.E trees over the function's arguments).  At each SwitchInt a `decide` callback may choose
the edge from the symbolic condition (abstract case analysis); otherwise the execution forks and
the branch fact is recorded in the path condition.  The result is the finite map
   path condition  →  (returned value expression, effects = calls made on the path)
which rules compare against oracle tables.  Nothing is executed concretely.
"""
from .flow import E, show
from .facts import op_place, Call


class Path:
    __slots__ = ("conds", "ret", "calls", "env", "blocks", "diverged", "stores")

    def __init__(self, conds, ret, calls, env, blocks, diverged, stores):
        self.conds = conds        # [(cond E, value | None(otherwise), others)]
        self.ret = ret            # E | None
        self.calls = calls        # [(Call, [arg E], result E)]
        self.env = env
        self.blocks = blocks
        self.diverged = diverged  # ended in a diverging call / unreachable
        self.stores = stores      # [(place dict, E)] writes through references / to fields

    def called(self, name, owner=None):
        return [(c, a, r) for (c, a, r) in self.calls if c.is_method(name, owner)]

    def variant_of(self, adt_suffix=None, field=None, root_arg=None):
        """variant names established on this path for a matched place"""
        out = []
        for cond, val, others in self.conds:
            if cond.k != "discr":
                continue
            if adt_suffix and not (cond.b or "").endswith(adt_suffix):
                continue
            out.append((cond, val, others))
        return out


class SymExec:
    def __init__(self, fn, decide=None, max_paths=400, max_visits=1, inline=None):
        self.fn = fn
        self.decide = decide
        self.max_paths = max_paths
        self.max_visits = max_visits
        self.inline = inline      # callback(call, arg Es) -> E | None   (summaries of helpers)
        self.paths = []
        self.truncated = False
        self._calls_by_bb = {c.bb: c for c in fn.calls}

    # --- reading ---------------------------------------------------------------------------
    def read_place(self, env, pl):
        base = env.get(pl["local"])
        if base is None:
            base = E("arg", pl["local"]) if any(a["local"] == pl["local"] for a in self.fn.args) \
                else E("local", pl["local"])
        proj = list(pl["proj"])
        while proj:
            e = proj[0]
            if "deref" in e and base.k == "ref":
                base = base.a
                proj = proj[1:]
                continue
            if "field" in e and base.k == "binop" and base.a.endswith("WithOverflow"):
                base = E("binop", base.a[:-12], base.b, base.c, base.d) if e["field"] == 0 \
                    else E("other", "overflow-flag")
                proj = proj[1:]
                continue
            if "field" in e and base.k in ("tuple", "array") and e["field"] < len(base.a):
                base = base.a[e["field"]]
                proj = proj[1:]
                continue
            if "field" in e and base.k == "agg" and e["field"] < len(base.c):
                base = base.c[e["field"]]
                proj = proj[1:]
                continue
            if "downcast" in e and base.k == "agg" and base.b == e["downcast"]:
                proj = proj[1:]
                continue
            break
        if not proj:
            return base
        if base.k == "proj":
            return E("proj", base.a, list(base.b) + proj)
        return E("proj", base, proj)

    def read_op(self, env, o):
        if "const" in o:
            c = o["const"]
            if c.get("ty") == "fn":
                return E("const", None, "fn", c.get("def"), c)
            if c.get("closure"):
                return E("closure", c["closure"], [])
            if c.get("enum_ref"):
                er = c["enum_ref"]
                return E("ref", E("agg", er["adt"], er["variant"], [], []), False)
            return E("const", c.get("int"), c.get("ty"), c.get("str") if c.get("float") is None else c.get("float"), c)
        return self.read_place(env, op_place(o))

    def rvalue(self, env, rv):
        r = rv["r"]
        if r == "use":
            return self.read_op(env, rv["op"])
        if r in ("ref", "rawptr"):
            return E("ref", self.read_place(env, rv["place"]), rv.get("mut"))
        if r == "binop":
            return E("binop", rv["op"], self.read_op(env, rv["a"]), self.read_op(env, rv["b"]), rv.get("ty"))
        if r == "unop":
            return E("unop", rv["op"], self.read_op(env, rv["v"]), rv.get("ty"))
        if r == "cast":
            return E("cast", rv["kind"], self.read_op(env, rv["v"]), rv["from"], rv["to"])
        if r == "discr":
            v = self.read_place(env, rv["place"])
            return E("discr", v, rv.get("adt"))
        if r == "aggregate":
            return E("agg", rv["adt"], rv["variant"], [self.read_op(env, f) for f in rv["fields"]],
                     rv.get("field_names"))
        if r in ("tuple", "array"):
            return E(r, [self.read_op(env, f) for f in rv["fields"]])
        if r == "closure":
            return E("closure", rv["def"], [self.read_op(env, f) for f in rv["captures"]])
        if r == "repeat":
            return E("array", [self.read_op(env, rv["op"])])
        return E("other", r)

    # --- running ---------------------------------------------------------------------------
    def run(self):
        fn = self.fn
        stack = [(0, {}, [], [], [], {}, [])]
        while stack:
            bb, env, conds, calls, blocks, visits, stores = stack.pop()
            if len(self.paths) >= self.max_paths:
                self.truncated = True
                break
            while True:
                v = visits.get(bb, 0)
                if v >= self.max_visits:
                    self.truncated = True
                    break
                visits = dict(visits)
                visits[bb] = v + 1
                blocks = blocks + [bb]
                blk = fn.blocks[bb]
                env = dict(env)
                for s in blk["stmts"]:
                    if s["s"] == "assign":
                        val = self.rvalue(env, s["rv"])
                        dst = s["dst"]
                        if not dst["proj"]:
                            env[dst["local"]] = val
                        else:
                            stores = stores + [(dst, val)]
                            # in-place update of a local aggregate field is not modelled further
                    elif s["s"] == "setdiscr":
                        stores = stores + [(s["place"], E("other", "variant:" + str(s.get("variant"))))]
                t = blk["term"]
                k = t["t"]
                if k == "goto":
                    bb = t["target"]
                    continue
                if k in ("assert", "drop"):
                    bb = t["target"]
                    continue
                if k == "return":
                    self.paths.append(Path(conds, env.get(0), calls, env, blocks, False, stores))
                    break
                if k in ("unreachable", "resume", "terminate", "tailcall"):
                    self.paths.append(Path(conds, None, calls, env, blocks, True, stores))
                    break
                if k == "call":
                    c = self._calls_by_bb[bb]
                    args = [self.read_op(env, a) for a in c.args]
                    res = None
                    if self.inline is not None:
                        res = self.inline(c, args)
                    if res is None:
                        res = E("call", c, args)
                    calls = calls + [(c, args, res)]
                    if c.dst is not None and not c.dst["proj"]:
                        env[c.dst["local"]] = res
                    elif c.dst is not None:
                        stores = stores + [(c.dst, res)]
                    if c.target is None:
                        self.paths.append(Path(conds, None, calls, env, blocks, True, stores))
                        break
                    bb = c.target
                    continue
                if k == "switch":
                    cond = self.read_op(env, t["discr"])
                    choice = None
                    if cond.k == "const" and cond.a is not None:
                        choice = cond.a
                    elif self.decide is not None:
                        choice = self.decide(cond, t)
                    if choice is None:
                        choice = _known_variant_test(cond)
                    targets = t["targets"]
                    vals = [v_ for v_, _ in targets]
                    if choice is None and cond.k == "discr":
                        # the discriminant of an aggregate built on this path (e.g. the `Some(..)` a
                        # spliced-in helper returned) is known: only one edge is feasible
                        v = cond.a
                        while v.k in ("ref", "cast"):
                            v = v.a if v.k == "ref" else v.b
                        if v.k == "agg" and isinstance(v.b, str) and (cond.b or v.a):
                            adt = cond.b or v.a
                            named = {v_: fn.prog.variant_by_discr(adt, v_) for v_ in vals}
                            if all(n is not None for n in named.values()):
                                hit = [v_ for v_, n in named.items() if n == v.b]
                                if hit:
                                    choice = hit[0]
                                else:
                                    a_ = fn.prog.find_adt(adt)
                                    sv = fn.prog.STD_VARIANTS.get(adt)
                                    allv = ([x["name"] for x in a_["variants"]] if a_ is not None else
                                            list(sv.values()) if isinstance(sv, dict) else list(sv or []))
                                    if v.b in allv:       # a variant the `otherwise` edge stands for
                                        choice = "otherwise"
                    excluded = ()
                    if choice is None and cond.k == "discr":
                        # a second test of the variant of the same call result (`matches!(r, ..)` followed
                        # by `match r`): the earlier edge taken on this path decides or narrows this one
                        base = cond.a
                        while base.k in ("ref", "cast"):
                            base = base.a if base.k == "ref" else base.b
                        if base.k == "call" and visits.get(base.a.bb, 0) <= 1:
                            ex = set()
                            for c0, v0, o0 in conds:
                                if c0.k != "discr":
                                    continue
                                b0 = c0.a
                                while b0.k in ("ref", "cast"):
                                    b0 = b0.a if b0.k == "ref" else b0.b
                                if b0.k != "call" or b0.a is not base.a:
                                    continue
                                if v0 is not None:
                                    choice = v0 if v0 in vals else "otherwise"
                                elif o0:
                                    ex.update(o0)
                            if choice is None:
                                excluded = tuple(ex)
                    if choice is not None:
                        tgt = None
                        for v_, b2 in targets:
                            if v_ == choice:
                                tgt = b2
                        if tgt is None:
                            tgt = t["otherwise"]
                        bb = tgt
                        continue
                    # fork
                    succs = [(v_, b2, None) for v_, b2 in targets if v_ not in excluded] + [(None, t["otherwise"], vals)]
                    for v_, b2, others in succs[1:]:
                        stack.append((b2, env, conds + [(cond, v_, others)], calls, blocks, visits, stores))
                    v_, b2, others = succs[0]
                    conds = conds + [(cond, v_, others)]
                    bb = b2
                    continue
                raise RuntimeError("unknown terminator " + k)
        return self.paths


def _known_variant_test(cond):
    """value of `is_err / is_ok / is_some / is_none` applied to a value whose variant is known on this
    path (an aggregate built here, or the residual of a `?` that took the Break edge)"""
    c = cond
    neg = False
    while c.k == "unop" and c.a == "Not":
        c = c.b
        neg = not neg
    if c.k != "call" or c.a.name not in ("is_err", "is_ok", "is_some", "is_none") or not c.b:
        return None
    v = c.b[0]
    while v.k in ("ref", "cast"):
        v = v.a if v.k == "ref" else v.b
    variant = None
    if v.k == "agg" and v.b in ("Ok", "Err", "Some", "None"):
        variant = v.b
    elif v.k == "call" and v.a.name == "from_residual":
        variant = "Err" if c.a.name in ("is_err", "is_ok") else "None"
    if variant is None:
        return None
    truth = {"is_err": variant == "Err", "is_ok": variant == "Ok", "is_some": variant == "Some",
             "is_none": variant == "None"}[c.a.name]
    return int(truth != neg)


def variant_name(fn, cond, value, others=None):
    """name of the enum variant a discriminant switch edge stands for (None if not decidable)"""
    if cond.k != "discr":
        return None
    adt = cond.b
    if value is not None:
        return fn.prog.variant_by_discr(adt, value) if adt else None
    a = fn.prog.find_adt(adt) if adt else None
    if a is None:
        sv = fn.prog.STD_VARIANTS.get(adt)
        if isinstance(sv, list):
            rest = [n for i, n in enumerate(sv) if i not in (others or [])]
            return rest[0] if len(rest) == 1 else None
        return None
    names = {fn.prog.variant_by_discr(adt, v) for v in (others or [])}
    rest = [v["name"] for v in a["variants"] if v["name"] not in names]
    return rest[0] if len(rest) == 1 else None


def path_variants(fn, path, adt_suffix=None):
    """{shown place: variant} for the discriminant facts of a path"""
    out = {}
    for cond, val, others in path.conds:
        if cond.k == "discr" and (adt_suffix is None or (cond.b or "").endswith(adt_suffix)):
            out[show(cond.a)] = variant_name(fn, cond, val, others)
    return out

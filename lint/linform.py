"""Linear-form abstract evaluation of the constraint builders (constraints/arithmetic).

The builders are straight-line compositions of `scaled`, `offset`, negation of the right-hand side
and constructors of three leaf propagators.  Their symbolic summaries (TABLE engine, callees
inlined) are evaluated in the abstract domain

    lin  = Σ coef·var + const          int = concrete integer          list = [value]
    atom = LE(terms, c) | EQ(terms, c) | NE(terms, c) | MAX(array, rhs)

and the resulting conjunction of atoms is compared with the meaning of the builder for every
assignment of a 5-value window to the variables and every right-hand side in the window.
Nothing of the solver is executed; an expression outside the domain makes the rule fail closed.
"""
from .flow import show, peel, E
from .symexec import SymExec


class Undecided(Exception):
    pass


IDENT = ("clone", "into", "into_iter", "iter", "collect", "to_vec", "to_owned", "as_ref", "deref", "from",
         "into_boxed_slice", "borrow", "as_slice", "cloned", "copied", "into_vec", "from_iter", "unwrap")
ADT_KIND = {"Inequality": "LE", "EqualConstraint": "EQ", "NotEqualConstraint": "NE"}
PROP_KIND = {"LinearLessOrEqualPropagator": "LE", "LinearNotEqualPropagator": "NE", "MaximumPropagator": "MAX"}


def lin(var=None, coef=1, const=0):
    return ("lin", ({var: coef} if var else {}), const)


def scale(v, k):
    if v[0] != "lin":
        raise Undecided("scaled on %s" % (v[0],))
    return ("lin", {x: c * k for x, c in v[1].items()}, v[2] * k)


def offset(v, k):
    if v[0] != "lin":
        raise Undecided("offset on %s" % (v[0],))
    return ("lin", dict(v[1]), v[2] + k)


class Evaluator:
    def __init__(self, prog):
        self.prog = prog
        self._paths = {}

    def single_path(self, f):
        if f.defn not in self._paths:
            ps = [p for p in SymExec(f, max_paths=64).run() if not p.diverged]
            ok = [p for p in ps if p.ret is not None and not any(c.name == "from_residual" for c in p.ret.calls())]
            self._paths[f.defn] = ok
        ps = self._paths[f.defn]
        if len(ps) != 1:
            raise Undecided("%s has %d success paths" % (f.defn.rsplit("::", 2)[-1], len(ps)))
        return ps[0]

    def callee(self, call):
        tgt = call.resolved or call.defn
        g = self.prog.fns.get(tgt) if tgt else None
        if g is None:
            cs = self.prog.callees(call)
            g = cs[0] if len(cs) == 1 else None
        return g

    def ev(self, e, env):
        k = e.k
        if k == "const":
            if e.a is None:
                raise Undecided("constant " + show(e))
            return ("int", e.a)
        if k == "arg":
            if e.a not in env:
                raise Undecided("argument %d" % e.a)
            return env[e.a]
        if k in ("ref",):
            return self.ev(e.a, env)
        if k == "cast":
            return self.ev(e.b, env)
        if k == "unop":
            v = self.ev(e.b, env)
            if e.a == "Neg" and v[0] == "int":
                return ("int", -v[1])
            raise Undecided("unop %s" % e.a)
        if k == "binop":
            a, b = self.ev(e.b, env), self.ev(e.c, env)
            if a[0] == "int" and b[0] == "int":
                op = e.a.replace("WithOverflow", "")
                if op == "Add":
                    return ("int", a[1] + b[1])
                if op == "Sub":
                    return ("int", a[1] - b[1])
                if op == "Mul":
                    return ("int", a[1] * b[1])
            raise Undecided("binop %s" % e.a)
        if k == "array":
            return ("list", [self.ev(x, env) for x in e.a])
        if k == "tuple":
            return ("tuple", [self.ev(x, env) for x in e.a])
        if k == "proj":
            base = self.ev(e.a, env)
            for pr in e.b:
                if "deref" in pr or "downcast" in pr:
                    continue
                if "field" in pr:
                    nm = pr.get("name")
                    if base[0] == "atom":
                        if nm == "terms" or nm == "array":
                            base = ("list", base[2])
                        elif nm == "rhs":
                            base = base[3]
                        else:
                            raise Undecided("field %s of an atom" % nm)
                    elif base[0] == "caps":
                        base = base[1][pr["field"]]
                    elif base[0] == "tuple":
                        base = base[1][pr["field"]]
                    elif base[0] in ("list", "lin", "int"):
                        continue          # Box / Vec internals, newtype wrappers
                    else:
                        raise Undecided("field %s of %s" % (nm, base[0]))
                else:
                    raise Undecided("projection %s" % (pr,))
            return base
        if k == "agg":
            short = (e.a or "").rsplit("::", 1)[-1]
            if short in ADT_KIND:
                names = e.d or []
                vals = {n: self.ev(x, env) for n, x in zip(names, e.c)}
                if "terms" not in vals or "rhs" not in vals:
                    raise Undecided("%s without terms/rhs" % short)
                return ("atom", ADT_KIND[short], self.as_list(vals["terms"]), vals["rhs"])
            raise Undecided("aggregate " + short)
        if k == "closure":
            return ("closure", e.a, [self.ev(x, env) for x in e.b])
        if k == "call":
            return self.call(e, env)
        raise Undecided(show(e)[:60])

    def as_list(self, v):
        if v[0] == "list":
            return v[1]
        raise Undecided("expected a list, got %s" % v[0])

    def apply(self, clo, x):
        g = self.prog.fns.get(clo[1])
        if g is None:
            raise Undecided("closure body")
        p = self.single_path(g)
        return self.ev(p.ret, {1: ("caps", clo[2]), 2: x})

    def call(self, e, env):
        c = e.a
        n = c.name
        args = e.b
        td = c.target_def or ""
        if n == "scaled":
            k_ = self.ev(args[1], env)
            if k_[0] != "int":
                raise Undecided("symbolic scale")
            return scale(self.ev(args[0], env), k_[1])
        if n == "offset":
            k_ = self.ev(args[1], env)
            if k_[0] != "int":
                raise Undecided("symbolic offset")
            return offset(self.ev(args[0], env), k_[1])
        if n == "new":
            for pk, kind in PROP_KIND.items():
                if pk in td or pk in (c.self_ty or ""):
                    a0 = self.ev(args[0], env)
                    a1 = self.ev(args[1], env)
                    return ("atom", kind, self.as_list(a0), a1)
        if n == "map" and len(args) == 2:
            xs = self.as_list(self.ev(args[0], env))
            clo = self.ev(args[1], env)
            if clo[0] != "closure":
                raise Undecided("map with a non-closure")
            return ("list", [self.apply(clo, x) for x in xs])
        if n == "chain" and len(args) == 2:
            return ("list", self.as_list(self.ev(args[0], env)) + self.as_list(self.ev(args[1], env)))
        if n == "once" and len(args) == 1:
            return ("list", [self.ev(args[0], env)])
        if n in IDENT and args:
            return self.ev(args[0], env)
        g = self.callee(c)
        if g is not None and "/constraints/" in g.file:
            p = self.single_path(g)
            sub = {i + 1: self.ev(a, env) for i, a in enumerate(args)}
            return self.ev(p.ret, sub)
        raise Undecided("call %s" % n)

    def posted(self, f, selfval, depth=0):
        """atoms posted on the success path of a `post` / `implied_by` implementation"""
        if depth > 4:
            raise Undecided("post recursion")
        ps = [p for p in SymExec(f, max_paths=64).run() if not p.diverged and p.ret is not None
              and not any(c.name == "from_residual" for c in p.ret.calls())]
        if len(ps) != 1:
            raise Undecided("%s has %d success paths" % (f.defn.rsplit("::", 2)[-1], len(ps)))
        out = []
        env = {1: selfval}
        for c, args, res in ps[0].calls:
            if c.name in ("post", "implied_by") and args:
                recv = self.ev(args[0], env)
                if recv[0] != "atom":
                    raise Undecided("posts a %s" % recv[0])
                g = self.callee(c)
                if g is not None and "/constraints/arithmetic" in g.file and g is not f:
                    out += self.posted(g, recv, depth + 1)
                else:
                    out.append(recv)
        return out


def lin_value(v, sigma):
    if v[0] == "int":
        return v[1]
    if v[0] != "lin":
        raise Undecided("value of %s" % v[0])
    return sum(c * sigma[x] for x, c in v[1].items()) + v[2]


def holds_atom(a, sigma):
    _, kind, terms, rhs = a
    if kind == "MAX":
        return max(lin_value(t, sigma) for t in terms) == lin_value(rhs, sigma)
    s = sum(lin_value(t, sigma) for t in terms)
    r = lin_value(rhs, sigma)
    return {"LE": s <= r, "EQ": s == r, "NE": s != r}[kind]

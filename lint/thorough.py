"""Thorough tier: the quick rules again on a second fact set (feature debug-checks: different cfg,
assertions compiled in), plus the checker self-test on the stored mutants (see mutants/)."""
import importlib
import os

from . import main as _main
from . import extract


def run(prop, led, seed):
    extra = {}
    # second configuration
    try:
        led2, ctx2, nf2, nc2 = _main.decide(prop, "thorough", seed, config="debug-checks")
        bad2 = [o for o in led2.obligations if not o["ok"]]
        seen = {(o["rule"], o["instance"]) for o in led.obligations if not o["ok"]}
        for o in bad2:
            if (o["rule"], o["instance"]) not in seen:
                o = dict(o)
                o["detail"] = "[features=debug-checks] " + (o.get("detail") or "")
                led.obligations.append(o)
        extra["debug_checks_config"] = {"obligations": len(led2.obligations),
                                        "violations": len(bad2), "functions": nf2}
    except extract.ExtractionError as e:
        led.checker_error("debug-checks configuration could not be extracted: %s" % e)
    from . import witness
    extra.update(witness.run(prop, led))
    from . import selftest
    extra.update(selftest.run(prop, led, seed))
    return extra
